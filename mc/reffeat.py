"""Reference morphometrics: the textbook definitions, evaluated in float64, pure Python.

No numpy, no swcgeom.  A tree is a parent list `p` (positions; p[root] == -1) and a list `xyz`
of 3-tuples of Python floats (the exact values the float32 columns store).  Used by C10
(definitional oracle) and C11 (rigid motions / renumberings built by the harness).

Conventions.  Where the library *documents* one of several textbook variants, the variant is
restated at the function that implements it (search for "Convention:").
"""

from __future__ import annotations

import math

from mc import ref

# ------------------------------------------------------------------ basic geometry


def sub(a, b):
    return (a[0] - b[0], a[1] - b[1], a[2] - b[2])


def norm(v):
    return math.sqrt(v[0] * v[0] + v[1] * v[1] + v[2] * v[2])


def dot(a, b):
    return a[0] * b[0] + a[1] * b[1] + a[2] * b[2]


def cross(a, b):
    return (a[1] * b[2] - a[2] * b[1], a[2] * b[0] - a[0] * b[2], a[0] * b[1] - a[1] * b[0])


def dist(a, b):
    return norm(sub(a, b))


def angle_deg(u, v):
    """Angle between two vectors in degrees, in [0, 180]; None when either is the zero vector
    (the angle is then undefined)."""
    nu, nv = norm(u), norm(v)
    if nu == 0.0 or nv == 0.0:
        return None
    c = dot(u, v) / (nu * nv)
    # atan2 form: well conditioned at 0 and 180 degrees (acos is not)
    s = norm(cross(u, v)) / (nu * nv)
    return math.degrees(math.atan2(s, c))


def root_of(p):
    rs = ref.roots(p)
    assert len(rs) == 1
    return rs[0]


# ------------------------------------------------------------------ lengths


def tree_length(p, xyz):
    """Sum of Euclidean parent-child distances."""
    return sum(dist(xyz[i], xyz[q]) for q, i in ref.edges(p))


def polyline_length(nodes, xyz):
    return sum(dist(xyz[a], xyz[b]) for a, b in zip(nodes, nodes[1:]))


def straight(nodes, xyz):
    return dist(xyz[nodes[0]], xyz[nodes[-1]])


def tortuosity(nodes, xyz):
    """Convention (swcgeom `Path.tortuosity` docstring): straight-line distance between the end
    points divided by the length along the path - i.e. a value in [0, 1]; a path of zero length
    has tortuosity 1."""
    L = polyline_length(nodes, xyz)
    if L == 0.0:
        return 1.0
    return straight(nodes, xyz) / L


def branches(p):
    """Maximal pass-through chains (root|furcation) ... (furcation|tip); list of node lists."""
    return ref.branches(p)


def paths(p):
    """Root-to-tip node sequences, one per tip."""
    return ref.root_to_tip_paths(p)


def radial(p, xyz):
    """Straight-line distance of every node to the root (the soma), by node position."""
    r0 = xyz[root_of(p)]
    return [dist(q, r0) for q in xyz]


def path_distance(p, xyz, i):
    """Length along the tree from node i to the root."""
    return polyline_length(ref.path_to_root(p, i), xyz)


# ------------------------------------------------------------------ topology


def n_children(p):
    return [len(c) for c in ref.children(p)]


def is_binary(p):
    return all(k <= 2 for k in n_children(p))


def terminal_degree(p, i):
    """Number of tips in the subtree rooted at i (i itself counts when it is a tip)."""
    ch = ref.children(p)
    return sum(1 for j in ref.descendants_or_self(p, i) if not ch[j])


def branch_order_lmeasure(p, i):
    """Convention (`LMeasure.branch_order`): number of furcations among the node itself and all
    of its ancestors, the root included when it is a furcation."""
    ch = ref.children(p)
    return sum(1 for j in ref.path_to_root(p, i) if len(ch[j]) >= 2)


def critical_nodes(p):
    ch = ref.children(p)
    return [i for i in range(len(p)) if p[i] == -1 or len(ch[i]) != 1]


def branch_order_depth(p):
    """Convention (`NodeFeatures.get_branch_order`): defined on critical nodes (root, furcations,
    tips) only; the order of a critical node is its depth in the branch tree, i.e. the number of
    branches on the way from the root: root 0, the end of every branch leaving the root 1, ...
    Returns {node: order}.  (`CutByFurcationOrder` uses a third convention - furcations on the
    path excluding the root, including the node - which belongs to C06, not to this feature.)"""
    crit = set(critical_nodes(p))
    out = {}
    for c in crit:
        d, j = 0, c
        while p[j] != -1:
            j = p[j]
            while j not in crit:
                j = p[j]
            d += 1
        out[c] = d
    return out


def partition_asymmetry(p, b):
    """|n1 - n2| / (n1 + n2 - 2) for the tip counts n1, n2 below the two daughters of the
    bifurcation b; 0 when n1 == n2 (which covers n1 = n2 = 1).  None if b is not a bifurcation."""
    ch = ref.children(p)[b]
    if len(ch) != 2:
        return None
    n1, n2 = terminal_degree(p, ch[0]), terminal_degree(p, ch[1])
    if n1 == n2:
        return 0.0
    return abs(n1 - n2) / (n1 + n2 - 2)


def contraction(nodes, xyz):
    """Euclidean distance between the branch ends / length along the branch; None (undefined)
    for a branch of zero length."""
    L = polyline_length(nodes, xyz)
    if L == 0.0:
        return None
    return straight(nodes, xyz) / L


# ------------------------------------------------------------------ Sholl


def sholl_count(p, xyz, r):
    """Number of parent-child segments whose two end points lie on different sides of the sphere
    of radius r about the root: one end at radial distance <= r, the other > r."""
    rd = radial(p, xyz)
    return sum(1 for q, i in ref.edges(p) if (rd[q] <= r < rd[i]) or (rd[i] <= r < rd[q]))


def sholl_tie(p, xyz, r, margin):
    """True when some node lies within `margin` of the sphere of radius r: whether its segments
    are counted is then a matter of rounding/convention, not of the definition."""
    return any(abs(d - r) <= margin for d in radial(p, xyz))


def sholl_midgap_radii(p, xyz, min_gap=1e-3):
    """Every midpoint between consecutive distinct radial distances, one radius below the
    minimum (negative: the minimum is the root's 0) and one above the maximum."""
    rd = sorted(set(radial(p, xyz)))
    ds = [rd[0]]
    for d in rd[1:]:
        if d - ds[-1] > min_gap:
            ds.append(d)
    out = [ds[0] - 0.5]
    out += [(a + b) / 2 for a, b in zip(ds, ds[1:])]
    out.append(ds[-1] + 1.0)
    return out


def sholl_step_radii(p, xyz, steps):
    """Convention (`Sholl.plot` docstring, `Sholl.get_rs`): an integer `steps` = k means the k
    evenly spaced radii j * rmax / (k + 1), j = 1..k, rmax the largest radial distance of a node."""
    rmax = max(radial(p, xyz))
    return [j * rmax / (steps + 1) for j in range(1, steps + 1)]


# ------------------------------------------------------------------ bifurcation angles


def branch_end_from(p, c):
    """Last node of the branch that contains the edge (parent(c), c): walk down from c while the
    node has exactly one child."""
    ch = ref.children(p)
    while len(ch[c]) == 1:
        c = ch[c][0]
    return c


def prev_critical(p, b):
    """The critical node (root / furcation) at which the branch ending in b starts; None for the root."""
    if p[b] == -1:
        return None
    ch = ref.children(p)
    j = p[b]
    while p[j] != -1 and len(ch[j]) == 1:
        j = p[j]
    return j


def bif_vectors(p, xyz, b, remote):
    """The two daughter vectors of bifurcation b: local = to the daughter nodes, remote = to the
    next critical node (furcation or tip) along each daughter branch.  Ordered by child position."""
    ch = ref.children(p)[b]
    if len(ch) != 2:
        return None
    ends = [branch_end_from(p, c) for c in ch] if remote else ch
    return sub(xyz[ends[0]], xyz[b]), sub(xyz[ends[1]], xyz[b])


def bif_ampl(p, xyz, b, remote):
    """Bifurcation amplitude in degrees; None if undefined (not a bifurcation / zero vector)."""
    vs = bif_vectors(p, xyz, b, remote)
    if vs is None:
        return None
    return angle_deg(*vs)


def bif_tilt(p, xyz, b, remote):
    """Convention (L-Measure help text quoted in the docstrings; "smaller of the two angles"):
    the angle at the bifurcation between the direction back to the previous point and each
    daughter direction, measured at the vertex b between the two rays (a straight continuation is
    180 degrees); the smaller one is returned.  local: previous point = parent node, daughters =
    child nodes.  remote: "a node is a terminating point or a bifurcation point or a root point":
    previous point = the critical node at which the branch ending in b starts, daughters = the
    next critical nodes.  None when undefined (root, not a bifurcation, zero vector)."""
    vs = bif_vectors(p, xyz, b, remote)
    if vs is None or p[b] == -1:
        return None
    prev = prev_critical(p, b) if remote else p[b]
    v = sub(xyz[prev], xyz[b])
    a1, a2 = angle_deg(v, vs[0]), angle_deg(v, vs[1])
    if a1 is None or a2 is None:
        return None
    return min(a1, a2)


def bif_torque(p, xyz, b, remote):
    """Angle between the plane of the previous bifurcation (the critical node where the branch
    ending in b starts, which must itself be a bifurcation) and the plane of b, each plane spanned
    by the two daughter vectors.  The orientation of a plane normal depends on which daughter is
    called the first, so the definition fixes the value only up to t <-> 180 - t: the pair
    (t, 180 - t) is returned.  None if undefined."""
    if p[b] == -1:
        return None
    a = prev_critical(p, b)
    va, vb = bif_vectors(p, xyz, a, remote), bif_vectors(p, xyz, b, remote)
    if va is None or vb is None:
        return None
    t = angle_deg(cross(*va), cross(*vb))
    if t is None:
        return None
    return (t, 180.0 - t)


# ------------------------------------------------------------------ padding


def pad_rows(rows):
    """Zero-pad every row (list of floats) on the right to the longest."""
    m = max(len(r) for r in rows)
    return [list(r) + [0.0] * (m - len(r)) for r in rows]


# ------------------------------------------------------------------ rigid motions, renumbering (C11)


def rotation_matrix(axis, theta):
    """Rodrigues rotation matrix (float64, row-major 3x3) about `axis` by `theta` radians."""
    n = norm(axis)
    x, y, z = axis[0] / n, axis[1] / n, axis[2] / n
    c, s = math.cos(theta), math.sin(theta)
    C = 1.0 - c
    return (
        (c + x * x * C, x * y * C - z * s, x * z * C + y * s),
        (y * x * C + z * s, c + y * y * C, y * z * C - x * s),
        (z * x * C - y * s, z * y * C + x * s, c + z * z * C),
    )


def apply_motion(xyz, R, t, scale=1.0):
    """q -> scale * (R q) + t for every point."""
    out = []
    for q in xyz:
        out.append(tuple(scale * (R[k][0] * q[0] + R[k][1] * q[1] + R[k][2] * q[2]) + t[k] for k in range(3)))
    return out


def renumber(p, perm, *cols):
    """Relabel node i as perm[i] (perm a permutation of positions fixing the root).  Returns the
    new parent list and the permuted columns."""
    n = len(p)
    q = [None] * n
    for i in range(n):
        q[perm[i]] = -1 if p[i] == -1 else perm[p[i]]
    out_cols = []
    for c in cols:
        d = [None] * n
        for i in range(n):
            d[perm[i]] = c[i]
        out_cols.append(d)
    return (q, *out_cols)
