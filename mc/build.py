"""Build real swcgeom objects from reference descriptions; geometry banks; canonical forms."""

from __future__ import annotations

import struct

import numpy as np

from mc import ref


def f32(x: float) -> float:
    """The value a float32 column stores for x (numpy-independent)."""
    return struct.unpack("f", struct.pack("f", x))[0]


# ------------------------------------------------------------------ geometry banks


def _lcg(seed):
    s = seed
    while True:
        s = (s * 6364136223846793005 + 1442695040888963407) % (1 << 64)
        yield (s >> 11) / float(1 << 53)


def _make_bank(seed: int, n: int = 12, scale: float = 10.0, offset=(0.0, 0.0, 0.0)):
    g = _lcg(seed)
    pts = []
    while len(pts) < n:
        p = tuple(f32(round(offset[k] + (next(g) - 0.5) * 2 * scale, 2)) for k in range(3))
        r = f32(round(0.2 + next(g) * 1.3, 2))
        cand = pts + [(p, r)]
        if _tie_free([c[0] for c in cand], [c[1] for c in cand]):
            pts.append((p, r))
    return pts


def _tie_free(pts, rs, margin=0.05):
    vals = []
    n = len(pts)
    for i in range(n):
        for j in range(i + 1, n):
            vals.append(ref.dist(pts[i], pts[j]))
    for k in range(3):
        cs = sorted(p[k] for p in pts)
        if any(b - a < margin for a, b in zip(cs, cs[1:])):
            return False
    vals.sort()
    if any(b - a < margin / 5 for a, b in zip(vals, vals[1:])):
        return False
    if vals and vals[0] < 0.5:
        return False
    rs2 = sorted(rs)
    if any(b - a < 0.01 for a, b in zip(rs2, rs2[1:])):
        return False
    return True


_BANKS: dict = {}


def bank(k: int = 0, n: int = 12, offset=(0.0, 0.0, 0.0)):
    """Generic bank k: n points (xyz, r), pairwise-distinct coords, distances, radii.

    Validated tie-free at construction (a failing bank would loop forever in _make_bank,
    never produce a false alarm).  Point 0 is used for the root.
    """
    key = (k, n, offset)
    if key not in _BANKS:
        _BANKS[key] = _make_bank(1000 + 17 * k, n, 10.0, offset)
    return _BANKS[key]


def generic_geometry(n: int, k: int = 0, offset=(0.0, 0.0, 0.0)):
    b = bank(k, max(12, n), offset)
    xyz = [b[i][0] for i in range(n)]
    r = [b[i][1] for i in range(n)]
    return xyz, r


# ------------------------------------------------------------------ tree construction


def make_tree(p, xyz=None, r=None, types=None, extra=None, comments=None, ids=None, bank_k=0, offset=(0.0, 0.0, 0.0)):
    """Real swcgeom Tree for parent list p (positions) with tagged generic geometry."""
    from swcgeom.core import Tree

    n = len(p)
    if xyz is None:
        gx, gr = generic_geometry(n, bank_k, offset)
        xyz = gx
        if r is None:
            r = gr
    if r is None:
        r = [1.0] * n
    if types is None:
        types = [1] + [3] * (n - 1)
    kw = dict(
        id=np.arange(n, dtype=np.int32) if ids is None else np.array(ids, dtype=np.int32),
        pid=np.array(p, dtype=np.int32),
        type=np.array(types, dtype=np.int32),
        x=np.array([q[0] for q in xyz], dtype=np.float32),
        y=np.array([q[1] for q in xyz], dtype=np.float32),
        z=np.array([q[2] for q in xyz], dtype=np.float32),
        r=np.array(r, dtype=np.float32),
    )
    if extra:
        for k, v in extra.items():
            kw[k] = np.array(v)
    return Tree(n, comments=comments, **kw)


def tree_cols(t):
    """Observable content of a tree as plain Python (ints / floats)."""
    out = {}
    for k in t.keys():
        out[k] = t.get_ndata(k).tolist()
    return out


def canon_tree(t):
    """Exact canonical key of a tree: all columns (dtype-insensitive values) + comments."""
    cols = {}
    for k in sorted(t.keys()):
        v = t.get_ndata(k)
        if np.issubdtype(v.dtype, np.floating):
            cols[k] = np.asarray(v, dtype=np.float64).tobytes()
        elif np.issubdtype(v.dtype, np.integer) or v.dtype == bool:
            cols[k] = tuple(int(x) for x in v.tolist())
        else:  # strings / objects
            cols[k] = tuple(repr(x) for x in v.tolist())
    return (len(t), cols, tuple(t.comments))


def snapshot(t):
    """Bytes of every column + comments + source + key set."""
    return (
        tuple(sorted(t.keys())),
        {k: (str(t.get_ndata(k).dtype), t.get_ndata(k).tobytes()) for k in t.keys()},
        tuple(t.comments),
        t.source,
    )


def tags_xyz(t):
    return [tuple(float(v) for v in row) for row in zip(t.x().tolist(), t.y().tolist(), t.z().tolist())]


def wellformed(t):
    return ref.is_wellformed([int(i) for i in t.id().tolist()], [int(i) for i in t.pid().tolist()])


def independent(a, b):
    """Behavioural aliasing test between trees a and b.  Returns '' if independent.

    Mutates a (every column +1, comments append), checks b against its snapshot, then restores a;
    and the other way round.
    """
    for first, second, nm in ((a, b, "result->input"), (b, a, "input->result")):
        snap = snapshot(second)
        saved = {k: first.get_ndata(k).copy() for k in first.keys()}
        saved_comments = list(first.comments)
        try:
            for k in list(first.keys()):
                arr = first.get_ndata(k)
                try:
                    arr += 1
                except (ValueError, TypeError):  # read-only or non-numeric: cannot leak
                    pass
            first.comments.append("__probe__")
            if snapshot(second) != snap:
                return f"{nm}: in-place edit of one tree changed the other"
        finally:
            for k, v in saved.items():
                arr = first.get_ndata(k)
                try:
                    arr[...] = v
                except (ValueError, TypeError):
                    pass
            first.comments[:] = saved_comments
    return ""


# ------------------------------------------------------------------ histories: warm, edit in place, re-query

EDIT_HOWS = ("handle", "column", "copy-then-handle")


def reparent_edits(p):
    """All single re-parentings (i, j) that keep a well-formed tree well-formed: i is not the root, j is a
    different parent than the current one and not inside i's own subtree."""
    n = len(p)
    out = []
    for i in range(1, n):
        below = set(ref.descendants_or_self(list(p), i))
        for j in range(n):
            if j != p[i] and j not in below:
                out.append((i, j))
    return out


def apply_reparent(t, p, edit, warm=None):
    """History: build-time tree t (parent list p) has been queried by `warm`; now re-parent node i to j IN PLACE
    through the public API and return (the object to interrogate, its new parent list, the other object + its list).

    how = 'handle': t.node(i).pid = j;  'column': write into the array t.pid() returns;
          'copy-then-handle': c = t.copy(); c.node(i).pid = j  (c must answer for the new table, t for the old).
    """
    i, j, how = edit
    if warm is not None:
        warm(t)
    q = list(p)
    q[i] = j
    if how == "handle":
        t.node(i).pid = j
        return t, q, None, None
    if how == "column":
        t.pid()[i] = j
        return t, q, None, None
    if how == "copy-then-handle":
        c = t.copy()
        c.node(i).pid = j
        return c, q, t, list(p)
    raise ValueError(how)
