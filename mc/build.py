"""Build real swcgeom objects from reference descriptions; geometry banks; canonical forms."""

from __future__ import annotations

import struct

import numpy as np

from mc import ref


def f32(x: float) -> float:
    """The value a float32 column stores for x (numpy-independent)."""
    return struct.unpack("f", struct.pack("f", x))[0]


# ------------------------------------------------------------------ geometry banks


def _lcg(seed):
    s = seed
    while True:
        s = (s * 6364136223846793005 + 1442695040888963407) % (1 << 64)
        yield (s >> 11) / float(1 << 53)


def _make_bank(seed: int, n: int = 12, scale: float = 10.0, offset=(0.0, 0.0, 0.0)):
    g = _lcg(seed)
    pts = []
    while len(pts) < n:
        p = tuple(f32(round(offset[k] + (next(g) - 0.5) * 2 * scale, 2)) for k in range(3))
        r = f32(round(0.2 + next(g) * 1.3, 2))
        cand = pts + [(p, r)]
        if _tie_free([c[0] for c in cand], [c[1] for c in cand]):
            pts.append((p, r))
    return pts


def _tie_free(pts, rs, margin=0.05):
    vals = []
    n = len(pts)
    for i in range(n):
        for j in range(i + 1, n):
            vals.append(ref.dist(pts[i], pts[j]))
    for k in range(3):
        cs = sorted(p[k] for p in pts)
        if any(b - a < margin for a, b in zip(cs, cs[1:])):
            return False
    vals.sort()
    if any(b - a < margin / 5 for a, b in zip(vals, vals[1:])):
        return False
    if vals and vals[0] < 0.5:
        return False
    rs2 = sorted(rs)
    if any(b - a < 0.01 for a, b in zip(rs2, rs2[1:])):
        return False
    return True


_BANKS: dict = {}


def bank(k: int = 0, n: int = 12, offset=(0.0, 0.0, 0.0)):
    """Generic bank k: n points (xyz, r), pairwise-distinct coords, distances, radii.

    Validated tie-free at construction (a failing bank would loop forever in _make_bank,
    never produce a false alarm).  Point 0 is used for the root.
    """
    key = (k, n, offset)
    if key not in _BANKS:
        _BANKS[key] = _make_bank(1000 + 17 * k, n, 10.0, offset)
    return _BANKS[key]


def generic_geometry(n: int, k: int = 0, offset=(0.0, 0.0, 0.0)):
    b = bank(k, max(12, n), offset)
    xyz = [b[i][0] for i in range(n)]
    r = [b[i][1] for i in range(n)]
    return xyz, r


# ------------------------------------------------------------------ tree construction


def make_tree(p, xyz=None, r=None, types=None, extra=None, comments=None, ids=None, bank_k=0, offset=(0.0, 0.0, 0.0)):
    """Real swcgeom Tree for parent list p (positions) with tagged generic geometry."""
    from swcgeom.core import Tree

    n = len(p)
    if xyz is None:
        gx, gr = generic_geometry(n, bank_k, offset)
        xyz = gx
        if r is None:
            r = gr
    if r is None:
        r = [1.0] * n
    if types is None:
        types = [1] + [3] * (n - 1)
    kw = dict(
        id=np.arange(n, dtype=np.int32) if ids is None else np.array(ids, dtype=np.int32),
        pid=np.array(p, dtype=np.int32),
        type=np.array(types, dtype=np.int32),
        x=np.array([q[0] for q in xyz], dtype=np.float32),
        y=np.array([q[1] for q in xyz], dtype=np.float32),
        z=np.array([q[2] for q in xyz], dtype=np.float32),
        r=np.array(r, dtype=np.float32),
    )
    if extra:
        for k, v in extra.items():
            kw[k] = np.array(v)
    return Tree(n, comments=comments, **kw)


def tree_cols(t):
    """Observable content of a tree as plain Python (ints / floats)."""
    out = {}
    for k in t.keys():
        out[k] = t.get_ndata(k).tolist()
    return out


def canon_tree(t):
    """Exact canonical key of a tree: all columns (dtype-insensitive values) + comments."""
    cols = {}
    for k in sorted(t.keys()):
        v = t.get_ndata(k)
        if np.issubdtype(v.dtype, np.floating):
            cols[k] = np.asarray(v, dtype=np.float64).tobytes()
        elif np.issubdtype(v.dtype, np.integer) or v.dtype == bool:
            cols[k] = tuple(int(x) for x in v.tolist())
        else:  # strings / objects
            cols[k] = tuple(repr(x) for x in v.tolist())
    return (len(t), cols, tuple(t.comments))


def snapshot(t):
    """Bytes of every column + comments + source + key set."""
    return (
        tuple(sorted(t.keys())),
        {k: (str(t.get_ndata(k).dtype), t.get_ndata(k).tobytes()) for k in t.keys()},
        tuple(t.comments),
        t.source,
    )


def tags_xyz(t):
    return [tuple(float(v) for v in row) for row in zip(t.x().tolist(), t.y().tolist(), t.z().tolist())]


def wellformed(t):
    return ref.is_wellformed([int(i) for i in t.id().tolist()], [int(i) for i in t.pid().tolist()])


def independent(a, b):
    """Behavioural aliasing test between trees a and b.  Returns '' if independent.

    Mutates a (every column +1, comments append), checks b against its snapshot, then restores a;
    and the other way round.
    """
    for first, second, nm in ((a, b, "result->input"), (b, a, "input->result")):
        snap = snapshot(second)
        saved = {k: first.get_ndata(k).copy() for k in first.keys()}
        saved_comments = list(first.comments)
        try:
            for k in list(first.keys()):
                arr = first.get_ndata(k)
                try:
                    arr += 1
                except (ValueError, TypeError):  # read-only or non-numeric: cannot leak
                    pass
            first.comments.append("__probe__")
            if snapshot(second) != snap:
                return f"{nm}: in-place edit of one tree changed the other"
        finally:
            for k, v in saved.items():
                arr = first.get_ndata(k)
                try:
                    arr[...] = v
                except (ValueError, TypeError):
                    pass
            first.comments[:] = saved_comments
    return ""


# ------------------------------------------------------------------ histories: warm, edit in place, re-query

EDIT_HOWS = ("handle", "column", "copy-then-handle")


def reparent_edits(p):
    """All single re-parentings (i, j) that keep a well-formed tree well-formed: i is not the root, j is a
    different parent than the current one and not inside i's own subtree."""
    n = len(p)
    out = []
    for i in range(1, n):
        below = set(ref.descendants_or_self(list(p), i))
        for j in range(n):
            if j != p[i] and j not in below:
                out.append((i, j))
    return out


def apply_reparent(t, p, edit, warm=None):
    """History: build-time tree t (parent list p) has been queried by `warm`; now re-parent node i to j IN PLACE
    through the public API and return (the object to interrogate, its new parent list, the other object + its list).

    how = 'handle': t.node(i).pid = j;  'column': write into the array t.pid() returns;
          'copy-then-handle': c = t.copy(); c.node(i).pid = j  (c must answer for the new table, t for the old).
    """
    i, j, how = edit
    if warm is not None:
        warm(t)
    q = list(p)
    q[i] = j
    if how == "handle":
        t.node(i).pid = j
        return t, q, None, None
    if how == "column":
        t.pid()[i] = j
        return t, q, None, None
    if how == "copy-then-handle":
        c = t.copy()
        c.node(i).pid = j
        return c, q, t, list(p)
    raise ValueError(how)


# ------------------------------------------------------------------ a tree's queries describe its own current content


def query_report(t, length_tol=1e-4):
    """Every structural query of tree object `t` against the reference computed from t's OWN current table (id / pid / x / y / z).
    Returns a list of problems ('' free: []).  Used (a) on every tree a library operation RETURNS - a derived tree must answer for
    itself, not for the tree it was derived from - and (b) as a warm-up: whatever the queries memoise on the object is present when
    the object is handed to the next operation.  Only for well-formed trees (ids = positions, root 0).

    Sound: each item is the definition the respective property states (children / parent / tips / furcations / branches / paths /
    segments / length / traversal); sibling order and order of the returned lists are not compared."""
    import numpy as np

    ids = [int(v) for v in t.id().tolist()]
    p = [int(v) for v in t.pid().tolist()]
    n = len(p)
    ok, _ = ref.is_wellformed(ids, p)
    if not ok:
        return []
    ch = ref.children(p)
    out = []

    def bad(msg):
        if len(out) < 4:
            out.append(msg)

    def guard(what, fn):
        try:
            return True, fn()
        except Exception as e:  # noqa: BLE001 - a query that raises on a well-formed tree is a finding
            bad(f"{what} raised {type(e).__name__}: {e}")
            return False, None

    for i in range(n):
        okk, v = guard(f"node({i}).children()", lambda: sorted(int(c.id) for c in t.node(i).children()))
        if okk and v != ch[i]:
            bad(f"node({i}).children() -> {v}, table says {ch[i]}")
        okk, v = guard(f"node({i}).parent()", lambda: t.node(i).parent())
        if okk and (-1 if v is None else int(v.id)) != p[i]:
            bad(f"node({i}).parent() -> {None if v is None else int(v.id)}, table says {p[i]}")
        okk, v = guard(f"node({i}).is_tip/is_furcation", lambda: (bool(t.node(i).is_tip()), bool(t.node(i).is_furcation())))
        if okk and v != (len(ch[i]) == 0, len(ch[i]) >= 2):
            bad(f"node({i}): is_tip/is_furcation {v} with children {ch[i]}")
    okk, v = guard("get_tips", lambda: sorted(int(x.id) for x in t.get_tips()))
    if okk and v != ref.tips(p):
        bad(f"get_tips -> {v}, table says {ref.tips(p)}")
    okk, v = guard("get_furcations", lambda: sorted(int(x.id) for x in t.get_furcations()))
    if okk and v != ref.furcations(p):
        bad(f"get_furcations -> {v}, table says {ref.furcations(p)}")
    okk, v = guard("get_branches", lambda: sorted(tuple(int(i) for i in b.origin_id().tolist()) for b in t.get_branches()))
    want = sorted(tuple(b) for b in ref.branches(p))
    if okk and v != want:
        bad(f"get_branches -> {v}, table gives {want}")
    okk, v = guard("get_paths", lambda: sorted(tuple(int(i) for i in q.origin_id().tolist()) for q in t.get_paths()))
    want = sorted(tuple(q) for q in ref.root_to_tip_paths(p))
    if okk and v != want:
        bad(f"get_paths -> {v}, table gives {want}")
    okk, v = guard("get_segments", lambda: sorted(tuple(int(i) for i in s.origin_id().tolist()) for s in t.get_segments()))
    want = sorted((p[c], c) for c in range(n) if p[c] != -1)
    if okk and v != want:
        bad(f"get_segments -> {v}, table gives {want}")
    xyz = np.stack([t.x(), t.y(), t.z()], axis=1).astype(np.float64)
    if np.all(np.isfinite(xyz)):
        want_len = float(sum(np.linalg.norm(xyz[c] - xyz[p[c]]) for c in range(n) if p[c] != -1))
        okk, v = guard("length", lambda: float(t.length()))
        if okk and abs(v - want_len) > length_tol * max(1.0, want_len):
            bad(f"length() -> {v}, the table's segments sum to {want_len}")
    seen = []
    okk, _ = guard("traverse", lambda: t.traverse(enter=lambda nd, pv: seen.append((int(nd.id), pv)) or int(nd.id)))
    if okk:
        if sorted(i for i, _ in seen) != list(range(n)):
            bad(f"traverse visited {sorted(i for i, _ in seen)}")
        elif any((pv if pv is not None else -1) != p[i] for i, pv in seen):
            bad(f"traverse handed wrong parent values: {seen[:6]}")
    return out


DERIVATIONS = ("copy", "sort_tree", "get_subtree(first child)", "Node.subtree(first child)", "to_subtree([last])", "redirect_tree(last)",
               "redirect_tree(last, sort=False) then sort_tree", "cat_tree(self, self)", "cut_tree()", "Translate", "Scale", "RotateZ", "swc round trip",
               "copy of a copy after an in-place re-parenting")


def derive(t, which):
    """A tree DERIVED from tree object `t` by a library operation (t has typically been queried before: 'measure, derive, measure').
    Returns the derived tree or None when the derivation does not apply to this tree.  The caller judges the derived tree against
    the derived tree's own table."""
    import io

    from swcgeom.core import Tree, cat_tree, cut_tree, get_subtree, redirect_tree, sort_tree, to_subtree

    n = len(t)
    p = [int(v) for v in t.pid().tolist()]
    kids = ref.children(p)[0]
    if which == "copy":
        return t.copy()
    if which == "sort_tree":
        return sort_tree(t)
    if which == "get_subtree(first child)":
        return get_subtree(t, kids[0]) if kids else None
    if which == "Node.subtree(first child)":
        return t.node(kids[0]).subtree() if kids else None
    if which == "to_subtree([last])":
        return to_subtree(t, [n - 1]) if n > 1 else None
    if which == "redirect_tree(last)":
        return redirect_tree(t, n - 1) if n > 1 else None
    if which == "redirect_tree(last, sort=False) then sort_tree":
        return sort_tree(redirect_tree(t, n - 1, sort=False)) if n > 1 else None
    if which == "cat_tree(self, self)":
        return cat_tree(t, t, n - 1, 0, translate=True)
    if which == "cut_tree()":
        return cut_tree(t)
    if which == "Translate":
        from swcgeom.transforms import Translate

        return Translate(1.0, -2.0, 0.5)(t)
    if which == "Scale":
        from swcgeom.transforms import Scale

        return Scale(2.0, 2.0, 2.0)(t)
    if which == "RotateZ":
        from swcgeom.transforms import RotateZ

        return RotateZ(0.5)(t)
    if which == "swc round trip":
        return Tree.from_swc(io.StringIO(t.to_swc())) if ref.is_sorted(p) else None
    if which == "copy of a copy after an in-place re-parenting":
        ed = reparent_edits(p)
        if not ed:
            return None
        c = t.copy()
        c.node(ed[0][0]).pid = ed[0][1]
        return c.copy()
    raise ValueError(which)
