"""Entry point: ./check <ID> <quick|thorough>  |  ./check <ID> --replay <file>"""

from __future__ import annotations

import importlib
import json
import os
import sys
import time
import warnings

ROOT = os.path.dirname(os.path.dirname(os.path.abspath(__file__)))
REPO = os.environ.get("VERIF_REPO", "/repo")


def _bind_repo():
    sys.dont_write_bytecode = True
    if REPO in sys.path:
        sys.path.remove(REPO)
    sys.path.insert(0, REPO)
    import swcgeom  # noqa: F401

    f = os.path.realpath(swcgeom.__file__)
    if not f.startswith(os.path.realpath(REPO) + os.sep):
        print(f"harness error: swcgeom imported from {f}, not from {REPO}", file=sys.stderr)
        sys.exit(2)


def _load_known():
    p = os.path.join(ROOT, "known_findings.json")
    if not os.path.exists(p):
        return {"findings": [], "fixed": []}
    with open(p) as f:
        return json.load(f)


def main(argv):
    if len(argv) < 2:
        print(__doc__)
        return 2
    pid = argv[0].upper()
    _bind_repo()
    warnings.simplefilter("ignore")
    from mc import kernel

    mod = importlib.import_module(f"mc.props.{pid.lower()}")
    seed = int(os.environ.get("VERIF_SEED", "0") or 0)

    if argv[1] == "--replay":
        return replay(mod, pid, argv[2], seed)

    tier = argv[1]
    if tier not in ("quick", "thorough"):
        print(__doc__)
        return 2
    os.environ["VERIF_TIER"] = tier
    t0 = time.time()
    spaces = mod.spaces(tier, seed)
    workers = int(os.environ.get("VERIF_WORKERS", "0") or 0) or None
    res = kernel.explore(spaces, seed, workers)
    det = determinism_selftest(mod, tier, seed, res)
    wall = time.time() - t0

    known = _load_known()
    known_here = {k["klass"]: k for k in known.get("findings", []) if k["property"] == pid}

    new_viol, known_hit = [], []
    for sname, m in res["spaces"].items():
        for klass, ent in sorted(m["viol"].items(), key=lambda kv: kv[1]["idx"]):
            if klass in known_here:
                known_hit.append((klass, ent))
            else:
                new_viol.append((klass, ent))
    if det is not None:
        new_viol.append(("nondeterministic-replay", {"count": 1, "idx": 0, "example": det}))

    write_evidence(mod, pid, tier, seed, res, wall, len(new_viol), known_hit)

    for klass, ent in known_hit:
        print(f"KNOWN-FINDING: property={pid} {known_here[klass]['what']} [{ent['count']} cases, klass={klass}]")
    rc = 0
    for klass, ent in new_viol:
        path = write_replay(pid, ent["example"])
        ex = ent["example"]
        print(f"VIOLATION property={pid} replay={path}")
        print(f"  klass={klass} cases={ent['count']} space={ex.get('space')} kind={ex.get('kind')}")
        print(f"  case={json.dumps(ex.get('case'))[:600]}")
        print("  detail=" + str(ex.get("detail", "")).replace("\n", "\n    ")[:1500])
        rc = 1
    tot_e = sum(m["evaluations"] for m in res["spaces"].values())
    tot_s = sum(m["n_states"] for m in res["spaces"].values())
    tot_t = sum(m["transitions"] for m in res["spaces"].values())
    print(
        f"{pid} {tier}: spaces={len(res['spaces'])} cases={tot_e} states={tot_s} transitions={tot_t} "
        f"violations={len(new_viol)} known={len(known_hit)} wall={wall:.1f}s"
    )
    for sname, m in res["spaces"].items():
        print(
            f"  - {sname}: cases={m['evaluations']} states={m['n_states']} trans={m['transitions']} "
            f"outcomes={m['n_outcomes']} skipped={sum(m['skipped'].values())} viol={m['n_viol']}"
        )
    return rc


def determinism_selftest(mod, tier, seed, res):
    """Replay one explored case twice in-process; observations must be identical."""
    from mc import kernel

    spaces = {s.name: s for s in mod.spaces(tier, seed)}
    for sname, m in res["spaces"].items():
        if not m["samples"]:
            continue
        case = kernel.unjson(m["samples"][0][1])
        sp = spaces[sname]
        obs = []
        import signal

        signal.signal(signal.SIGALRM, kernel._alarm)
        for _ in range(2):
            R = kernel.Recorder(sname, seed)
            case_n = normalise_case(sp, case)
            kernel.run_case(sp, 0, case_n, R)
            obs.append((sorted(R.outcomes), sorted(R.states), R.transitions, sorted(R.viol)))
        if obs[0] != obs[1]:
            return {"space": sname, "case": case, "kind": "nondeterministic-replay", "klass": "nondeterministic-replay",
                    "detail": f"two replays of the same case differ: {obs[0]!r:.300} vs {obs[1]!r:.300}"}
        return None
    return None


def normalise_case(space, case):
    """Cases come back from JSON as lists; spaces that need tuples convert in `load`."""
    load = getattr(space, "load", None)
    return load(case) if load else case


def write_replay(pid, example):
    from mc import kernel

    d = os.path.join(ROOT, "replays", pid)
    os.makedirs(d, exist_ok=True)
    name = f"{kernel.dg(example.get('space'), example.get('case'), example.get('klass')):016x}.json"
    path = os.path.join(d, name)
    with open(path, "w") as f:
        json.dump({"property": pid, **example}, f, indent=1)
    return path


def write_evidence(mod, pid, tier, seed, res, wall, n_viol, known_hit):
    sp = res["spaces"]
    samples = []
    for sname, m in sp.items():
        for _, c in m["samples"][:2]:
            samples.append({"space": sname, "case": c})
    per_space = {}
    for sname, m in sp.items():
        per_space[sname] = {
            "cases": m["evaluations"],
            "states": m["n_states"],
            "transitions": m["transitions"],
            "distinct_outcomes": m["n_outcomes"],
            "distinct_nontrivial": m["n_nontrivial"],
            "skipped_degenerate": m["skipped"],
            "notes": m["notes"],
            "bounds": m["bounds"],
            "exhaustive": bool(m["exhaustive"]),
            "max_depth": m["max_depth"],
            "violating_cases": m["n_viol"],
            "stopped_early_after_violation": bool(m.get("stopped_early")),
        }
    ev = {
        "property_id": pid,
        "tier": tier,
        "seed": seed,
        "level": "model_checking",
        "coverage": {
            "states": max(1, sum(m["n_states"] for m in sp.values())),
            "transitions": max(1, sum(m["transitions"] for m in sp.values())),
            "traces_validated_against_impl": sum(m["validated"] for m in sp.values()),
            "samples": samples or [{"note": "no cases"}],
            "evaluations": sum(m["evaluations"] for m in sp.values()),
            "distinct_nontrivial": sum(m["n_nontrivial"] for m in sp.values()),
            "distinct_outcomes": sum(m["n_outcomes"] for m in sp.values()),
            "rule": getattr(mod, "RULE", ""),
            "exhaustive": all(m["exhaustive"] for m in sp.values()),
            "explanation": "every enumerated case was executed on /repo's working tree and compared with the "
            "pure-Python reference model; 'states' counts distinct canonical inputs/intermediate states, "
            "'transitions' real library operations executed, 'traces_validated_against_impl' the executions "
            "whose implementation output was compared with the model (all of them: there is no separate model run).",
            "spaces": per_space,
            "workers": res["workers"],
            "known_findings_hit": [k for k, _ in known_hit],
        },
        "assumptions": list(getattr(mod, "ASSUMPTIONS", [])),
        "wall_s": round(wall, 3),
        "violations": n_viol,
    }
    # evidence/ describes /repo itself; a run against another tree (VERIF_REPO = a scratch worktree with a seeded change) must not
    # overwrite it: its report goes to scratch/evidence-other-tree/
    edir = os.path.join(ROOT, "evidence") if os.path.realpath(REPO) == "/repo" else os.path.join(ROOT, "scratch", "evidence-other-tree")
    os.makedirs(edir, exist_ok=True)
    path = os.path.join(edir, f"{pid}.json")
    tmp = path + ".tmp"
    with open(tmp, "w") as f:
        json.dump(ev, f, indent=1, sort_keys=False)
    os.replace(tmp, path)


def replay(mod, pid, path, seed):
    import signal

    from mc import kernel

    with open(path) as f:
        rec = json.load(f)
    spaces = {}
    for tier in ("quick", "thorough"):
        for s in mod.spaces(tier, seed):
            spaces.setdefault(s.name, s)
    sp = spaces.get(rec["space"])
    if sp is None:
        print(f"unknown space {rec['space']}", file=sys.stderr)
        return 2
    case = normalise_case(sp, kernel.unjson(rec["case"]))
    R = kernel.Recorder(sp.name, seed)
    signal.signal(signal.SIGALRM, kernel._alarm)
    for k, prior in enumerate(rec.get("prior_cases") or []):  # history-dependent violation: run the earlier cases first
        kernel.run_case(sp, k, normalise_case(sp, kernel.unjson(prior)), R)
    kernel.run_case(sp, 0, case, R)
    print(f"replay {pid} space={sp.name} case={json.dumps(rec['case'])[:800]}")
    if not R.viol:
        print("  property holds on this case")
        return 0
    for klass, ent in R.viol.items():
        ex = ent["example"]
        print(f"VIOLATION property={pid} replay={path}")
        print(f"  klass={klass} kind={ex['kind']}")
        print("  detail=" + ex["detail"].replace("\n", "\n    "))
    return 1


if __name__ == "__main__":
    try:
        rc = main(sys.argv[1:])
    except SystemExit:
        raise
    except BaseException:  # noqa: BLE001 - the machinery failed (not the code under test): never exit 1, never print VIOLATION
        import traceback

        traceback.print_exc()
        print("HARNESS ERROR: the check could not be carried out (see traceback); this is not a verdict about the property")
        rc = 2
    sys.exit(rc)
