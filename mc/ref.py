"""Reference tree model: pure Python lists/dicts; no numpy, no swcgeom.  Kept boring.

A tree is a parent list `p` (p[i] = parent position of node i, -1 for a root) plus optional
per-node columns.  All functions take the parent list.
"""

from __future__ import annotations

import math


def children(p):
    ch = [[] for _ in p]
    for i, q in enumerate(p):
        if q != -1:
            ch[q].append(i)
    return ch


def roots(p):
    return [i for i, q in enumerate(p) if q == -1]


def is_wellformed(ids, pids):
    """ids == positions, node 0 only root, every other pid names an existing node, all reach root."""
    n = len(ids)
    if n == 0:
        return False, "empty"
    if list(ids) != list(range(n)):
        return False, f"ids != positions: {list(ids)}"
    if pids[0] != -1:
        return False, f"node 0 is not a root (pid {pids[0]})"
    for i in range(1, n):
        if not (0 <= pids[i] < n):
            return False, f"node {i} has parent {pids[i]}"
    for i in range(n):
        j, steps = i, 0
        while pids[j] != -1:
            j = pids[j]
            steps += 1
            if steps > n:
                return False, f"node {i} does not reach the root (cycle)"
        if j != 0:
            return False, f"node {i} reaches root {j}"
    return True, ""


def is_sorted(pids):
    return all(pids[i] < i for i in range(len(pids)))


def depth(p, i):
    d = 0
    while p[i] != -1:
        i = p[i]
        d += 1
    return d


def ancestors(p, i):
    out = []
    while p[i] != -1:
        i = p[i]
        out.append(i)
    return out


def path_to_root(p, i):
    return [i] + ancestors(p, i)


def descendants_or_self(p, i):
    ch = children(p)
    out, stack = [], [i]
    while stack:
        j = stack.pop()
        out.append(j)
        stack.extend(ch[j])
    return sorted(out)


def tips(p):
    ch = children(p)
    return [i for i in range(len(p)) if not ch[i]]


def furcations(p):
    ch = children(p)
    return [i for i in range(len(p)) if len(ch[i]) >= 2]


def branches(p):
    """Maximal chains: start at root or furcation, end at furcation or tip, interior pass-through."""
    ch = children(p)
    out = []
    for s in range(len(p)):
        if not (p[s] == -1 or len(ch[s]) >= 2):
            continue
        for c in ch[s]:
            br = [s, c]
            while len(ch[br[-1]]) == 1:
                br.append(ch[br[-1]][0])
            out.append(br)
    return out


def root_to_tip_paths(p):
    return [list(reversed(path_to_root(p, t))) for t in tips(p)]


def edges(p):
    return [(q, i) for i, q in enumerate(p) if q != -1]


def closure_removed(p, removal):
    """Nodes removed = removal set plus everything below."""
    rem = set()
    for r in removal:
        rem.update(descendants_or_self(p, r))
    return rem


def reroot(p, new_root):
    q = list(p)
    path = path_to_root(p, new_root)
    q[new_root] = -1
    for child, par in zip(path[:-1], path[1:]):
        q[par] = child
    return q


def ahu(p, labels=None, root=None):
    """Canonical form of a rooted tree with optional node labels (nested sorted tuples)."""
    ch = children(p)
    if root is None:
        rs = roots(p)
        assert len(rs) == 1
        root = rs[0]
    order, stack = [], [root]
    while stack:
        i = stack.pop()
        order.append(i)
        stack.extend(ch[i])
    form = {}
    for i in reversed(order):
        form[i] = (labels[i] if labels is not None else 0, tuple(sorted(form[c] for c in ch[i])))
    return form[root]


def dist(a, b):
    return math.sqrt(sum((x - y) ** 2 for x, y in zip(a, b)))


def tree_length(p, xyz):
    return sum(dist(xyz[i], xyz[q]) for q, i in edges(p))


def polyline_length(pts):
    return sum(dist(pts[i], pts[i + 1]) for i in range(len(pts) - 1))


def furcation_level(p, i):
    """Number of furcations on the path root..i, root excluded, node included."""
    ch = children(p)
    lvl = 0
    j = i
    while p[j] != -1:
        if len(ch[j]) >= 2:
            lvl += 1
        j = p[j]
    return lvl


def weak_components(ids, pids):
    """Partition of positions induced by (id, pid) edges; pids naming no node are ignored."""
    n = len(ids)
    pos = {}
    for k, i in enumerate(ids):
        pos.setdefault(i, k)
    comp = list(range(n))

    def find(a):
        while comp[a] != a:
            a = comp[a]
        return a

    for k in range(n):
        if pids[k] != -1 and pids[k] in pos:
            a, b = find(k), find(pos[pids[k]])
            if a != b:
                comp[a] = b
    return [find(k) for k in range(n)]


def has_cycle(p):
    n = len(p)
    for i in range(n):
        j, steps = i, 0
        while p[j] != -1:
            j = p[j]
            steps += 1
            if steps > n:
                return True
    return False
