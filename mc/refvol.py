"""Reference volumes for coaxial bodies of revolution (C14).  Pure Python, no numpy, no swcgeom.

Every solid the C14 statement talks about (one sphere per node, one frustum per parent-child
pair of a tree laid out on a straight line) is a body of revolution about that line, so the
union is the body of revolution whose profile is the pointwise maximum of the profiles and

    V = pi * integral of  max_i rho_i(z)^2  dz.

Each rho_i(z)^2 is a quadratic polynomial on an interval:
    sphere  (c, r):            r^2 - (z - c)^2                       on [c - r, c + r]
    frustum (z1, r1, z2, r2):  (r1 + (r2 - r1) (z - z1)/(z2 - z1))^2  on [min(z1,z2), max(z1,z2)]
so the integral is evaluated *exactly*: split at every interval end and at every crossing of two
quadratics, pick the largest piece on each sub-interval and integrate its antiderivative
(`union_volume`).  `union_volume_simpson` is an independent adaptive-Simpson quadrature of the
same profile used to cross-check the exact evaluation (both are compared in `checked_union`;
a disagreement is a harness bug and raises).

Also here: the statement's precondition as a predicate on the 1-D layout (`admissible`), and the
plain sums for accuracy levels 1 and 2.
"""

from __future__ import annotations

import math

PI = math.pi


# ------------------------------------------------------------------ profile pieces


def sphere_piece(c: float, r: float):
    """(lo, hi, a, b, k) with rho^2 = a z^2 + b z + k on [lo, hi]."""
    return (c - r, c + r, -1.0, 2.0 * c, r * r - c * c)


def frustum_piece(z1: float, r1: float, z2: float, r2: float):
    if z1 == z2:
        return None  # zero height: no volume
    m = (r2 - r1) / (z2 - z1)
    q = r1 - m * z1  # rho = m z + q
    return (min(z1, z2), max(z1, z2), m * m, 2.0 * m * q, q * q)


def pieces_of(zs, rs, edges):
    out = [sphere_piece(z, r) for z, r in zip(zs, rs) if r > 0]
    for i, j in edges:
        p = frustum_piece(zs[i], rs[i], zs[j], rs[j])
        if p is not None:
            out.append(p)
    return out


def _val(p, z):
    return (p[2] * z + p[3]) * z + p[4]


def _antider(p, z):
    return ((p[2] / 3.0 * z + p[3] / 2.0) * z + p[4]) * z


def _crossings(p, q):
    """Real roots of p - q inside the overlap of their domains."""
    lo, hi = max(p[0], q[0]), min(p[1], q[1])
    if lo >= hi:
        return []
    a, b, c = p[2] - q[2], p[3] - q[3], p[4] - q[4]
    roots = []
    if abs(a) < 1e-300:
        if abs(b) > 1e-300:
            roots.append(-c / b)
    else:
        disc = b * b - 4 * a * c
        if disc >= 0:
            s = math.sqrt(disc)
            # numerically stable pair
            t = -0.5 * (b + (s if b >= 0 else -s))
            if t != 0:
                roots.append(c / t)
            roots.append(t / a)
    return [z for z in roots if lo < z < hi]


def union_volume(pieces) -> float:
    """pi * integral of the upper envelope of the pieces (exact piecewise integration)."""
    if not pieces:
        return 0.0
    cuts = set()
    for p in pieces:
        cuts.add(p[0])
        cuts.add(p[1])
    for i in range(len(pieces)):
        for j in range(i + 1, len(pieces)):
            cuts.update(_crossings(pieces[i], pieces[j]))
    cuts = sorted(cuts)
    total = 0.0
    for lo, hi in zip(cuts, cuts[1:]):
        if hi - lo <= 0:
            continue
        mid = 0.5 * (lo + hi)
        best, bv = None, 0.0
        for p in pieces:
            if p[0] <= mid <= p[1]:
                v = _val(p, mid)
                if v > bv:
                    best, bv = p, v
        if best is not None:
            total += _antider(best, hi) - _antider(best, lo)
    return PI * total


def _envelope(pieces, z):
    m = 0.0
    for p in pieces:
        if p[0] <= z <= p[1]:
            v = _val(p, z)
            if v > m:
                m = v
    return m


def _simpson(f, a, fa, b, fb, m, fm, whole, tol, depth):
    lm, rm = 0.5 * (a + m), 0.5 * (m + b)
    flm, frm = f(lm), f(rm)
    left = (m - a) / 6.0 * (fa + 4 * flm + fm)
    right = (b - m) / 6.0 * (fm + 4 * frm + fb)
    # never accept before 5 forced bisections: the envelope has kinks, and a coarse Simpson pair
    # can agree by accident
    if depth <= 0 or (depth <= 35 and abs(left + right - whole) <= 15 * tol):
        return left + right + (left + right - whole) / 15.0
    return _simpson(f, a, fa, m, fm, lm, flm, left, tol / 2, depth - 1) + _simpson(
        f, m, fm, b, fb, rm, frm, right, tol / 2, depth - 1
    )


def union_volume_simpson(pieces, tol: float = 1e-10) -> float:
    """Independent check: adaptive Simpson of the envelope between the domain ends."""
    if not pieces:
        return 0.0
    cuts = sorted({p[0] for p in pieces} | {p[1] for p in pieces})
    f = lambda z: _envelope(pieces, z)  # noqa: E731
    total = 0.0
    for a, b in zip(cuts, cuts[1:]):
        if b <= a:
            continue
        # evaluate just inside the interval so that a piece ending exactly at a cut does not leak
        e = 1e-13 * max(1.0, abs(a), abs(b))
        a2, b2 = a + e, b - e
        m = 0.5 * (a2 + b2)
        fa, fb, fm = f(a2), f(b2), f(m)
        whole = (b2 - a2) / 6.0 * (fa + 4 * fm + fb)
        total += _simpson(f, a2, fa, b2, fb, m, fm, whole, tol, 40)
    return PI * total


def checked_union(zs, rs, edges) -> float:
    pcs = pieces_of(zs, rs, edges)
    v = union_volume(pcs)
    w = union_volume_simpson(pcs)
    if abs(v - w) > 1e-7 * max(1.0, abs(v)):
        raise AssertionError(f"harness bug: exact union {v!r} vs Simpson {w!r} for zs={zs} rs={rs} edges={edges}")
    return v


# ------------------------------------------------------------------ levels 1 and 2


def sphere_volume(r: float) -> float:
    return 4.0 / 3.0 * PI * r**3


def frustum_volume(r1: float, r2: float, h: float) -> float:
    return PI * h * (r1 * r1 + r1 * r2 + r2 * r2) / 3.0


def lens_volume(r1: float, r2: float, d: float) -> float:
    """Volume common to two balls at centre distance d (used for diagnostics / klass only)."""
    if d >= r1 + r2:
        return 0.0
    if d <= abs(r1 - r2):
        return sphere_volume(min(r1, r2))
    return PI * (r1 + r2 - d) ** 2 * (d * d + 2 * d * (r1 + r2) - 3 * (r1 - r2) ** 2) / (12 * d)


def level1(rs) -> float:
    return sum(sphere_volume(r) for r in rs)


def level2(xyz, rs, edges) -> float:
    return level1(rs) + sum(frustum_volume(rs[i], rs[j], math.dist(xyz[i], xyz[j])) for i, j in edges)


# ------------------------------------------------------------------ the statement's precondition


def admissible(zs, rs, edges) -> tuple[bool, str]:
    """'compartments are each at least as long as the radii at their two ends and non-adjacent
    parts do not touch', for solids on a common axis.

    Parts = one sphere per node, one frustum per edge.  Two parts are *adjacent* when they share a
    node (sphere i / frustum on i; two frusta on a common node; the spheres at the two ends of one
    edge).  Every part contains the axis points of its z-interval (radii > 0), so two coaxial parts
    touch iff their closed z-intervals meet.  Tangency counts as touching (literal reading).
    """
    for i, j in edges:
        d = abs(zs[i] - zs[j])
        if d < max(rs[i], rs[j]):
            return False, "compartment shorter than an end radius"
    parts = [("s", (i,), zs[i] - rs[i], zs[i] + rs[i]) for i in range(len(zs))]
    parts += [("f", (i, j), min(zs[i], zs[j]), max(zs[i], zs[j])) for i, j in edges]
    eset = {frozenset(e) for e in edges}
    for a in range(len(parts)):
        for b in range(a + 1, len(parts)):
            ka, na, la, ha = parts[a]
            kb, nb, lb, hb = parts[b]
            if ka == "s" and kb == "s":
                adjacent = frozenset((na[0], nb[0])) in eset
            else:
                adjacent = bool(set(na) & set(nb))
            if adjacent:
                continue
            if la <= hb and lb <= ha:
                return False, "non-adjacent parts touch"
    return True, ""
