"""Helpers shared by C01 / C02: SWC sources, short-read byte streams, reference tokenizer, decimal rounding.

Pure Python + io; the only swcgeom-facing piece is that `ShortBytes` subclasses `io.BytesIO` because
`FileReader` dispatches on that type.
"""

from __future__ import annotations

import decimal
import io
import os
import re
import struct
import warnings

# ------------------------------------------------------------------ sources


class ShortBytes(io.BytesIO):
    """BytesIO whose reads return at most k bytes (environment answer for chunked decoding)."""

    def __init__(self, b: bytes, k: int):
        super().__init__(b)
        self.k = k

    def _n(self, n):
        return self.k if n is None or n < 0 or n > self.k else n

    def read(self, n=-1):
        return super().read(self._n(n))

    def read1(self, n=-1):
        return super().read1(self._n(n))

    def readinto(self, b):
        d = super().read(min(len(b), self.k))
        b[: len(d)] = d
        return len(d)

    def readinto1(self, b):
        return self.readinto(b)


def make_source(kind: str, data, tmpdir: str | None, name: str = "f.swc"):
    """Build a fresh source object for one read.

    kind: 'text' (StringIO), 'bytes' (BytesIO), 'bytes:<k>' (short reads of k bytes), 'path',
    'textfile' (text-mode file handle).  data: str (encoded utf-8 where bytes are needed) or bytes.
    """
    if kind == "text":
        assert isinstance(data, str)
        return io.StringIO(data)
    raw = data.encode("utf-8") if isinstance(data, str) else data
    if kind == "bytes":
        return io.BytesIO(raw)
    if kind.startswith("bytes:"):
        return ShortBytes(raw, int(kind.split(":")[1]))
    assert tmpdir is not None
    path = os.path.join(tmpdir, name)
    with open(path, "wb") as f:
        f.write(raw)
    if kind == "path":
        return path
    if kind == "path-bytes":  # PathOrIO admits bytes paths
        return os.fsencode(path)
    if kind == "path-rel":  # the same file, spelled relative to the working directory
        return os.path.join(".", os.path.relpath(path))
    if kind == "fd":  # PathOrIO admits file descriptors (closed by the reader)
        return os.open(path, os.O_RDONLY)
    if kind == "textfile":
        return open(path, "r", encoding="utf-8")
    raise ValueError(kind)


class caught_warnings:
    """Record every warning raised inside the block (the runner silences them globally)."""

    def __enter__(self):
        self._cm = warnings.catch_warnings(record=True)
        self.log = self._cm.__enter__()
        warnings.simplefilter("always")
        return self

    def __exit__(self, *a):
        self._cm.__exit__(*a)
        return False

    def messages(self):
        return [str(w.message) for w in self.log]


# ------------------------------------------------------------------ float32 / decimal rounding


def f32(x: float) -> float:
    return struct.unpack("f", struct.pack("f", x))[0]


_ROUNDINGS = (decimal.ROUND_HALF_EVEN, decimal.ROUND_HALF_UP, decimal.ROUND_HALF_DOWN)
_Q = decimal.Decimal("0.0001")
_CTX = decimal.Context(prec=80)
_allowed_cache: dict = {}


def round4_candidates(x: float) -> tuple[float, ...]:
    """Every correct rounding of the exact binary value x to four decimals, as Python floats.

    One value unless x is an exact tie at the 5th decimal (then both neighbours are correct)."""
    got = _allowed_cache.get(x)
    if got is None:
        d = decimal.Decimal(x)  # exact
        cands = {d.quantize(_Q, rounding=r, context=_CTX) for r in _ROUNDINGS}
        got = tuple(sorted({float(c) for c in cands}))
        _allowed_cache[x] = got
    return got


def is_tie4(x: float) -> bool:
    return len(round4_candidates(x)) > 1


# ------------------------------------------------------------------ reference tokenizer for SWC lines

_INT = re.compile(r"[0-9]+\Z")
_PID = re.compile(r"-?[0-9]+\Z")
_FLT = re.compile(r"[+-]?(?:[0-9]+\.?[0-9]*|\.[0-9]+)(?:[eE][+-]?[0-9]+)?\Z")


def classify_line(line: str, n_extra: int = 0):
    """Reference classification of one line (without its terminator).

    Returns ('blank',) | ('comment', text_after_hash) | ('data', fields, n_trailing) | ('bad', why).
    fields = [id, type, x, y, z, r, pid, *extras] as Python int/float.  Written with str.split and
    per-token regexes; shares nothing with the library's single-regex parser.
    """
    s = line.strip(" \t\r\n\f\v")
    if s == "":
        return ("blank",)
    if s.startswith("#"):
        return ("comment", s[1:])
    toks = s.split()
    need = 7 + n_extra
    if len(toks) < need:
        return ("bad", f"{len(toks)} fields < {need}")
    out = []
    for k, tok in enumerate(toks[:need]):
        if k in (0, 1):
            if not _INT.match(tok):
                return ("bad", f"field {k} {tok!r} is not an unsigned integer")
            out.append(int(tok))
        elif k == 6:
            if not _PID.match(tok):
                return ("bad", f"field {k} {tok!r} is not an integer")
            out.append(int(tok))
        else:
            if not _FLT.match(tok):
                return ("bad", f"field {k} {tok!r} is not a number")
            out.append(float(tok))
    for tok in toks[need:]:
        if not _FLT.match(tok):
            return ("bad", f"trailing field {tok!r} is not a number")
    return ("data", out, len(toks) - need)


def split_lines(text: str) -> list[str]:
    """Lines of a text whose only terminators are LF and CRLF (what the C02 grammar generates)."""
    lines = text.split("\n")
    if lines and lines[-1] == "":
        lines.pop()
    return lines
