"""Explorer kernel: bounded-exhaustive walkers over finite spaces, executed on the real code.

A *Space* is a finite, completely enumerated set of cases (inputs, operation sequences,
fault placements, initial states of a BFS ...).  `check(case, R)` executes the real
implementation on the case and compares with the reference model; it reports through the
Recorder `R`.  `explore()` shards every space over forked workers (deterministic striding:
worker k takes the cases whose enumeration index is k mod W) and merges the counts.

Nothing here samples: every case `gen()` yields is executed.  VERIF_SEED only rotates
the worker/stripe assignment and selects which explored cases are written out as samples.
"""

from __future__ import annotations

import hashlib
import json
import multiprocessing as mp
import os
import signal
import sys
import time
import traceback
from collections import deque
from typing import Any, Callable, Iterable, Iterator


# --------------------------------------------------------------------------- digests


def _feed(h, o) -> None:
    import numpy as np

    if isinstance(o, (bytes, bytearray)):
        h.update(b"b")
        h.update(bytes(o))
    elif isinstance(o, np.ndarray):
        h.update(b"a" + str(o.dtype).encode() + str(o.shape).encode())
        h.update(np.ascontiguousarray(o).tobytes())
    elif isinstance(o, (list, tuple)):
        h.update(b"(" if isinstance(o, tuple) else b"[")
        for x in o:
            _feed(h, x)
        h.update(b")")
    elif isinstance(o, dict):
        h.update(b"{")
        for k in sorted(o, key=repr):
            _feed(h, k)
            _feed(h, o[k])
        h.update(b"}")
    elif isinstance(o, (set, frozenset)):
        h.update(b"<")
        for k in sorted(o, key=repr):
            _feed(h, k)
        h.update(b">")
    elif isinstance(o, np.generic):
        h.update(repr(o.item()).encode())
    else:
        h.update(repr(o).encode())
    h.update(b",")


def dg(*parts) -> int:
    """64-bit digest of a (nested) value; exact key for state sets (collision odds 2^-64)."""
    h = hashlib.blake2b(digest_size=8)
    for p in parts:
        _feed(h, p)
    return int.from_bytes(h.digest(), "big")


def jsonable(o):
    import numpy as np

    if isinstance(o, np.ndarray):
        return jsonable(o.tolist())
    if isinstance(o, np.generic):
        return jsonable(o.item())
    if isinstance(o, float):
        if o != o or o in (float("inf"), float("-inf")):
            return repr(o)
        return o
    if isinstance(o, (list, tuple)):
        return [jsonable(x) for x in o]
    if isinstance(o, dict):
        return {str(k): jsonable(v) for k, v in o.items()}
    if isinstance(o, (set, frozenset)):
        return sorted((jsonable(x) for x in o), key=repr)
    if isinstance(o, bytes):
        return {"__bytes__": o.decode("latin-1")}
    if isinstance(o, (str, int, bool)) or o is None:
        return o
    return repr(o)


def unjson(o):
    """Inverse of jsonable for the pieces checks rely on (bytes markers; lists stay lists)."""
    if isinstance(o, dict):
        if set(o) == {"__bytes__"}:
            return o["__bytes__"].encode("latin-1")
        return {k: unjson(v) for k, v in o.items()}
    if isinstance(o, list):
        return [unjson(x) for x in o]
    return o


# --------------------------------------------------------------------------- horizons


class CaseTimeout(BaseException):
    """Raised by the SIGALRM watchdog.  A BaseException so that `except Exception` inside the library cannot swallow it; the timer
    also repeats every second after it first fires, in case some `except BaseException` / `finally` path does."""


class HarnessError(BaseException):
    """The machinery itself cannot do its job (a tool is missing, the MODEL - not the code under test - is wrong, a generated
    input fails its own sanity check).  Never reported as a violation: the run aborts with exit status 2."""


class CallTimeout(BaseException):
    """One library call exceeded its own wall-clock horizon (see call_with_timeout)."""


def call_with_timeout(fn: Callable, seconds: float):
    """Run fn() under a per-call wall-clock horizon nested inside the per-case watchdog.  Raises CallTimeout when this call
    (not the whole case) ran out of time, so that a history exploration can record the hang and go on with the next event."""
    rem, _ = signal.getitimer(signal.ITIMER_REAL)
    if rem <= 0:  # no case watchdog armed (replay / unit use): plain call
        return fn()
    use = min(seconds, rem)
    t0 = time.time()
    signal.setitimer(signal.ITIMER_REAL, use, 1.0)
    try:
        return fn()
    except CaseTimeout:
        if use < rem and time.time() - t0 >= use * 0.9:
            raise CallTimeout() from None
        raise
    finally:
        left = rem - (time.time() - t0)
        signal.setitimer(signal.ITIMER_REAL, max(0.05, left), 1.0)


def over_budget() -> bool:
    """True once some worker has recorded a violation and the run is past its soft budget (never true on a clean tree)."""
    return bool(_VIOL_FLAG is not None and _VIOL_FLAG.value and _SOFT_BUDGET and time.time() - _T0 > _SOFT_BUDGET)


class HorizonExceeded(Exception):
    """Raised by the step horizon: the call executed more line events than allowed."""


def with_horizon(fn: Callable, max_events: int, *args, **kwargs):
    """Run fn under a deterministic step bound (python line events), independent of load."""
    count = 0

    def tracer(frame, event, arg):
        nonlocal count
        count += 1
        if count > max_events:
            raise HorizonExceeded(f"more than {max_events} line events")
        return tracer

    old = sys.gettrace()
    sys.settrace(tracer)
    try:
        return fn(*args, **kwargs)
    finally:
        sys.settrace(old)


class recursion_limit:
    """Lower the recursion limit to (current depth + extra) inside the block."""

    def __init__(self, extra: int):
        self.extra = extra

    def __enter__(self):
        self.old = sys.getrecursionlimit()
        depth = 0
        f = sys._getframe()
        while f is not None:
            depth += 1
            f = f.f_back
        sys.setrecursionlimit(depth + self.extra)

    def __exit__(self, *a):
        sys.setrecursionlimit(self.old)
        return False


# --------------------------------------------------------------------------- recorder


class Recorder:
    """Per-worker, per-space accumulator.  All counts are measured, none is a constant."""

    MAX_DETAIL = 1500

    def __init__(self, space_name: str, seed: int, n_samples: int = 3):
        self.space = space_name
        self.seed = seed
        self.n_samples = n_samples
        self.evaluations = 0
        self.transitions = 0
        self.validated = 0
        self.states: set[int] = set()
        self.outcomes: set[int] = set()
        self.nontrivial: set[int] = set()
        self.skipped: dict[str, int] = {}
        self.notes: dict[str, int] = {}
        self.viol: dict[str, dict] = {}  # klass -> {count, idx, example}
        self.n_viol = 0
        self.samples: list[tuple[int, Any]] = []  # (rank, case)
        self.max_depth = 0
        self._retained: list[dict] = []  # results of earlier cases whose content must stay put
        # current case
        self._case = None
        self._idx = -1
        self._failed = False
        self._trivial = False

    # ---- bookkeeping used by checks
    def state(self, *key) -> bool:
        d = dg(*key)
        if d in self.states:
            return False
        self.states.add(d)
        return True

    def trans(self, n: int = 1) -> None:
        self.transitions += n

    def outcome(self, *key) -> None:
        self.outcomes.add(dg(*key))

    def mark_nontrivial(self) -> None:
        self.nontrivial.add(dg(self.space, self._case))

    def trivial(self) -> None:
        """The current case is trivial by the property's rule (not counted in distinct_nontrivial)."""
        self._trivial = True

    def skip(self, reason: str, n: int = 1) -> None:
        self.skipped[reason] = self.skipped.get(reason, 0) + n

    def note(self, key: str, n: int = 1) -> None:
        self.notes[key] = self.notes.get(key, 0) + n

    def depth(self, d: int) -> None:
        if d > self.max_depth:
            self.max_depth = d

    CALL_TIMEOUT = 300.0  # wall-clock horizon of one library call made through impl/attempt (typical calls take milliseconds)
    stopped_early = False  # set by a walker that gave up because the run is over its soft budget after a violation

    RETAIN_CASES = 2  # a retained result is re-inspected at the end of its own case and of the next 2 cases
    RETAIN_PER_CASE = 12

    def retain(self, label: str, fn: Callable[[], Any]) -> None:
        """History oracle: the observable content `fn()` of a result returned by the implementation must not
        change because of LATER library calls (on this or other objects).  Re-inspected at the end of the
        current case and of the following cases executed by this worker.  Catches pooled / cached / aliased
        storage that a check reading each result immediately can never see."""
        if sum(1 for e in self._retained if e["age"] == 0) >= self.RETAIN_PER_CASE:
            return
        self._retained.append({"label": label, "fn": fn, "dg": dg(fn()), "case": self._case, "age": 0})

    auto_retain = False  # opt-in per space (Space.auto_retain): results of R.impl are retained automatically

    def _auto_retain(self, what: str, val) -> None:
        """Retain tree / table results (only for modules that never edit a result they obtained through R.impl)."""
        try:
            from swcgeom.core.swc import DictSWC
        except Exception:  # noqa: BLE001
            return
        if isinstance(val, DictSWC):
            self.retain(what, lambda v=val: ({k: v.get_ndata(k) for k in v.keys()}, tuple(v.comments)))
        elif type(val).__name__ == "DataFrame":
            self.retain(what, lambda v=val: {str(c): v[c].to_numpy() for c in v.columns})

    def _recheck_retained(self) -> None:
        keep = []
        for e in self._retained:
            try:
                now = dg(e["fn"]())
            except Exception as exc:  # noqa: BLE001
                now = ("raised", type(exc).__name__)
            if now != e["dg"]:
                prior = [] if e["age"] == 0 else [jsonable(e["case"])]
                self.fail(
                    "retained-result-changed",
                    f"a result returned {e['age']} case(s) earlier (case {jsonable(e['case'])!r:.300}) changed its content after later "
                    f"library calls: {e['label']}",
                    f"retained-result-changed:{e['label']}",
                    prior_cases=prior,
                )
                continue
            e["age"] += 1
            if e["age"] <= self.RETAIN_CASES:
                keep.append(e)
        self._retained = keep

    def fail(self, kind: str, detail: str = "", klass: str | None = None, **extra) -> None:
        """Record a property violation for the current case.

        klass identifies the *specific* failing input class / call site for known-finding
        matching; default = kind.  Only the lowest-index example per klass is kept.
        """
        self._failed = True
        self.n_viol += 1
        if _VIOL_FLAG is not None and not _VIOL_FLAG.value:
            _VIOL_FLAG.value = 1
        klass = klass or kind
        ent = self.viol.get(klass)
        if ent is None:
            self.viol[klass] = {
                "count": 1,
                "idx": self._idx,
                "example": {
                    "space": self.space,
                    "case": jsonable(self._case),
                    "kind": kind,
                    "klass": klass,
                    "detail": str(detail)[: self.MAX_DETAIL],
                    **{k: jsonable(v) for k, v in extra.items()},
                },
            }
        else:
            ent["count"] += 1

    def check(self, cond: bool, kind: str, detail: str | Callable[[], str] = "", klass=None, **extra) -> bool:
        if not cond:
            self.fail(kind, detail() if callable(detail) else detail, klass, **extra)
        return bool(cond)

    def impl(self, what: str, fn: Callable, *args, klass=None, **kwargs):
        """Call into the implementation; an exception is a violation (kind = 'raises:<what>').

        Returns (ok, value).  Counts one transition.
        """
        self.transitions += 1
        try:
            val = call_with_timeout(lambda: fn(*args, **kwargs), self.CALL_TIMEOUT)
            if self.auto_retain:
                self._auto_retain(what, val)
            return True, val
        except CallTimeout as e:
            self.fail(f"hang:{what}", f"the call did not return within {self.CALL_TIMEOUT}s wall clock", klass or f"hang:{what}")
            return False, e
        except (CaseTimeout, KeyboardInterrupt):
            raise
        except BaseException as e:  # noqa: BLE001 - the implementation may raise anything
            tb = traceback.extract_tb(e.__traceback__)
            where = ""
            for fr in reversed(tb):
                if "/swcgeom/" in fr.filename:
                    where = f"{os.path.basename(fr.filename)}:{fr.name}"
                    break
            self.fail(
                f"raises:{what}",
                f"{type(e).__name__}: {e} @ {where}",
                klass or f"raises:{what}:{type(e).__name__}@{where}",
            )
            return False, e

    def attempt(self, fn: Callable, *args, **kwargs):
        """Call into the implementation where an exception is an *allowed* answer."""
        self.transitions += 1
        try:
            return True, call_with_timeout(lambda: fn(*args, **kwargs), self.CALL_TIMEOUT)
        except CallTimeout as e:
            self.fail("hang:attempt", f"the call did not return within {self.CALL_TIMEOUT}s wall clock", "hang:attempt")
            return False, e
        except (CaseTimeout, KeyboardInterrupt):
            raise
        except BaseException as e:  # noqa: BLE001
            return False, e

    # ---- internal
    def _begin(self, idx: int, case) -> None:
        self._case = case
        self._idx = idx
        self._failed = False
        self._trivial = False
        self.evaluations += 1

    def _end(self) -> None:
        self.validated += 1
        rank = dg("sample", self.seed, self.space, self._idx)
        if len(self.samples) < self.n_samples:
            self.samples.append((rank, self._case))
            self.samples.sort(key=lambda t: t[0])
        elif rank < self.samples[-1][0]:
            self.samples[-1] = (rank, self._case)
            self.samples.sort(key=lambda t: t[0])

    def result(self) -> dict:
        return {
            "space": self.space,
            "evaluations": self.evaluations,
            "transitions": self.transitions,
            "validated": self.validated,
            "states": self.states,
            "outcomes": self.outcomes,
            "nontrivial": self.nontrivial,
            "skipped": self.skipped,
            "notes": self.notes,
            "viol": self.viol,
            "n_viol": self.n_viol,
            "samples": [(r, jsonable(c)) for r, c in self.samples],
            "max_depth": self.max_depth,
        }


# --------------------------------------------------------------------------- space


class Space:
    """A finite space explored completely.  Subclass or build with `Space.of`."""

    name = "space"
    bounds: dict = {}
    exhaustive = True  # set False if gen() is a capped prefix of a larger declared space
    case_timeout = 120.0  # wall-clock watchdog per case (seconds); typical cases take ms
    nontrivial_default = True  # every case counts as non-trivial unless check says otherwise
    auto_retain = False  # re-inspect every tree/table returned through R.impl after later calls (see Recorder.retain)

    def gen(self) -> Iterator[Any]:
        raise NotImplementedError

    def check(self, case, R: Recorder) -> None:
        raise NotImplementedError

    @staticmethod
    def of(name, gen, check, bounds=None, exhaustive=True, case_timeout=120.0, nontrivial_default=True, auto_retain=False):
        s = Space()
        s.auto_retain = auto_retain
        s.name = name
        s.gen = gen  # type: ignore
        s.check = check  # type: ignore
        s.bounds = bounds or {}
        s.exhaustive = exhaustive
        s.case_timeout = case_timeout
        s.nontrivial_default = nontrivial_default
        return s


def _alarm(signum, frame):
    raise CaseTimeout()


def run_case(space: Space, idx: int, case, R: Recorder) -> None:
    R._begin(idx, case)
    R.auto_retain = bool(getattr(space, "auto_retain", False))
    signal.setitimer(signal.ITIMER_REAL, space.case_timeout, 1.0)
    try:
        space.check(case, R)
    except HarnessError:
        raise
    except CaseTimeout:
        R.fail("timeout", f"case exceeded {space.case_timeout}s wall clock", "timeout")
    except RecursionError as e:
        R.fail("exception:RecursionError", "".join(traceback.format_exception_only(e)), "exception:RecursionError")
    except Exception as e:  # noqa: BLE001 - a crash inside the oracle wiring on this input
        tb = traceback.format_exc(limit=-6)
        R.fail("exception:" + type(e).__name__, tb, "exception:" + type(e).__name__)
    finally:
        signal.setitimer(signal.ITIMER_REAL, 0)
    R._recheck_retained()
    if space.nontrivial_default and not R._trivial:
        R.mark_nontrivial()
    R._end()


_SPACES: list[Space] = []
_SEED = 0
_VIOL_FLAG = None  # shared: some worker has recorded a violation
_T0 = 0.0
_SOFT_BUDGET = 0.0  # seconds; only ever cuts a run short AFTER a violation has been recorded (never on a clean tree)


_PROGRESS = None  # shared array: enumeration index of the case each running task is executing (crash attribution)
_MEM_LIMIT = 0


def _work(task):
    si, k, W, start, slot = task
    space = _SPACES[si]
    R = Recorder(space.name, _SEED)
    signal.signal(signal.SIGALRM, _alarm)
    rot = _SEED % W
    stopped = False
    try:
        for idx, case in enumerate(space.gen()):
            if (idx + rot) % W != k or idx < start:
                continue
            if over_budget():
                stopped = True  # a violation is already on record and the run is over budget: report what was covered
                break
            if _PROGRESS is not None:
                _PROGRESS[slot] = idx
            run_case(space, idx, case, R)
            if R.n_viol and _VIOL_FLAG is not None and not _VIOL_FLAG.value:
                _VIOL_FLAG.value = 1
    except (Exception, HarnessError):  # enumeration itself failed / the machinery reports that it cannot work: harness error
        return {"space": space.name, "harness_error": traceback.format_exc()}
    res = R.result()
    res["stopped_early"] = stopped or R.stopped_early
    return res


def _proc_main(conn, task):
    """Body of one forked worker process: one task (a stripe of one space), result sent through the pipe."""
    if _MEM_LIMIT:
        try:
            import resource

            resource.setrlimit(resource.RLIMIT_AS, (_MEM_LIMIT, _MEM_LIMIT))  # a runaway allocation becomes MemoryError, not an OOM kill
        except Exception:  # noqa: BLE001
            pass
    try:
        res = _work(task)
    except BaseException:  # noqa: BLE001
        res = {"space": _SPACES[task[0]].name, "harness_error": traceback.format_exc()}
    try:
        conn.send(res)
    finally:
        conn.close()


def _crash_result(space: Space, idx: int, exitcode) -> dict:
    """Pseudo-result for a worker that died (signal / hard exit) while executing case `idx`: a violation that names the case."""
    case = None
    for i, c in enumerate(space.gen()):
        if i == idx:
            case = c
            break
    why = f"signal {-exitcode}" if isinstance(exitcode, int) and exitcode < 0 else f"exit status {exitcode}"
    klass = f"worker-died:{space.name}"
    R = Recorder(space.name, _SEED)
    R._begin(idx, case)
    R.fail("worker-died", f"the worker process executing this case died ({why}) - crash, hard exit or kill inside the library call", klass)
    res = R.result()
    res["evaluations"] = 0
    res["stopped_early"] = False
    res["lost_stripe_prefix"] = True
    return res


def explore(spaces: list[Space], seed: int, workers: int | None = None, log=print) -> dict:
    """Run every space to completion; returns merged per-space and total results."""
    global _SPACES, _SEED, _VIOL_FLAG, _T0, _SOFT_BUDGET, _PROGRESS, _MEM_LIMIT
    _SPACES = spaces
    _SEED = seed
    _VIOL_FLAG = mp.get_context("fork").Value("i", 0)
    _T0 = time.time()
    tier = os.environ.get("VERIF_TIER", "quick")
    _SOFT_BUDGET = float(os.environ.get("VERIF_SOFT_BUDGET_S", "") or (300 if tier == "quick" else 2400))
    W = workers or min(16, os.cpu_count() or 1)
    tasks = [(si, k, W, 0, slot) for slot, (si, k) in enumerate((si, k) for si in range(len(spaces)) for k in range(W))]
    # rotate task order by seed (does not change what is explored)
    if tasks:
        r = seed % len(tasks)
        tasks = tasks[r:] + tasks[:r]
    merged: dict[str, dict] = {}
    t0 = time.time()
    crashed_spaces: set[str] = set()

    def merge(res):
        name = res["space"]
        if "harness_error" in res:
            raise RuntimeError(f"harness error while enumerating {name}:\n{res['harness_error']}")
        if res.get("lost_stripe_prefix"):
            crashed_spaces.add(name)
        m = merged.get(name)
        if m is None:
            merged[name] = res
            return
        m["stopped_early"] = bool(m.get("stopped_early")) or bool(res.get("stopped_early"))
        for key in ("evaluations", "transitions", "validated", "n_viol"):
            m[key] += res[key]
        for key in ("states", "outcomes", "nontrivial"):
            m[key] |= res[key]
        for key in ("skipped", "notes"):
            for kk, vv in res[key].items():
                m[key][kk] = m[key].get(kk, 0) + vv
        for kl, ent in res["viol"].items():
            cur = m["viol"].get(kl)
            if cur is None:
                m["viol"][kl] = ent
            else:
                cur["count"] += ent["count"]
                if ent["idx"] < cur["idx"]:
                    cur["idx"], cur["example"] = ent["idx"], ent["example"]
        m["samples"] = sorted(m["samples"] + res["samples"], key=lambda t: t[0])[:3]
        m["max_depth"] = max(m["max_depth"], res["max_depth"])

    if W == 1:
        _PROGRESS = None
        for t in tasks:
            merge(_work(t))
    else:
        from multiprocessing import connection as mpc

        ctx = mp.get_context("fork")
        _PROGRESS = ctx.Array("q", max(1, len(tasks)), lock=False)
        _MEM_LIMIT = int(float(os.environ.get("VERIF_MEM_GB", "") or 6) * (1 << 30))
        MAX_CRASHES = 3  # per stripe; after that the rest of the stripe is abandoned (reported as not exhaustive)
        crashes: dict[int, int] = {}
        pending = deque(tasks)
        running: dict[Any, tuple] = {}  # parent end of the pipe -> (process, task)
        try:
            while pending or running:
                while pending and len(running) < W:
                    t = pending.popleft()
                    _PROGRESS[t[4]] = -1
                    pc, cc = ctx.Pipe(duplex=False)
                    p = ctx.Process(target=_proc_main, args=(cc, t))
                    p.start()
                    cc.close()
                    running[pc] = (p, t)
                ready = mpc.wait(list(running.keys()), timeout=5.0)
                for pc in ready:
                    p, t = running.pop(pc)
                    try:
                        res = pc.recv()
                    except (EOFError, OSError):
                        res = None
                    pc.close()
                    p.join()
                    if res is not None:
                        merge(res)
                        continue
                    # the process ended without delivering a result: it died inside a case
                    idx = int(_PROGRESS[t[4]])
                    space = spaces[t[0]]
                    if idx < 0:
                        raise RuntimeError(f"worker for space {space.name} died before its first case (exit {p.exitcode})")
                    merge(_crash_result(space, idx, p.exitcode))
                    _VIOL_FLAG.value = 1
                    crashes[t[4]] = crashes.get(t[4], 0) + 1
                    if crashes[t[4]] < MAX_CRASHES:
                        pending.append((t[0], t[1], t[2], idx + 1, t[4]))  # resume the stripe after the fatal case
        finally:
            for pc, (p, t) in running.items():
                try:
                    p.kill()
                    p.join()
                except Exception:  # noqa: BLE001
                    pass
    for name in crashed_spaces:
        if name in merged:
            merged[name]["stopped_early"] = True  # counts of the stripe before the crash are lost: not an exhaustive report
    for s in spaces:
        m = merged.get(s.name)
        if m is not None:
            m["bounds"] = s.bounds
            m["exhaustive"] = bool(s.exhaustive) and not m.get("stopped_early")
            m["n_states"] = len(m["states"])
            m["n_outcomes"] = len(m["outcomes"])
            m["n_nontrivial"] = len(m["nontrivial"])
    return {"spaces": merged, "wall_s": time.time() - t0, "workers": W}


# --------------------------------------------------------------------------- BFS walker


def bfs(
    R: Recorder,
    initial: Iterable[Any],
    enabled: Callable[[Any], Iterable[Any]],
    step: Callable[[Any, Any], Any],
    canon: Callable[[Any], Any],
    invariant: Callable[[Any, Any, Any, int], None] | None = None,
    max_depth: int = 3,
    expandable: Callable[[Any], bool] | None = None,
) -> dict:
    """Explicit-state breadth-first search.

    `step(state, event)` executes the REAL operation and returns the successor state (or None
    when the event turned out not to be applicable).  `canon(state)` must be an exact key.
    `invariant(prev, event, nxt, depth)` reports via R.  Returns statistics incl. whether the
    frontier emptied (`fixpoint`) before `max_depth`.
    """
    seen: set[int] = set()
    frontier: deque = deque()
    for s in initial:
        k = dg(canon(s))
        if k not in seen:
            seen.add(k)
            R.states.add(k)
            frontier.append((s, 0))
    n_trans = 0
    capped = 0
    deepest = 0
    while frontier:
        if over_budget():
            R.stopped_early = True  # a violation is on record and the run is over budget: report what was covered
            capped += 1
            break
        s, d = frontier.popleft()
        if d >= max_depth:
            capped += 1
            continue
        if expandable is not None and not expandable(s):
            capped += 1
            continue
        for ev in enabled(s):
            if R._failed and over_budget():
                R.stopped_early = True
                break
            nxt = step(s, ev)
            if nxt is None:
                continue
            n_trans += 1
            R.transitions += 1
            if invariant is not None:
                invariant(s, ev, nxt, d + 1)
            k = dg(canon(nxt))
            if k not in seen:
                seen.add(k)
                R.states.add(k)
                frontier.append((nxt, d + 1))
                deepest = max(deepest, d + 1)
    R.depth(deepest)
    return {"states": len(seen), "transitions": n_trans, "fixpoint": capped == 0, "deepest": deepest}


# --------------------------------------------------------------------------- deviations


def placements(n_positions: int, n_faults: int, k: int) -> Iterator[tuple[tuple[int, int], ...]]:
    """All placements of exactly k faults: strictly increasing positions x fault ids."""
    import itertools

    for pos in itertools.combinations(range(n_positions), k):
        for fs in itertools.product(range(n_faults), repeat=k):
            yield tuple(zip(pos, fs))
