"""Sanity checks of the enumerators and the reference model (run by setup)."""
from mc import spaces as S, ref


def main():
    assert [S.count(S.parent_tables(n)) for n in range(1, 5)] == [2, 9, 64, 625]
    assert [S.count(S.labelled_trees(n)) for n in range(1, 7)] == [1, 1, 3, 16, 125, 1296]
    assert [S.count(S.sorted_trees(n)) for n in range(1, 7)] == [1, 1, 2, 6, 24, 120]
    assert S.count(S.compositions(4, 3)) == 15
    p = [-1, 0, 1, 1, 0]
    assert sorted(map(tuple, ref.branches(p))) == [(0, 1), (0, 4), (1, 2), (1, 3)]
    assert ref.branches([-1, 0, 1]) == [[0, 1, 2]]
    assert ref.tips(p) == [2, 3, 4] and ref.furcations(p) == [0, 1]
    assert ref.reroot(p, 2) == [1, 2, -1, 1, 0]
    assert ref.has_cycle([1, 0]) and not ref.has_cycle(p)
    assert ref.is_wellformed([0, 1, 2], [-1, 0, 0])[0] and not ref.is_wellformed([0, 1, 2], [-1, 2, 1])[0]


if __name__ == "__main__":
    main()
    print("ok")
