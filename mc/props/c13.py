"""C13 — closed-form volumes of the primitives equal the true geometric volume."""

from __future__ import annotations

import itertools
import math

import numpy as np

from mc import refgeom as G
from mc.kernel import Space, dg

PROPERTY = "C13"
RULE = (
    "complete lattices of radii / heights / centre distances (incl. tangent, nested, equal-radius, cylinder, zero-height-cap, "
    "far-rim-on-sphere and near-cylinder configurations) x orientations x centre offsets; per sphere-frustum case both ends x "
    "{sphere.intersect(frustum), sphere.union(frustum), frustum.union(sphere)} x every answer of the RNG menu for "
    "find_unit_vector_on_plane; reference = adaptive Gauss-Legendre quadrature of pi*rho(z)^2 with rho = min/max of the "
    "cross-section radii (plain Python, no closed form of the composite solids); composite objects are retained and asked "
    "again after later calls; query histories: every ordered pair (triple) of 12 prepared objects queried in order and again; "
    "one sphere shared by several composites; non-trivial = every case; distinct = "
    "distinct (solid, parameters, orientation, offset)"
)
ASSUMPTIONS = [
    "a solid is the one described when it was constructed: the caller may re-use the array it passed a position in (value semantics of the constructors' position arguments, as on the pinned tree where they are copied)",
    "reference quadrature is accurate to 1e-12 relative (self-checked against exact rational multiples of pi for sphere, cap, "
    "frustum and lens on every case that has one)",
    "a closed-form value may differ from the true volume by rel 1e-9 + 1e-12*r_max^3: float64 evaluation of a few dozen "
    "operations on coordinates of magnitude <= 2e3 with heights >= 0.05 carries <= 1e-12; an almost-parallel rand answer loses "
    "5 digits in the cross product (1e-11); the library's eps=1e-6 switches between branches that agree to O(eps^2) on this "
    "lattice; the absolute term covers lenses of depth 1e-6 of the gap (measured worst case on the lattice: 1e-11); direct "
    "calls of the static formulas are held to rel 1e-12",
    "numpy.random.rand is the only source of randomness of the closed forms; it is replaced by an answer menu of vectors in "
    "[0,1)^3 (what rand can return), the first alternative parallel to the axis where an answer of rand can be (drives the retry loop)",
    "VolMCObject.n_samples is lowered to 2000 during a case so that an (unexpected) Monte-Carlo fallback ends quickly; its value would fail the comparison",
]

REL = 1e-9
ABS = 1e-12

# ------------------------------------------------------------------ lattices

S2, S3 = math.sqrt(2), math.sqrt(3)
ORIENT14 = [
    (1.0, 0.0, 0.0), (-1.0, 0.0, 0.0), (0.0, 1.0, 0.0), (0.0, -1.0, 0.0), (0.0, 0.0, 1.0), (0.0, 0.0, -1.0),
    (1 / S2, 1 / S2, 0.0), (1 / S2, 0.0, -1 / S2), (0.0, 1 / S2, 1 / S2),
    (1 / S3, 1 / S3, 1 / S3), (-1 / S3, 1 / S3, 1 / S3), (1 / S3, -1 / S3, -1 / S3),
    (0.36, -0.48, 0.8), G.unit((0.2, 0.3, -0.933)),
]
ORIENT_T = ORIENT14 + [
    (-1 / S2, -1 / S2, 0.0), (0.0, -1 / S2, -1 / S2), (-1 / S3, -1 / S3, -1 / S3), (0.6, 0.8, 0.0), (0.0, 0.28, 0.96),
    G.unit((1e-4, 1.0, 0.0)), G.unit((-0.7, 0.1, 0.3)), (2 / 3, 2 / 3, 1 / 3),
]
OFFSETS = [(0.0, 0.0, 0.0), (5.0, -3.0, 2.0), (1234.5, -987.25, 456.75),
           # far from the origin (used with SHORT frusta: a compartment of a finely sampled neurite somewhere in a large volume)
           (8192.0, -4096.0, 2048.0), (65536.0, 32768.0, -16384.0)]
FAR_SCALES = (1 / 32, 1 / 256)

RAD_Q = (0.25, 0.5, 0.8, 1.0, 1.25, 2.0, 3.5)
HGT_Q = (0.1, 0.3, 0.5, 0.8, 1.0, 1.5, 2.0, 3.0, 5.0, 8.0)
RAD_T = (0.1, 0.25, 0.5, 0.75, 0.8, 1.0, 1.25, 1.5, 2.0, 3.5, 6.0)
HGT_T = (0.05, 0.1, 0.3, 0.5, 0.6, 0.8, 1.0, 1.25, 1.5, 2.0, 3.0, 4.0, 5.0, 8.0, 20.0)
# (r1, r2, h) with the far rim exactly on the sphere (h^2 + r2^2 = r1^2), both taper directions via "both ends"
SPECIAL = [(1.0, 0.6, 0.8), (1.25, 0.75, 1.0), (5.0, 3.0, 4.0), (0.5, 0.3, 0.4), (6.5, 2.5, 6.0)]
# just either side of it (the generatrix leaves the sphere 0.1-0.2 % below / above the far rim)
NEAR_RIM = [(1.0, 0.6, 0.801), (1.0, 0.6, 0.799), (1.25, 0.75, 1.001), (1.25, 0.75, 0.999), (5.0, 3.0, 4.0005), (5.0, 3.0, 3.9995)]
# narrowing cones that leave the sphere below their top and are lower than the sphere (rare on the product grid)
NARROW_SHORT = [(1.0, 0.9, 0.5), (1.0, 0.9, 0.8), (2.0, 1.8, 1.0), (2.0, 1.9, 0.7), (3.5, 3.2, 1.6), (0.5, 0.45, 0.3), (1.25, 1.2, 0.4), (2.0, 1.5, 1.5)]
# near-cylinders: taper just beyond / around the library's eps, long and short (drives the "no intersection found" fallback)
NEARCYL = [(r, r - d, h) for r in (0.5, 1.0, 2.0) for d in (5e-7, 2e-6, 1e-5, 1e-3) for h in (0.4, 5.0, 50.0, 200.0)]
CAP_FRACS = (0.0, 0.1, 0.5, 1.0, 1.7, 2.0)
SCALES_T = (1.0, 100.0, 0.01)


def _triples(tier):
    rad, hgt = (RAD_Q, HGT_Q) if tier == "quick" else (RAD_T, HGT_T)
    out = [(a, b, h) for a in rad for b in rad for h in hgt]
    for t in SPECIAL + NEAR_RIM + NARROW_SHORT + NEARCYL:
        if t not in out:
            out.append(t)
    return out


def _distances(r1, r2):
    lo, hi = abs(r1 - r2), r1 + r2
    ds = [0.0, lo / 2, lo, (lo + hi) / 2, max(r1, r2), hi, hi + 1.0, lo + (hi - lo) * 1e-6, hi - (hi - lo) * 1e-6]
    out = []
    for d in ds:
        if d not in out:
            out.append(d)
    return sorted(out)


# ------------------------------------------------------------------ owned nondeterminism: np.random.rand

FIXED = [(0.9, 0.1, 0.2), (0.1, 0.9, 0.3), (0.2, 0.1, 0.9), (0.6, 0.8, 0.0), (0.5, 0.5, 0.5), (0.0, 0.0, 0.7)]


def _orthant(u):
    if all(v >= 0 for v in u):
        return u
    if all(v <= 0 for v in u):
        return tuple(-v for v in u)
    return None


def menu(u, tier):
    """Answer sequences for successive np.random.rand(3) calls; entry 0 = None = the real generator (seeded)."""
    w = _orthant(u)
    par = tuple(0.9 * abs(v) for v in u)  # parallel to the axis whenever rand can be
    out = [None, [par] + FIXED[:4]] + [[FIXED[i]] + FIXED[:i] + FIXED[i + 1:4] for i in range(4)]
    if tier != "quick":
        out.append([FIXED[4]] + FIXED[:4])
        out.append([FIXED[5]] + FIXED[:4])
        if w is not None:  # almost parallel (not np.allclose): the cross product is tiny but usable
            zero = [k for k in range(3) if w[k] == 0]
            e = tuple(1.0 if k == zero[0] else 0.0 for k in range(3)) if zero else (1 / S2, -1 / S2, 0.0)
            out.append([tuple(0.9 * (w[k] + 3e-5 * e[k]) for k in range(3))] + FIXED[:4])
            out.append([par, par, tuple(0.5 * v for v in par)] + FIXED[:4])  # three parallel answers in a row
    return out


class _Rng:
    """Replace numpy.random.rand by an answer sequence for the duration of a block."""

    def __init__(self, answers, seed):
        self.answers, self.seed, self.calls = answers, seed, 0

    def __enter__(self):
        self.old = np.random.rand
        self.state = np.random.get_state()
        if self.answers is None:
            np.random.seed(self.seed & 0xFFFFFFFF)
            real = self.old

            def fake(*shape):
                self.calls += 1
                return real(*shape)
        else:
            flat = itertools.cycle([v for a in self.answers for v in a])

            def fake(*shape):
                self.calls += 1
                n = int(np.prod(shape)) if shape else 1
                arr = np.array([next(flat) for _ in range(n)], dtype=np.float64)
                return arr.reshape(shape) if shape else float(arr[0])

        np.random.rand = fake
        return self

    def __exit__(self, *a):
        np.random.rand = self.old
        np.random.set_state(self.state)
        return False


class _Spy:
    """Diagnostic only: which way the library's case analysis went (never part of a decision)."""

    def __init__(self):
        self.log = []

    def __enter__(self):
        try:
            import swcgeom.utils.volumetric_object as vo

            self.vo, self.orig = vo, vo.find_sphere_line_intersection
        except Exception:  # noqa: BLE001 - refactored away: no diagnostics
            self.vo = None
            return self
        orig = self.orig

        def spy(*a, **k):
            res = orig(*a, **k)
            self.log.append(len(res))
            return res

        vo.find_sphere_line_intersection = spy
        return self

    def __exit__(self, *a):
        if self.vo is not None:
            self.vo.find_sphere_line_intersection = self.orig
        return False


class _FastMC:
    def __enter__(self):
        from swcgeom.utils.volumetric_object import VolMCObject

        self.cls, self.old = VolMCObject, VolMCObject.__dict__.get("n_samples", None)
        VolMCObject.n_samples = 2000
        return self

    def __exit__(self, *a):
        self.cls.n_samples = self.old
        return False


# ------------------------------------------------------------------ comparison


def _num(v):
    return isinstance(v, (int, float, np.floating, np.integer)) and not isinstance(v, bool) and math.isfinite(float(v))


def _cmp(R, got, want, scale, kind, detail, klass, rel=REL):
    if not R.check(_num(got), kind, lambda: f"{detail()}: returned {got!r}, true volume {want!r}", klass + ":not-a-number"):
        return
    got = float(got)
    R.check(abs(got - want) <= rel * abs(want) + ABS * scale, kind,
            lambda: f"{detail()}: returned {got!r}, true volume {want!r} (rel err {abs(got - want) / max(abs(want), 1e-300):.3g})", klass)


def _within(got, want, scale, rel=REL):
    return bool(_num(got) and abs(float(got) - want) <= rel * abs(want) + ABS * scale)


def _retain(R, label, obj, want, scale):
    """The object keeps answering with the true volume after later library calls (this case and the next two)."""
    if hasattr(R, "retain"):
        R.retain(label, lambda o=obj, w=want, sc=scale: _within(o.get_volume(), w, sc))


def _selfcheck(quad, exact, what, scale):
    if abs(quad - exact) > 1e-11 * abs(exact) + 1e-13 * scale:
        raise RuntimeError(f"oracle self-check failed for {what}: quadrature {quad!r} vs exact {exact!r}")


def _pt(c, u, h):
    return np.array([c[0] + h * u[0], c[1] + h * u[1], c[2] + h * u[2]], dtype=np.float64)


# ------------------------------------------------------------------ checks


def check_sphere(case, R):
    from swcgeom.utils import VolSphere

    _, r, ci = case
    c = OFFSETS[ci]
    R.state("sphere", r, ci)
    want = G.vol_sphere(r)
    _selfcheck(want, G.exact_sphere(r), f"sphere r={r}", r**3)
    ok, v = R.impl("VolSphere.get_volume", lambda: VolSphere(np.array(c), r).get_volume())
    if ok:
        _cmp(R, v, want, r**3, "volume:sphere", lambda: f"sphere r={r} at {c}", "volume:sphere", rel=1e-12)
    ok, v = R.impl("VolSphere.calc_volume", VolSphere.calc_volume, r)
    if ok:
        _cmp(R, v, want, r**3, "volume:sphere", lambda: f"calc_volume({r})", "volume:sphere:static", rel=1e-12)
    s = VolSphere(c, r)
    for f in CAP_FRACS:
        h = f * r
        wc = G.vol_cap(r, h)
        _selfcheck(wc, G.exact_cap(r, h), f"cap r={r} h={h}", r**3)
        ok, v = R.impl("get_volume_spherical_cap", s.get_volume_spherical_cap, h)
        if ok:
            _cmp(R, v, wc, r**3, "volume:cap", lambda: f"cap of height {h} on sphere r={r}", f"volume:cap:h={f}r", rel=1e-12)
        ok, v = R.impl("calc_volume_spherical_cap", VolSphere.calc_volume_spherical_cap, r, h)
        if ok:
            _cmp(R, v, wc, r**3, "volume:cap", lambda: f"calc_volume_spherical_cap({r}, {h})", f"volume:cap:static:h={f}r", rel=1e-12)
        R.outcome("cap", r, f)
    # second evaluation (the object caches): same value
    ok, v2 = R.impl("VolSphere.get_volume", s.get_volume)
    ok3, v3 = R.impl("VolSphere.get_volume", s.get_volume)
    if ok and ok3:
        _cmp(R, v2, want, r**3, "volume:sphere", lambda: f"sphere r={r}: get_volume() after the cap queries", "volume:sphere:after-cap-queries", rel=1e-12)
        R.check(v2 == v3, "volume:unstable", lambda: f"sphere r={r}: get_volume() twice gives {v2!r}, {v3!r}")
        _retain(R, "VolSphere.get_volume", s, want, r**3)


def check_frustum(case, R):
    from swcgeom.utils import VolFrustumCone

    _, r1, r2, h, oi, ci, ints = case
    u, c = ORIENT_T[oi], OFFSETS[ci]
    R.state("frustum", r1, r2, h, oi, ci, ints)
    want = G.vol_frustum(r1, r2, h)
    scale = max(r1, r2) ** 2 * h
    _selfcheck(want, G.exact_frustum(r1, r2, h), f"frustum {r1},{r2},{h}", scale)
    if ints:  # integer-typed coordinates and radii, as the repo's own tests pass them
        c1 = tuple(int(v) for v in c)
        c2 = tuple(int(round(c[k] + h * u[k])) for k in range(3))
        a1, a2 = int(r1), int(r2)
    else:
        c1, c2, a1, a2 = np.array(c), _pt(c, u, h), r1, r2
    fr = VolFrustumCone(c1, a1, c2, a2)
    ok, v = R.impl("VolFrustumCone.get_volume", fr.get_volume)
    if ok:
        _cmp(R, v, want, scale, "volume:frustum", lambda: f"frustum r1={r1} r2={r2} h={h} axis={u} at {c}", "volume:frustum")
        _retain(R, "VolFrustumCone.get_volume", fr, want, scale)
    ok, v = R.impl("VolFrustumCone.calc_volume", VolFrustumCone.calc_volume, r1, r2, h)
    if ok:
        _cmp(R, v, want, scale, "volume:frustum", lambda: f"calc_volume({r1},{r2},{h})", "volume:frustum:static", rel=1e-12)
    R.outcome("frustum", r1, r2, h)


def _rel_class(r1, r2, d):
    lo, hi = abs(r1 - r2), r1 + r2
    if d == 0:
        return "concentric" + (":equal" if r1 == r2 else "")
    if d < lo:
        return "nested"
    if d == lo:
        return "tangent-inside"
    if d < hi:
        return "lens"
    if d == hi:
        return "tangent-outside"
    return "disjoint"


def check_two_spheres(case, R):
    from swcgeom.utils import VolSphere

    _, r1, r2, d, oi, ci = case
    u, c = ORIENT_T[oi], OFFSETS[ci]
    cls = _rel_class(r1, r2, d)
    R.state("two-spheres", r1, r2, d, oi, ci)
    R.note("class:" + cls)
    wi = G.vol_two_spheres(r1, r2, d, "min")
    wu = G.vol_two_spheres(r1, r2, d, "max")
    scale = max(r1, r2) ** 3
    _selfcheck(wi, G.exact_lens(r1, r2, d), f"lens {r1},{r2},{d}", scale)
    _selfcheck(wu, G.exact_sphere(r1) + G.exact_sphere(r2) - G.exact_lens(r1, r2, d), f"two-sphere union {r1},{r2},{d}", scale)
    R.outcome(cls, round(wi / scale, 9))
    c1, c2 = np.array(c), _pt(c, u, d)
    what = lambda op: (lambda: f"spheres r1={r1} r2={r2} d={d} ({cls}) axis={u} at {c}: {op}")  # noqa: E731
    for nm, fn, want in (
        ("s1.intersect(s2)", lambda: VolSphere(c1, r1).intersect(VolSphere(c2, r2)).get_volume(), wi),
        ("s2.intersect(s1)", lambda: VolSphere(c2, r2).intersect(VolSphere(c1, r1)).get_volume(), wi),
        ("s1.union(s2)", lambda: VolSphere(c1, r1).union(VolSphere(c2, r2)).get_volume(), wu),
        ("s2.union(s1)", lambda: VolSphere(c2, r2).union(VolSphere(c1, r1)).get_volume(), wu),
    ):
        with _FastMC():
            ok, v = R.impl(nm, fn)
        if ok:
            op = "intersect" if "intersect" in nm else "union"
            _cmp(R, v, want, scale, f"volume:two-spheres:{op}", what(nm), f"volume:two-spheres:{op}:{cls}")
    for nm, op, want in (("s1.intersect(s2)", "intersect", wi), ("s1.union(s2)", "union", wu)):
        ok, obj = R.impl(nm + ":construct", getattr(VolSphere(c1, r1), op), VolSphere(c2, r2))
        if ok:
            with _FastMC():
                ok, v = R.impl(nm, obj.get_volume)
            if ok:
                _cmp(R, v, want, scale, f"volume:two-spheres:{op}", what(nm + " (kept object)"), f"volume:two-spheres:{op}:{cls}")
                _retain(R, nm, obj, want, scale)


def check_sphere_frustum(case, R):
    from swcgeom.utils import VolFrustumCone, VolSphere

    _, r1, r2, h, oi, ci, tier = case
    u, c = ORIENT_T[oi], OFFSETS[ci]
    c1, c2 = np.array(c), _pt(c, u, h)
    R.state("sphere-frustum", r1, r2, h, oi, ci)
    answers = menu(u, tier)
    seed = dg("c13", case)
    for end in (0, 1):
        r_near, r_far = (r1, r2) if end == 0 else (r2, r1)
        centre = c1 if end == 0 else c2
        axis = u if end == 0 else tuple(-v for v in u)
        path = G.sphere_frustum_case(r_near, r_far, h)
        wi = G.vol_sphere_frustum(r_near, r_far, h, "min")
        wu = G.vol_sphere_frustum(r_near, r_far, h, "max")
        # inclusion-exclusion ties the two independent quadratures together (oracle self-check)
        scale = max(r1, r2) ** 2 * max(h, r_near)
        _selfcheck(wi + wu, G.vol_sphere(r_near) + G.vol_frustum(r1, r2, h), f"sphere-frustum {r_near},{r_far},{h}", scale)
        R.note("ref-path:" + path)
        R.outcome(path, round(wi / (r_near**3), 6))
        for mi, ans in enumerate(menu(axis, tier) if end == 1 else answers):
            where = lambda op: (lambda: f"sphere r={r_near} on end {end} of frustum r1={r1} r2={r2} h={h} axis={u} at {c}, "  # noqa: E731
                                        f"rand answers #{mi}={ans}: {op} [{path}]")
            calls = [
                ("sphere.intersect(frustum)", "intersect",
                 lambda: VolSphere(centre, r_near).intersect(VolFrustumCone(c1, r1, c2, r2)).get_volume(), wi),
                ("sphere.union(frustum)", "union",
                 lambda: VolSphere(centre, r_near).union(VolFrustumCone(c1, r1, c2, r2)).get_volume(), wu),
            ]
            if mi < 2:  # same formula reached from the frustum's side: real generator and the parallel answer only
                calls.append(("frustum.union(sphere)", "union",
                              lambda: VolFrustumCone(c1, r1, c2, r2).union(VolSphere(centre, r_near)).get_volume(), wu))
            for nm, op, fn, want in calls:
                if mi == 0 and nm != "frustum.union(sphere)":
                    # keep the composite object: it is asked again after later calls (retained)
                    make = VolSphere(centre, r_near).intersect if op == "intersect" else VolSphere(centre, r_near).union
                    ok, obj = R.impl(nm + ":construct", make, VolFrustumCone(c1, r1, c2, r2))
                    if not ok:
                        continue
                    fn = obj.get_volume
                with _FastMC(), _Rng(ans, seed) as rng, _Spy() as spy:
                    ok, v = R.impl(nm, fn)
                if ok:
                    # far placements: the end points c + h*u are rounded to float64 at |c| ~ 1e4..1e5, i.e. h itself carries ~1e-8 relative
                    _cmp(R, v, want, scale, f"volume:sphere-frustum:{op}", where(nm), f"volume:sphere-frustum:{op}:{path}" + (":far-short" if ci >= 3 else ""),
                         **({"rel": 1e-6} if ci >= 3 else {}))
                    if mi == 0 and nm != "frustum.union(sphere)":
                        _retain(R, nm, obj, want, scale)
                if op == "intersect":
                    if not spy.log:
                        R.note("impl-path:no-line-test")
                    else:
                        R.note("impl-path:line-hits=" + str(spy.log[-1]))
                    if rng.calls > 1:
                        R.note("rng-retry-loop-driven")


# ------------------------------------------------------------------ call histories

QUERIES = [
    ("sphere", 1.0, 0),
    ("sphere", 2.0, 1),
    ("frustum", 1.0, 0.5, 2.0, 4, 0),
    ("frustum", 0.5, 1.0, 2.0, 12, 1),
    ("ss", "intersect", 1.0, 1.5, 2.0, 0, 0),
    ("ss", "union", 1.5, 1.0, 2.0, 12, 1),
    ("ss", "intersect", 1.0, 1.0, 0.0, 0, 0),
    ("sf", "intersect", 1.0, 0.5, 2.0, 0, 4, 0),   # narrowing, taller than the sphere
    ("sf", "intersect", 1.0, 0.5, 2.0, 1, 4, 0),   # the same frustum from its other end (widening)
    ("sf", "union", 1.0, 0.9, 0.5, 0, 12, 1),      # narrowing, lower than the sphere
    ("sf", "intersect", 2.0, 1.0, 1.0, 0, 9, 0),   # cone inside the sphere
    ("sf", "union", 2.0, 1.0, 1.0, 1, 9, 0),
]


CONTAINERS = ("fresh array", "one buffer reused for every position", "tuple", "list", "read-only array", "fortran/strided view")


class _Positions:
    """Hands a position to a constructor in a given container.  'one buffer reused': the caller keeps ONE float64 array, writes
    the next position into it and passes it again - as a loop over nodes does; a solid is the one described when it was built."""

    def __init__(self, how):
        self.how = how
        self.buf = np.zeros(3)
        self.big = np.zeros((3, 4))

    def __call__(self, c):
        c = [float(v) for v in c]
        if self.how == CONTAINERS[1]:
            self.buf[:] = c
            return self.buf
        if self.how == CONTAINERS[2]:
            return tuple(c)
        if self.how == CONTAINERS[3]:
            return list(c)
        if self.how == CONTAINERS[4]:
            a = np.array(c)
            a.setflags(write=False)
            return a
        if self.how == CONTAINERS[5]:
            self.big[:, 2] = c
            return self.big[:, 2]
        return np.array(c)

    def scramble(self):
        self.buf[:] = (977.0, -3.5, 12.25)
        self.big[:] = -41.0


def _build_query(q, how=CONTAINERS[0]):
    """(label, object with get_volume(), true volume, scale, needs_rng)"""
    from swcgeom.utils import VolFrustumCone, VolSphere

    P = _Positions(how)
    try:
        if q[0] == "sphere":
            _, r, ci = q
            return f"sphere r={r}", VolSphere(P(OFFSETS[ci]), r), G.vol_sphere(r), r**3
        if q[0] == "frustum":
            _, r1, r2, h, oi, ci = q
            c = OFFSETS[ci]
            if how in (CONTAINERS[1], CONTAINERS[5]):  # both ends through the one buffer is not a call a user can write: second end fresh
                return f"frustum {r1},{r2},{h}", VolFrustumCone(P(c), r1, _pt(c, ORIENT_T[oi], h), r2), G.vol_frustum(r1, r2, h), max(r1, r2) ** 2 * h
            return f"frustum {r1},{r2},{h}", VolFrustumCone(P(c), r1, P(_pt(c, ORIENT_T[oi], h)), r2), G.vol_frustum(r1, r2, h), max(r1, r2) ** 2 * h
        if q[0] == "ss":
            _, op, r1, r2, d, oi, ci = q
            c = OFFSETS[ci]
            a = VolSphere(P(c), r1)
            b = VolSphere(P(_pt(c, ORIENT_T[oi], d)), r2)
            return f"spheres {r1},{r2},d={d} {op}", getattr(a, op)(b), G.vol_two_spheres(r1, r2, d, "min" if op == "intersect" else "max"), max(r1, r2) ** 3
        _, op, r1, r2, h, end, oi, ci = q
        c = OFFSETS[ci]
        c1, c2 = np.array(c), _pt(c, ORIENT_T[oi], h)
        r_near, r_far = (r1, r2) if end == 0 else (r2, r1)
        sp = VolSphere(P(c1 if end == 0 else c2), r_near)
        fr = VolFrustumCone(P(c1), r1, np.array(c2), r2) if how in (CONTAINERS[1], CONTAINERS[5]) else VolFrustumCone(P(c1), r1, P(c2), r2)
        return (f"sphere on end {end} of frustum {r1},{r2},{h} {op}", getattr(sp, op)(fr),
                G.vol_sphere_frustum(r_near, r_far, h, "min" if op == "intersect" else "max"), max(r1, r2) ** 2 * max(h, r_near))
    finally:
        P.scramble()  # the caller goes on using its buffer for something else


INT_DTYPES = ("int16", "int32", "int64", "uint16", "python ints")
INT_QUERIES = [
    # solids on the voxel grid (integer coordinates, as taken from an image volume), spans beyond sqrt(2^15) and sqrt(2^31) / 256
    ("frustum", 50.0, 20.0, 300, 2), ("frustum", 20.0, 50.0, 200, 0),
    ("ss", "intersect", 150.0, 120.0, 200, 0), ("ss", "union", 150.0, 120.0, 200, 1), ("ss", "union", 90.0, 30.0, 400, 2),
    ("sf", "intersect", 100.0, 40.0, 300, 0, 2), ("sf", "union", 100.0, 40.0, 300, 1, 2), ("sf", "intersect", 120.0, 120.0, 190, 0, 0),
]


def check_int_containers(case, R):
    """Positions handed over as INTEGER arrays (voxel coordinates): narrow integer arithmetic on differences / squared lengths must
    not leak into the volumes."""
    qi, dt = int(case[1]), case[2]
    q = INT_QUERIES[qi]
    R.state("int-containers", qi, dt)
    from swcgeom.utils import VolFrustumCone, VolSphere

    base = (300, 500, 200)

    def P(v):
        v = [int(a) for a in v]
        return tuple(v) if dt == "python ints" else np.array(v, dtype=dt)

    def along(ax, L):
        e = [0, 0, 0]
        e[ax] = L
        return tuple(b + d for b, d in zip(base, e))

    def build_():
        if q[0] == "frustum":
            _, r1, r2, h, ax = q
            return VolFrustumCone(P(base), r1, P(along(ax, h)), r2), G.vol_frustum(r1, r2, float(h)), max(r1, r2) ** 2 * h
        if q[0] == "ss":
            _, op, r1, r2, d, ax = q
            a, b = VolSphere(P(base), r1), VolSphere(P(along(ax, d)), r2)
            return getattr(a, op)(b), G.vol_two_spheres(r1, r2, float(d), "min" if op == "intersect" else "max"), max(r1, r2) ** 3
        _, op, r1, r2, h, end, ax = q
        c1, c2 = base, along(ax, h)
        r_near, r_far = (r1, r2) if end == 0 else (r2, r1)
        sp = VolSphere(P(c1 if end == 0 else c2), r_near)
        return getattr(sp, op)(VolFrustumCone(P(c1), r1, P(c2), r2)), G.vol_sphere_frustum(r_near, r_far, float(h), "min" if op == "intersect" else "max"), max(r1, r2) ** 2 * max(h, r_near)

    ok, b = R.impl("construct", build_)
    if not ok:
        return
    obj, want, scale = b
    with _FastMC(), _Rng(FIXED[:4], dg("c13i", case)):
        ok, v = R.impl("get_volume", obj.get_volume)
    if ok:
        _cmp(R, v, want, scale, "volume:int-containers", lambda: f"{q}, positions given as {dt} voxel coordinates", f"volume:int-containers:{q[0]}:{dt}")
    R.outcome(qi, dt)


def check_containers(case, R):
    """The same solids described through every container a caller may hold a position in."""
    qi, how = case[1], case[2]
    R.state("containers", qi, how)
    ok, b = R.impl("construct", _build_query, QUERIES[qi], how)
    if not ok:
        return
    label, obj, want, scale = b
    for rnd, ans in ((1, FIXED[:4]), (2, [FIXED[1], FIXED[2], FIXED[0]])):
        with _FastMC(), _Rng(ans, dg("c13c", case)):
            ok, v = R.impl("get_volume", obj.get_volume)
        if ok:
            _cmp(R, v, want, scale, "volume:containers", lambda: f"{label}, positions handed over as: {how} (round {rnd})", f"volume:containers:{QUERIES[qi][0]}:{how}")
    R.outcome(qi, how)


def check_history(case, R):
    """Objects built up front and queried in sequence, then all queried a second time: every answer is the
    true volume of *its* solid whatever was asked before (no state shared between objects or calls)."""
    seq = list(case[1])
    R.state("history", seq)
    seed = dg("c13h", case)
    built = []
    for qi in seq:
        ok, b = R.impl("construct", _build_query, QUERIES[qi])
        if not ok:
            return
        built.append(b)
    for rnd, ans in ((1, FIXED[:4]), (2, [FIXED[1], FIXED[2], FIXED[0]])):
        for pos, (label, obj, want, scale) in enumerate(built):
            with _FastMC(), _Rng(ans, seed):
                ok, v = R.impl("get_volume", obj.get_volume)
            if ok:
                _cmp(R, v, want, scale, "volume:history", lambda: f"query #{pos} of {[QUERIES[i] for i in seq]} (round {rnd}): {label}",
                     f"volume:history:{QUERIES[seq[pos]][0]}:round{rnd}")
    R.outcome(tuple(seq))


def check_shared_sphere(case, R):
    """One sphere object takes part in several composites and is asked for its own volume / caps in between."""
    from swcgeom.utils import VolFrustumCone, VolSphere

    seq = list(case[1])
    R.state("shared", seq)
    seed = dg("c13s", case)
    c = OFFSETS[1]
    u = ORIENT_T[12]
    s = VolSphere(np.array(c), 1.0)
    f1 = VolFrustumCone(np.array(c), 1.0, _pt(c, u, 2.0), 0.5)
    f2 = VolFrustumCone(np.array(c), 1.0, _pt(c, tuple(-v for v in u), 0.5), 2.0)
    s2 = VolSphere(_pt(c, u, 1.5), 1.25)
    menu_ = {
        0: ("s.intersect(f1)", lambda: s.intersect(f1).get_volume(), G.vol_sphere_frustum(1.0, 0.5, 2.0, "min")),
        1: ("s.intersect(f2)", lambda: s.intersect(f2).get_volume(), G.vol_sphere_frustum(1.0, 2.0, 0.5, "min")),
        2: ("s.union(f1)", lambda: s.union(f1).get_volume(), G.vol_sphere_frustum(1.0, 0.5, 2.0, "max")),
        3: ("f2.union(s)", lambda: f2.union(s).get_volume(), G.vol_sphere_frustum(1.0, 2.0, 0.5, "max")),
        4: ("s.intersect(s2)", lambda: s.intersect(s2).get_volume(), G.vol_two_spheres(1.0, 1.25, 1.5, "min")),
        5: ("s2.union(s)", lambda: s2.union(s).get_volume(), G.vol_two_spheres(1.0, 1.25, 1.5, "max")),
        6: ("s.get_volume()", s.get_volume, G.vol_sphere(1.0)),
        7: ("s.get_volume_spherical_cap(0.5)", lambda: s.get_volume_spherical_cap(0.5), G.vol_cap(1.0, 0.5)),
        8: ("f1.get_volume()", f1.get_volume, G.vol_frustum(1.0, 0.5, 2.0)),
    }
    for pos, k in enumerate(seq):
        nm, fn, want = menu_[k]
        with _FastMC(), _Rng(FIXED[:4], seed):
            ok, v = R.impl(nm, fn)
        if ok:
            _cmp(R, v, want, 8.0, "volume:shared-sphere", lambda: f"call #{pos} of {[menu_[i][0] for i in seq]}: {nm}", f"volume:shared-sphere:{nm}")
    R.outcome(tuple(seq))


TEMP_FRUSTA = [(0.5, 2.0), (2.0, 0.5), (1.0, 1.0), (0.25, 3.0), (1.5, 0.75), (3.0, 1.5)]  # (far radius, height) on a unit sphere


def check_temporaries(case, R):
    """One long-lived sphere combined with a sequence of SHORT-LIVED frusta (each built, used and dropped before the next is
    built, as in a loop or a helper): every answer is the true volume of the frustum asked about, not of one seen before."""
    from swcgeom.utils import VolFrustumCone, VolSphere

    seq, op_first = list(case[1]), case[2]
    R.state("temporaries", seq, op_first)
    seed = dg("c13t", case)
    c = OFFSETS[1]
    u = ORIENT_T[12]
    s = VolSphere(np.array(c), 1.0)

    def ask(r2, h, op):
        fr = VolFrustumCone(np.array(c), 1.0, _pt(c, u, h), r2)
        return getattr(s, op)(fr).get_volume()  # the frustum and the composite die when this returns

    ops = ("intersect", "union") if op_first == "intersect" else ("union", "intersect")
    for pos, k in enumerate(seq):
        r2, h = TEMP_FRUSTA[k]
        for op in ops:
            with _FastMC(), _Rng(FIXED[:4], seed):
                ok, v = R.impl(f"sphere.{op}(temporary frustum)", ask, r2, h, op)
            if ok:
                want = G.vol_sphere_frustum(1.0, r2, h, "min" if op == "intersect" else "max")
                _cmp(R, v, want, max(1.0, r2) ** 2 * max(h, 1.0), "volume:temporaries",
                     lambda: f"call #{pos} ({op}) of frusta {[TEMP_FRUSTA[i] for i in seq]} on one sphere", f"volume:temporaries:{op}")
    R.outcome(tuple(seq), op_first)


# ------------------------------------------------------------------ spaces


def _coverage_guard(triples):
    """Harness assertion (not a property check): the lattice reaches every geometric situation of the case analysis."""
    need = {"widening:h>=r", "widening:h<r", "narrowing:inside-sphere", "narrowing:far-rim-on-sphere", "narrowing:h>=r", "narrowing:h<r"}
    seen = {}
    for r1, r2, h in triples:
        for a, b in ((r1, r2), (r2, r1)):
            k = G.sphere_frustum_case(a, b, h)
            seen[k] = seen.get(k, 0) + 1
    missing = need - set(seen)
    if missing:
        raise RuntimeError(f"C13 lattice does not reach {sorted(missing)}")
    return seen


def spaces(tier, seed):
    quick = tier == "quick"
    rad = RAD_Q if quick else RAD_T
    hgt = HGT_Q if quick else HGT_T
    n_or = 14 if quick else len(ORIENT_T)
    offs = [0, 1] if quick else [0, 1, 2]
    triples = _triples(tier)
    paths = _coverage_guard(triples)
    scales = (1.0,) if quick else SCALES_T

    def gen_sphere():
        for s in scales:
            for r in rad:
                for ci in offs:
                    yield ["sphere", r * s, ci]

    def gen_frustum():
        for r1, r2, h in triples:
            for oi in range(n_or):
                for ci in offs:
                    yield ["frustum", r1, r2, h, oi, ci, False]
        for r1, r2, h in itertools.product((1.0, 2.0, 4.0), (1.0, 2.0, 3.0), (1.0, 5.0, 8.0)):
            for oi in range(6):
                yield ["frustum", r1, r2, h, oi, 1, True]
        for s in scales[1:]:
            for r1, r2, h in itertools.product(rad[::3], rad[::3], hgt[::4]):
                yield ["frustum", r1 * s, r2 * s, h * s, 12, 1, False]

    def gen_two():
        for s in scales:
            for r1 in rad:
                for r2 in rad:
                    for d in _distances(r1 * s, r2 * s):
                        for oi in (range(n_or) if s == 1.0 else (12,)):
                            for ci in offs:
                                yield ["two-spheres", r1 * s, r2 * s, d, oi, ci]

    def gen_sf():
        for r1, r2, h in triples:
            for oi in range(n_or):
                for ci in offs:
                    yield ["sphere-frustum", r1, r2, h, oi, ci, tier]
        for s in scales[1:]:
            for r1, r2, h in triples:
                if (r1, r2, h) in NEARCYL:
                    continue
                yield ["sphere-frustum", r1 * s, r2 * s, h * s, 12, 1, tier]

    def gen_sf_far():
        base = [t_ for t_ in triples if t_ not in NEARCYL]
        for s in FAR_SCALES:
            for r1, r2, h in (base[::3] if quick else base):
                for ci in (3, 4):
                    for oi in (12, 0):
                        yield ["sphere-frustum", r1 * s, r2 * s, h * s, oi, ci, tier]

    def gen_hist():
        k = len(QUERIES)
        for i in range(k):
            for j in range(k):
                yield ["history", [i, j]]
        if not quick:
            for i in range(k):
                for j in range(k):
                    for l in range(k):
                        yield ["history", [i, j, l]]

    def gen_shared():
        for i in range(9):
            for j in range(9):
                yield ["shared", [i, j]]
                if not quick:
                    for l in range(9):
                        yield ["shared", [i, j, l]]

    def gen_temp():
        k = len(TEMP_FRUSTA)
        for first in ("intersect", "union"):
            for i in range(k):
                for j in range(k):
                    yield ["temporaries", [i, j], first]
                    if not quick or first == "intersect":
                        for l in range(k):
                            yield ["temporaries", [i, j, l], first]

    common = {"orientations": n_or, "centre_offsets": [OFFSETS[i] for i in offs], "size_scales": list(scales)}
    return [
        Space.of("sphere-and-cap", gen_sphere, check_sphere, bounds={"radii": [r * s for s in scales for r in rad], "cap_height_over_r": CAP_FRACS}),
        Space.of("frustum", gen_frustum, check_frustum, bounds={"radii": rad, "heights": hgt, "extra_triples": len(SPECIAL) + len(NEAR_RIM) + len(NARROW_SHORT) + len(NEARCYL), **common}),
        Space.of("two-spheres", gen_two, check_two_spheres,
                 bounds={"radii": rad, "distances": "0, |r1-r2|/2, |r1-r2| (+1e-6 of the gap), mid, max(r1,r2), r1+r2 (-1e-6 of the gap), r1+r2+1", **common}),
        Space.of("sphere-frustum", gen_sf, check_sphere_frustum,
                 bounds={"radii": rad, "heights": hgt, "far_rim_on_sphere_triples": SPECIAL, "near_rim_triples": NEAR_RIM, "narrowing_short_triples": NARROW_SHORT, "near_cylinder_triples": len(NEARCYL),
                         "triples": len(triples), "ends": 2, "rng_menu": "real generator (seeded) + parallel-to-axis + 4 fixed answers"
                         + ("" if quick else " + 2 more fixed + almost-parallel + three parallel answers in a row"),
                         "reference_cases_reached": paths, **common}),
        Space.of("sphere-frustum-far-short", gen_sf_far, check_sphere_frustum,
                 bounds={"offsets": [list(OFFSETS[3]), list(OFFSETS[4])], "size_scales": list(FAR_SCALES), "orientations": 2, "ends": 2,
                         "note": "short frusta (extent 0.003 .. 0.25) far from the origin: the two ends are closer than any tolerance relative to |coordinate|"}),
        Space.of("position-containers", lambda: (["containers", qi, how] for qi in range(len(QUERIES)) for how in CONTAINERS), check_containers,
                 bounds={"objects": len(QUERIES), "containers": list(CONTAINERS),
                         "note": "the caller's buffer is overwritten after each constructor returns: a solid is the one described when it was built"}),
        Space.of("integer-position-containers", lambda: (["int", qi, dt] for qi in range(len(INT_QUERIES)) for dt in INT_DTYPES), check_int_containers,
                 bounds={"solids": [list(q) for q in INT_QUERIES], "dtypes": list(INT_DTYPES)}),
        Space.of("query-histories", gen_hist, check_history,
                 bounds={"objects": len(QUERIES), "sequence_length": "2" if quick else "2 and 3", "rounds": 2,
                         "note": "all objects built first, queried in order, then all queried again under other rand answers"}),
        Space.of("sphere-with-temporaries", gen_temp, check_temporaries,
                 bounds={"frusta (far radius, height)": TEMP_FRUSTA, "sequence_length": "2 and 3", "operations": "intersect and union per frustum, either first",
                         "note": "one sphere object; each frustum is built, used and dropped before the next one is built"}),
        Space.of("shared-sphere", gen_shared, check_shared_sphere,
                 bounds={"calls": 9, "sequence_length": "2" if quick else "2 and 3",
                         "note": "one sphere object used by two frusta and a second sphere; composites, own volume and cap interleaved"}),
    ]
