"""C17 — point-cloud tree construction yields the intended spanning tree."""

from __future__ import annotations

import itertools
import math

import numpy as np

from mc import build
from mc.kernel import Space

PROPERTY = "C17"
RULE = (
    "small clouds: every (root, subset) choice of 2..m points from a 9-point generic 3-D bank (quick: bank VERIF_SEED % 4, "
    "thorough: all 4 banks) x balancing factor x branching limit {-1,1,2,3} x exclude_soma x (soma passed separately | first point) "
    "x sort, for PointsToCuntzMST, and the same without bf for PointsToMST; large clouds: deterministic 200 (and 400) point sets x "
    "a menu of (bf, limit, exclude_soma) configurations. Oracle: spanning (every input point once, by float32 coordinates, single "
    "root = soma), branching limit, total length = own Kruskal MST when bf = 0 and no limit, parent relation = reference greedy "
    "(attach the pair (connected unsaturated i, unconnected j) minimising d(i,j) + bf * path(i)). Ties (two candidate costs closer "
    "than 1e-9) make the specification ambiguous and are skipped by the reference, never tolerated. "
    "History space: one builder instance applied to cloud A, cloud B, A again and A after an in-place edit, earlier trees re-judged. "
    "Non-trivial = every case (>= 2 points); distinct = distinct (bank, root, subset) / (cloud, configuration)."
)
ASSUMPTIONS = [
    "points are given as float64 arrays; the banks have 2-3 decimals so that all points stay distinct after float32 storage and "
    "result nodes are identified with input points by their float32 coordinates",
    "general position: all pairwise distances of a bank differ by >= 1e-4 (validated when the bank is built); candidate-cost ties "
    "(< 1e-9 between best and second best at any greedy step) are detected by the reference and the configuration is skipped",
    "library and reference compute costs in float64 from the same inputs; they can differ by a few 1e-16 relative, far below the 1e-9 "
    "tie margin",
    "MST length compared on the input (float64) coordinates of the edges the library chose, relative tolerance 1e-9",
    "with a branching limit the minimisation ranges over connected points that are not yet saturated (root exempt when "
    "exclude_soma) - the documented 'suppress multi-furcations' rule",
]

TIE = 1e-9
BANK0 = [
    (0.13, 0.71, -0.42), (1.93, 0.27, 0.58), (0.61, 2.35, 1.17), (-1.49, 1.03, 2.21), (2.77, -1.61, 0.35),
    (-0.83, -2.09, 1.69), (1.31, 1.87, -2.43), (-2.57, 0.49, -1.11), (0.37, -0.95, 2.89),
]


def _lcg(seed):
    s = seed
    while True:
        s = (s * 6364136223846793005 + 1442695040888963407) % (1 << 64)
        yield (s >> 11) / float(1 << 53)


def _distinct_distances(pts, margin):
    ds = sorted(math.dist(a, b) for a, b in itertools.combinations(pts, 2))
    return bool(ds) and ds[0] > 0.3 and all(b - a >= margin for a, b in zip(ds, ds[1:]))


def _gen_bank(seed, n=9, scale=3.0):
    g = _lcg(seed)
    pts = []
    while len(pts) < n:
        q = tuple(round((next(g) - 0.5) * 2 * scale, 2) for _ in range(3))
        if len(pts) == 0 or _distinct_distances(pts + [q], 1e-4):
            pts.append(q)
    return pts


_BANKS = {}


def bank(k):
    if k not in _BANKS:
        pts = BANK0 if k == 0 else _gen_bank(7000 + 13 * k)
        if not _distinct_distances(pts, 1e-4) or len({tuple(build.f32(v) for v in q) for q in pts}) != len(pts):
            raise RuntimeError(f"harness: point bank {k} is not in general position")
        _BANKS[k] = pts
    return _BANKS[k]


_CLOUDS = {}


def cloud(n):
    if n not in _CLOUDS:
        g = _lcg(424242 + n)
        pts, seen = [], set()
        while len(pts) < n:
            q = tuple(round(next(g) * 10, 3) for _ in range(3))
            key = tuple(build.f32(v) for v in q)
            if key not in seen:
                seen.add(key)
                pts.append(q)
        _CLOUDS[n] = pts
    return _CLOUDS[n]


# ------------------------------------------------------------------ reference (plain Python)


def dist_matrix(pts):
    return [[math.dist(a, b) for b in pts] for a in pts]


def greedy(D, bf, k, excl):
    """Reference construction.  Returns (parent list, None) or (None, 'tie' / 'stuck')."""
    n = len(D)
    pid = [-1] * n
    acc = [0.0] * n
    nch = [0] * n
    conn = [0]
    free = set(range(1, n))
    for _ in range(n - 1):
        best = second = math.inf
        arg = None
        for i in conn:
            if k != -1 and nch[i] >= k and not (excl and i == 0):
                continue
            Di = D[i]
            base = bf * acc[i]
            for j in free:
                c = Di[j] + base
                if c < best:
                    second, best, arg = best, c, (i, j)
                elif c < second:
                    second = c
        if arg is None:
            return None, "stuck"
        if second - best < TIE * max(1.0, best):
            return None, "tie"
        i, j = arg
        pid[j] = i
        acc[j] = acc[i] + D[i][j]
        nch[i] += 1
        conn.append(j)
        free.discard(j)
    return pid, None


def kruskal_length(D):
    n = len(D)
    edges = sorted((D[i][j], i, j) for i in range(n) for j in range(i + 1, n))
    comp = list(range(n))

    def find(a):
        while comp[a] != a:
            comp[a] = comp[comp[a]]
            a = comp[a]
        return a

    total, used = 0.0, 0
    for w, i, j in edges:
        a, b = find(i), find(j)
        if a != b:
            comp[a] = b
            total += w
            used += 1
            if used == n - 1:
                break
    return total


# ------------------------------------------------------------------ oracle


def judge(R, what, klass, pts, D, t, bf, k, excl, want_pid, mst_len, rel=1e-9):
    """pts[0] is the soma / first point.  Returns the parent map (by input index) or None."""
    n = len(pts)
    ctx = lambda: f"{what} points={pts if n <= 8 else str(pts[:3]) + '...'}"  # noqa: E731
    wf, why = build.wellformed(t)
    if not R.check(wf, "not-a-single-tree", lambda: f"{ctx()}: {why}; id={t.id().tolist()[:12]} pid={t.pid().tolist()[:12]}", f"{klass}:malformed"):
        return None
    key = {tuple(build.f32(v) for v in q): i for i, q in enumerate(pts)}
    got_xyz = build.tags_xyz(t)
    if not R.check(len(got_xyz) == n and sorted(got_xyz) == sorted(key), "points-not-exactly-once",
                   lambda: f"{ctx()}: result has {len(got_xyz)} nodes {got_xyz[:8]}", f"{klass}:points"):
        return None
    idx = [key[q] for q in got_xyz]
    tp = [int(v) for v in t.pid().tolist()]
    par = {idx[a]: (idx[tp[a]] if tp[a] != -1 else -1) for a in range(n)}
    R.check(par[0] == -1, "root-is-not-the-soma", lambda: f"{ctx()}: root is input point {[i for i, q in par.items() if q == -1]}", f"{klass}:root")
    got = [par[i] for i in range(n)]
    # branching limit
    if k != -1:
        cnt = [0] * n
        for q in got:
            if q != -1:
                cnt[q] += 1
        over = [i for i in range(n) if cnt[i] > k and not (excl and i == 0)]
        R.check(not over, "branching-limit", lambda: f"{ctx()}: limit {k} (root exempt: {excl}) but points {over} have {[cnt[i] for i in over]} children; parents={got if n <= 12 else '...'}",
                f"{klass}:branching-limit")
    # minimum spanning tree length
    if bf == 0 and k == -1:
        length = sum(D[i][got[i]] for i in range(1, n) if got[i] != -1)
        R.check(abs(length - mst_len) <= rel * max(1.0, mst_len), "not-minimum-length",
                lambda: f"{ctx()}: total length {length:.9f}, minimum spanning tree {mst_len:.9f}; parents={got if n <= 12 else '...'}", f"{klass}:mst-length")
    # balancing factor / greedy rule
    if want_pid is not None:
        if got != want_pid:
            # name the first attachment (in reference order) that differs
            j = next(i for i in range(n) if got[i] != want_pid[i])
            show = (lambda v: v) if n <= 12 else (lambda v: f"[{n} entries]")
            R.fail("wrong-attachment",
                   f"{ctx()}: parents {show(got)} but the rule (edge + {bf} x path length, limit {k}, root exempt {excl}) gives {show(want_pid)}; "
                   f"e.g. point {j} {pts[j]} attached to {got[j]} {pts[got[j]]} instead of {want_pid[j]} {pts[want_pid[j]]}",
                   f"{klass}:attachment" + (":bf>0" if bf > 0 else ""))
    return got


BFS_Q = (0.0, 0.2, 0.5, 1.0)
BFS_T = (0.0, 0.1, 0.2, 0.4, 0.5, 0.8, 1.0)
LIMITS = (-1, 1, 2, 3)


def check_small(case, R):
    from swcgeom.transforms import PointsToCuntzMST, PointsToMST

    bk, root, sub, tg = case[0], case[1], list(case[2]), case[3]
    B = bank(bk)
    pts = [B[root]] + [B[i] for i in sub]
    n = len(pts)
    R.state(bk, root, sub)
    D = dist_matrix(pts)
    mst_len = kruskal_length(D)
    arr = np.array(pts, dtype=np.float64)
    inputs = {"first": lambda: (arr.copy(), None), "soma": lambda: (arr[1:].copy(), arr[0].copy())}
    trees = set()
    kept = []
    for bf in BFS_Q if tg == "q" else BFS_T:
        for k in LIMITS:
            for excl in (True, False):
                want, why = greedy(D, bf, k, excl)
                if want is None:
                    R.skip(f"reference-{why}")
                    continue
                for mode in ("first", "soma"):
                    for sort in (True, False):
                        P, soma = inputs[mode]()
                        what = f"PointsToCuntzMST(bf={bf}, furcations={k}, exclude_soma={excl}, sort={sort})(points, soma={'given' if soma is not None else None})"
                        ok, t = R.impl("PointsToCuntzMST", lambda: PointsToCuntzMST(bf=bf, furcations=k, exclude_soma=excl, sort=sort)(P, soma))
                        if ok:
                            kept.append((what, t, build.snapshot(t)))
                            got = judge(R, what, "cuntz", pts, D, t, bf, k, excl, want, mst_len)
                            if got:
                                trees.add(tuple(got))
                        if bf == 0:
                            P, soma = inputs[mode]()
                            what = f"PointsToMST(furcations={k}, exclude_soma={excl}, sort={sort})(points, soma={'given' if soma is not None else None})"
                            ok, t = R.impl("PointsToMST", lambda: PointsToMST(k, exclude_soma=excl, sort=sort)(P, soma))
                            if ok:
                                kept.append((what, t, build.snapshot(t)))
                                judge(R, what, "mst", pts, D, t, 0.0, k, excl, want, mst_len)
    R.outcome(n, len(trees))
    for tr in trees:
        R.outcome(n, ref_shape(tr))
    recheck_kept(R, kept)


def recheck_kept(R, kept):
    """Every tree obtained in this case still has the content it was returned with (and the last two are retained)."""
    for what, t, snap in kept:
        R.check(build.snapshot(t) == snap, "result-changed-by-later-calls", lambda: f"{what}: the returned tree changed after later library calls",
                "result-changed-by-later-calls")
    for what, t, _ in kept[-2:]:
        R.retain(what.split("(")[0], lambda v=t: build.snapshot(v))


HISTORY_INSTANCES = ("cuntz(bf=0.5,k=2)", "cuntz(bf=0.2,k=-1,unsorted)", "cuntz(bf=1,k=1,root-limited)", "mst(k=2)", "mst(k=-1,unsorted)")


def history_pool():
    """(root, subset, soma mode): clouds of 2..6 points, several of each size."""
    out = []
    for root in (0, 3, 7):
        ring = [(root + 1 + i) % 9 for i in range(8)]
        for m in (1, 2, 3, 4, 5):
            out.append((root, tuple(ring[:m]), "first" if (root + m) % 2 else "soma"))
    for root in (1, 5):
        ring = [(root - 1 - i) % 9 for i in range(8)]
        for m in (2, 4):
            out.append((root, tuple(ring[:m]), "soma" if (root + m) % 2 else "first"))
    return out


def check_history(case, R):
    """One builder instance applied to cloud A, cloud B, A again, then A edited in place: every tree is judged when returned and
    the earlier ones again after the later calls."""
    from swcgeom.transforms import PointsToCuntzMST, PointsToMST

    bk, kind, seq = case[0], case[1], [(c[0], list(c[1]), c[2]) for c in case[2]]
    R.state(bk, kind, seq)
    inst, klass, bf, k, excl = {
        "cuntz(bf=0.5,k=2)": lambda: (PointsToCuntzMST(bf=0.5, furcations=2), "cuntz", 0.5, 2, True),
        "cuntz(bf=0.2,k=-1,unsorted)": lambda: (PointsToCuntzMST(bf=0.2, furcations=-1, sort=False), "cuntz", 0.2, -1, True),
        "cuntz(bf=1,k=1,root-limited)": lambda: (PointsToCuntzMST(bf=1.0, furcations=1, exclude_soma=False), "cuntz", 1.0, 1, False),
        "mst(k=2)": lambda: (PointsToMST(2), "mst", 0.0, 2, True),
        "mst(k=-1,unsorted)": lambda: (PointsToMST(-1, sort=False), "mst", 0.0, -1, True),
    }[kind]()
    B = bank(bk)
    clouds = []
    for root, sub, mode in seq:
        arr = np.array([B[root]] + [B[i] for i in sub], dtype=np.float64)
        clouds.append([arr, mode])

    def run(step, arr, mode, note):
        pts = [tuple(float(v) for v in row) for row in arr]
        if len({tuple(build.f32(v) for v in q) for q in pts}) != len(pts):
            R.skip("points-coincide-in-float32")
            return None
        D = dist_matrix(pts)
        want, why = greedy(D, bf, k, excl)
        if want is None:
            R.skip(f"reference-{why}")
            return None
        what = f"history[{kind}] call {step} ({note}) on {pts}, soma {mode}"
        P, soma = (arr, None) if mode == "first" else (arr[1:], arr[0])
        ok, t = R.impl(f"history:{klass}", lambda: inst(P, soma))
        if not ok:
            return None
        got = judge(R, what, f"history:{klass}", pts, D, t, bf, k, excl, want, kruskal_length(D))
        if got:
            R.outcome(len(pts), ref_shape(got))
        return (what, pts, D, t, want, build.snapshot(t))

    live = []
    order = list(range(len(clouds))) + [0]
    for step, j in enumerate(order):
        rec = run(step + 1, clouds[j][0], clouds[j][1], "first input again" if step == len(order) - 1 else f"input {j + 1}")
        if rec:
            live.append(rec)
    for what, pts, D, t, want, snap in live[:-1]:
        if not R.check(build.snapshot(t) == snap, "result-changed-by-later-calls", f"{what}: tree changed after later calls of the same instance",
                       "history:result-changed-by-later-calls"):
            judge(R, what + " [re-judged after later calls]", f"history:{klass}", pts, D, t, bf, k, excl, want, kruskal_length(D))
    # edit the first cloud in place (move its last point): the same instance must build the tree of the new cloud
    arr, mode = clouds[0]
    arr[-1] += (0.37, -0.21, 0.45)
    run(len(order) + 1, arr, mode, "first input after moving its last point in place")
    if live:
        R.retain(f"history[{kind}]", lambda v=live[0][3]: build.snapshot(v))


def ref_shape(par):
    """Unlabelled shape (sorted child-count profile by depth) of a parent list - for the distinct-outcome count."""
    n = len(par)
    depth = [0] * n
    for i in range(n):
        j, d = i, 0
        while par[j] != -1:
            j = par[j]
            d += 1
        depth[i] = d
    cnt = [0] * n
    for q in par:
        if q != -1:
            cnt[q] += 1
    return tuple(sorted(zip(depth, cnt)))


CLOUD_CONFIGS_Q = [
    # (n, class, bf, limit, exclude_soma, soma mode, sort)
    (200, "mst", 0.0, -1, True, "first", True),
    (200, "cuntz", 0.0, -1, True, "soma", False),
    (200, "mst", 0.0, 2, True, "first", True),
    (200, "mst", 0.0, 2, False, "soma", True),
    (200, "cuntz", 0.0, 1, False, "first", False),
    (200, "cuntz", 0.4, 2, True, "first", True),
    (200, "cuntz", 0.2, -1, True, "soma", True),
    (200, "cuntz", 1.0, 3, False, "first", False),
    (60, "cuntz", 0.5, 2, True, "first", True),
    (60, "mst", 0.0, -1, True, "first", True),
]
CLOUD_CONFIGS_T = CLOUD_CONFIGS_Q + [
    (n, c, bf, k, excl, mode, True)
    for n in (120, 400)
    for (c, bf, k, excl, mode) in (("mst", 0.0, -1, True, "first"), ("mst", 0.0, 2, True, "soma"), ("cuntz", 0.0, 3, False, "first"),
                                    ("cuntz", 0.2, 2, True, "first"), ("cuntz", 0.5, -1, True, "soma"), ("cuntz", 1.0, 2, False, "first"),
                                    ("cuntz", 0.8, 1, True, "first"))
]


def check_cloud(case, R):
    from swcgeom.transforms import PointsToCuntzMST, PointsToMST

    n, cls, bf, k, excl, mode, sort = case
    pts = cloud(n)
    R.state(n, cls, bf, k, excl, mode, sort)
    D = dist_matrix(pts)
    mst_len = kruskal_length(D)
    if bf == 0 and k == -1:
        # harness self-check of the Kruskal reference against scipy (diagnostic: a disagreement is a harness error)
        from scipy.sparse.csgraph import minimum_spanning_tree

        sp = float(minimum_spanning_tree(np.array(D)).sum())
        if abs(sp - mst_len) > 1e-9 * mst_len:
            raise RuntimeError(f"harness: Kruskal reference {mst_len} disagrees with scipy {sp}")
    want, why = greedy(D, bf, k, excl)
    if want is None:
        R.skip(f"reference-{why}")
    arr = np.array(pts, dtype=np.float64)
    P, soma = (arr, None) if mode == "first" else (arr[1:], arr[0])
    if cls == "mst":
        what = f"PointsToMST(furcations={k}, exclude_soma={excl}, sort={sort}) on the {n}-point cloud, soma {mode}"
        ok, t = R.impl("PointsToMST", lambda: PointsToMST(k, exclude_soma=excl, sort=sort)(P, soma))
    else:
        what = f"PointsToCuntzMST(bf={bf}, furcations={k}, exclude_soma={excl}, sort={sort}) on the {n}-point cloud, soma {mode}"
        ok, t = R.impl("PointsToCuntzMST", lambda: PointsToCuntzMST(bf=bf, furcations=k, exclude_soma=excl, sort=sort)(P, soma))
    if ok:
        got = judge(R, what, "cloud", pts, D, t, bf, k, excl, want, mst_len)
        if got:
            R.outcome(n, max(sum(1 for q in got if q == i) for i in range(n)), round(sum(D[i][got[i]] for i in range(1, n)), 6))


def greedy_np(D, bf, k, excl, tie=None):
    """The reference construction of `greedy`, evaluated with array operations (float64) for the size sweep; same tie rule."""
    A = np.asarray(D, dtype=np.float64)
    n = A.shape[0]
    pid = [-1] * n
    acc = np.zeros(n)
    nch = np.zeros(n, dtype=np.int64)
    conn = np.zeros(n, dtype=bool)
    conn[0] = True
    for _ in range(n - 1):
        rows = conn.copy()
        if k != -1:
            full = nch >= k
            if excl:
                full[0] = False
            rows &= ~full
        ri = np.flatnonzero(rows)
        ci = np.flatnonzero(~conn)
        if len(ri) == 0:
            return None, "stuck"
        C = A[np.ix_(ri, ci)] + bf * acc[ri][:, None]
        flat = C.ravel()
        a = int(flat.argmin())
        best = float(flat[a])
        if flat.size > 1:
            second = float(np.partition(flat, 1)[1])
            if second - best < (TIE if tie is None else tie) * max(1.0, best):
                return None, "tie"
        i, j = int(ri[a // len(ci)]), int(ci[a % len(ci)])
        pid[j] = i
        acc[j] = acc[i] + A[i, j]
        nch[i] += 1
        conn[j] = True
    return pid, None


SIZE_CONFIGS = [
    # (class, bf, limit, exclude_soma, soma mode, sort) - rotated over the sizes so that every size meets the plain MST in both soma
    # modes and one balanced / limited configuration
    ("mst", 0.0, -1, True, "first", True),
    ("cuntz", 0.0, -1, True, "soma", False),
    ("cuntz", 0.5, -1, True, "first", True),
    ("cuntz", 0.2, 2, True, "soma", True),
    ("cuntz", 1.0, 3, False, "first", False),
]


def check_size(case, R):
    """Every cloud size over a range (block sizes, buffers and 'small input' paths fail in narrow bands of n)."""
    from swcgeom.transforms import PointsToCuntzMST, PointsToMST

    n, ci = int(case[0]), int(case[1])
    cls, bf, k, excl, mode, sort = SIZE_CONFIGS[ci]
    pts = cloud(n)
    R.state(n, ci)
    D = dist_matrix(pts)
    mst_len = kruskal_length(D) if bf == 0 and k == -1 else 0.0
    want, why = greedy_np(D, bf, k, excl)
    if want is None:
        R.skip(f"reference-{why}")
    arr = np.array(pts, dtype=np.float64)
    P, soma = (arr, None) if mode == "first" else (arr[1:], arr[0])
    what = f"{cls}(bf={bf}, furcations={k}, exclude_soma={excl}, sort={sort}) on the {n}-point cloud, soma {mode}"
    if cls == "mst":
        ok, t = R.impl("PointsToMST", lambda: PointsToMST(k, exclude_soma=excl, sort=sort)(P, soma))
    else:
        ok, t = R.impl("PointsToCuntzMST", lambda: PointsToCuntzMST(bf=bf, furcations=k, exclude_soma=excl, sort=sort)(P, soma))
    if ok:
        got = judge(R, what, "sizes", pts, D, t, bf, k, excl, want, mst_len)
        if got:
            R.outcome(ci, n // 32)


FAR_N = (5, 12, 40)
FAR_K = tuple(range(0, 19))
FAR_CONFIGS = [("mst", 0.0, -1, True, "first", "float32"), ("mst", 0.0, -1, True, "soma32", "float32"), ("cuntz", 0.5, -1, True, "first", "float32"),
               ("cuntz", 0.0, 2, True, "first", "float64"), ("cuntz", 1.0, 3, False, "soma32", "float32")]


def dyadic_cloud(n, k):
    """n distinct points with coordinates that are multiples of 1/32 inside a 30-unit box, shifted by (2^k, -2^k, 2^k): exact in
    float32 for k <= 18, so the cloud is congruent to the unshifted one."""
    g = _lcg(9000 + n)
    pts, seen = [], set()
    while len(pts) < n:
        q = tuple(round(next(g) * 30 * 32) / 32 for _ in range(3))
        if q not in seen:
            seen.add(q)
            pts.append(q)
    off = (2.0 ** k, -(2.0 ** k), 2.0 ** k)
    out = [tuple(c + d for c, d in zip(q, off)) for q in pts]
    for q in out:
        assert all(float(np.float32(c)) == c for c in q), "harness: far cloud is not exact in float32"
    return out


def check_far(case, R):
    """Single-precision clouds far from the origin (exactly representable): the tree is judged on the exact point positions."""
    from swcgeom.transforms import PointsToCuntzMST, PointsToMST

    n, k, ci = int(case[0]), int(case[1]), int(case[2])
    cls, bf, lim, excl, mode, dt = FAR_CONFIGS[ci]
    pts = dyadic_cloud(n, k)
    R.state(n, k, ci)
    D = dist_matrix(pts)
    mst_len = kruskal_length(D) if bf == 0 and lim == -1 else 0.0
    want, why = greedy_np(D, bf, lim, excl, tie=1e-4)  # a float32 evaluation may resolve closer calls either way
    if want is None:
        R.skip(f"reference-{why}")
    arr = np.array(pts, dtype=np.float32 if dt == "float32" else np.float64)
    P, soma = (arr, None) if mode == "first" else (arr[1:], arr[0].copy())
    what = f"{cls}(bf={bf}, furcations={lim}, exclude_soma={excl}) on {n} {dt} points around (2^{k}, -2^{k}, 2^{k}), soma {mode}"
    if cls == "mst":
        ok, t = R.impl("PointsToMST", lambda: PointsToMST(lim, exclude_soma=excl)(P, soma))
    else:
        ok, t = R.impl("PointsToCuntzMST", lambda: PointsToCuntzMST(bf=bf, furcations=lim, exclude_soma=excl)(P, soma))
    if ok:
        got = judge(R, what, "far", pts, D, t, bf, lim, excl, want, mst_len, rel=1e-5)
        if got:
            R.outcome(ci, n, k >= 10)


# ------------------------------------------------------------------ spellings of the same request


INT_BANK = [(6, 11, 2), (13, 8, 2), (3, 10, 6), (7, 9, 11), (11, 8, 11), (12, 1, 3), (0, 9, 9)]  # integer ("voxel") coordinates, non-negative
INT_SOMA = (0.5, -0.25, 1.75)  # a soma that is not on the integer lattice
SPELLINGS_MST = ("positional", "keyword", "k_furcations (deprecated alias)", "attributes assigned after construction")
SPELLINGS_CUNTZ = ("keyword", "attributes assigned after construction", "names passed at the call (deprecated)")
CONTAINERS = ("float64", "float32", "list of lists", "fortran-ordered", "read-only", "int64 cloud + fractional soma", "int32 cloud + fractional soma",
              "uint8 cloud + fractional soma", "float32 cloud (voxel coordinates) + fractional soma", "float32 cloud (voxel coordinates), first point is the soma")
UNIT_EXPS = (-16, -10, 10)  # the bank in other length units (x 2^e): the rule is scale-free, the tree must be the same


def _int_bank_ok():
    pts = [INT_SOMA] + list(INT_BANK)
    ds = sorted(math.dist(a, b) for a, b in itertools.combinations(pts, 2))
    return all(b - a >= 1e-4 for a, b in zip(ds, ds[1:])) and ds[0] > 0.3


def _make_mst(PointsToMST, spelling, k, excl, sort):
    import warnings

    if spelling == SPELLINGS_MST[0]:
        return PointsToMST(k, exclude_soma=excl, sort=sort)
    if spelling == SPELLINGS_MST[1]:
        return PointsToMST(furcations=k, exclude_soma=excl, sort=sort)
    if spelling == SPELLINGS_MST[2]:
        with warnings.catch_warnings():
            warnings.simplefilter("ignore")
            return PointsToMST(k_furcations=k, exclude_soma=excl, sort=sort)
    t = PointsToMST()
    t.furcations, t.exclude_soma, t.sort = k, excl, sort
    return t


def _make_cuntz(PointsToCuntzMST, spelling, bf, k, excl, sort):
    if spelling == SPELLINGS_CUNTZ[1]:
        t = PointsToCuntzMST()
        t.bf, t.furcations, t.exclude_soma, t.sort = bf, k, excl, sort
        return t
    return PointsToCuntzMST(bf=bf, furcations=k, exclude_soma=excl, sort=sort)


def check_spellings(case, R):
    """The same request written in every way the API offers (positional / keyword / deprecated alias / public attributes set after
    construction / names given at the call) and the same cloud handed over in every container (dtype, layout, list, read-only,
    integer voxel coordinates with a fractional soma): the tree must be the one the rule defines, whatever the spelling."""
    import warnings

    from swcgeom.core import swc
    from swcgeom.transforms import PointsToCuntzMST, PointsToMST

    kind, sub = case[0], list(case[1])
    R.state(kind, sub, case[2] if len(case) > 2 else None)
    if kind == "int":
        base = [INT_BANK[i] for i in sub]  # non-negative so that unsigned containers can carry them
        pts = [INT_SOMA] + base
        containers = [c for c in CONTAINERS if "cloud" in c and not c.endswith("first point is the soma")]
    elif kind == "int-nosoma":
        pts = [INT_BANK[i] for i in sub]
        containers = [CONTAINERS[-1]]
    elif kind == "unit":
        B = bank(0)
        f_ = 2.0 ** int(case[2])
        pts = [tuple(c_ * f_ for c_ in B[i]) for i in sub]
        containers = ["float64"]
    else:
        B = bank(0)
        pts = [B[i] for i in sub]
        containers = [c for c in CONTAINERS if "cloud" not in c]
    n = len(pts)
    D = dist_matrix(pts)
    mst_len = kruskal_length(D)

    def inputs(cont, mode):
        if kind in ("int", "int-nosoma"):
            dt = {"int64": np.int64, "int32": np.int32, "uint8": np.uint8, "float32": np.float32}[cont.split()[0]]
            if cont.endswith("first point is the soma"):
                return np.array(pts, dtype=np.float64).astype(dt), None
            return np.array(pts[1:], dtype=np.float64).astype(dt), np.array(pts[0], dtype=np.float64)
        arr = np.array(pts, dtype=np.float64)
        P, soma = (arr.copy(), None) if mode == "first" else (arr[1:].copy(), arr[0].copy())
        if cont == "float32":
            # float32 input: the points ARE their float32 values; the reference below is computed on them
            P = P.astype(np.float32)
        elif cont == "list of lists":
            P = np.array(P.tolist())  # annotated NDArray: a list is converted by the caller
            soma = None if soma is None else soma.tolist()
        elif cont == "fortran-ordered":
            P = np.asfortranarray(P)
        elif cont == "read-only":
            P.setflags(write=False)
            if soma is not None:
                soma.setflags(write=False)
        return P, soma

    for bf in (0.0, 0.5):
        for k in LIMITS:
            for excl in (True, False):
                want, why = greedy(D, bf, k, excl)
                if want is None:
                    R.skip(f"reference-{why}")
                    continue
                for sort in (True, False):
                    for mode in (("soma",) if kind == "int" else ("first",) if kind == "int-nosoma" else ("first", "soma")):
                        for cont in containers:
                            if cont == "float32":
                                continue  # distances of float32-rounded points differ from the bank's: covered by far-float32-clouds
                            for sp in SPELLINGS_CUNTZ:
                                P, soma = inputs(cont, mode)
                                what = f"PointsToCuntzMST[{sp}](bf={bf}, furcations={k}, exclude_soma={excl}, sort={sort}) on {cont}, soma {mode}"

                                def run(sp=sp, P=P, soma=soma):
                                    t = _make_cuntz(PointsToCuntzMST, sp, bf, k, excl, sort)
                                    if sp == SPELLINGS_CUNTZ[2]:
                                        with warnings.catch_warnings():
                                            warnings.simplefilter("ignore")
                                            return t(P, soma, names=swc.get_names())
                                    return t(P, soma)

                                ok, t = R.impl("PointsToCuntzMST", run)
                                if ok:
                                    got = judge(R, what, f"spelling:cuntz:{sp}:{'int-cloud' if kind.startswith('int') else cont}", pts, D, t, bf, k, excl, want, mst_len)
                                    R.outcome(sp, cont, tuple(got) if got else None)
                                    # the caller goes on using its arrays (refills the point buffer): the tree keeps ITS points
                                    before_xyz = build.tags_xyz(t)
                                    for arr in (P, soma):
                                        if isinstance(arr, np.ndarray) and arr.flags.writeable:
                                            arr[...] = 0
                                    # NOT a violation: the statement speaks of the tree that is returned (it did contain every input point, judged
                                    # above); whether it keeps a view of the caller's array is left open - an independently written behaviour-
                                    # preserving rewrite (seeded/C17-n2) does. Recorded as a diagnostic only.
                                    if build.tags_xyz(t) != before_xyz:
                                        R.note("diagnostic: the returned tree shares storage with the caller's point array")
                            if bf == 0:
                                for sp in SPELLINGS_MST:
                                    P, soma = inputs(cont, mode)
                                    what = f"PointsToMST[{sp}](furcations={k}, exclude_soma={excl}, sort={sort}) on {cont}, soma {mode}"
                                    ok, t = R.impl("PointsToMST", lambda sp=sp, P=P, soma=soma: _make_mst(PointsToMST, sp, k, excl, sort)(P, soma))
                                    if ok:
                                        judge(R, what, f"spelling:mst:{sp}:{'int-cloud' if kind.startswith('int') else cont}", pts, D, t, 0.0, k, excl, want, mst_len)



def spaces(tier, seed):
    q = tier == "quick"
    m_hi = 5 if q else 6
    banks = (seed % 4,) if q else (0, 1, 2, 3)
    tg = "q" if q else "t"

    def gen_small():
        for m in range(1, m_hi):
            for bk in banks:
                for root in range(9):
                    others = [i for i in range(9) if i != root]
                    for sub in itertools.combinations(others, m):
                        yield (bk, root, sub, tg)

    hpool = history_pool()

    def gen_history():
        for bk in banks:
            for kind in HISTORY_INSTANCES:
                for a in hpool:
                    for b in hpool:
                        yield (bk, kind, (a, b))
            if not q:
                small = [c for c in hpool if len(c[1]) <= 2]
                for kind in HISTORY_INSTANCES:
                    for tr in itertools.product(small, repeat=3):
                        yield (bk, kind, tr)

    size_hi = 300 if q else 600
    windows = [] if q else [w for m in (3, 4) for w in range(256 * m - 3, 256 * m + 4)]

    def gen_sizes():
        for n in list(range(2, size_hi + 1)) + windows:
            for ci in range(len(SIZE_CONFIGS)):
                if n <= 140 or ci < 2 or (n + ci) % 3 == 0 or (n % 64) in (63, 0, 1, 2):
                    yield (n, ci)

    if not _int_bank_ok():
        raise RuntimeError("harness: the integer bank is not in general position")

    def gen_spellings():
        for m in (2, 3, 4) if q else (2, 3, 4, 5):
            for sub in itertools.combinations(range(7), m):
                yield ("float", sub)
            for sub in itertools.combinations(range(len(INT_BANK)), m - 1):
                yield ("int", sub)
            for sub in itertools.combinations(range(len(INT_BANK)), m):
                yield ("int-nosoma", sub)
            for e in UNIT_EXPS:
                for sub in itertools.combinations(range(7), m):
                    yield ("unit", sub, e)

    return [
        Space.of("spellings", gen_spellings, check_spellings,
                 bounds={"mst_spellings": list(SPELLINGS_MST), "cuntz_spellings": list(SPELLINGS_CUNTZ), "containers": list(CONTAINERS),
                         "clouds": "every subset of 2..4 (thorough: 5) of the first 7 bank points; every subset of 1..3 (4) points of a 7-point integer bank "
                                   "with a fractional soma", "bf": [0.0, 0.5], "furcations": list(LIMITS), "exclude_soma": [True, False], "sort": [True, False]}),
        Space.of("far-float32-clouds", lambda: ((n, k, ci) for n in (FAR_N if q else FAR_N + (100,)) for k in FAR_K for ci in range(len(FAR_CONFIGS))), check_far,
                 bounds={"points": list(FAR_N if q else FAR_N + (100,)), "placement": "(2^k, -2^k, 2^k), every k in 0..18; coordinates multiples of 1/32 (exact in float32)",
                         "configurations": [list(c) for c in FAR_CONFIGS]}),
        Space.of("sizes", gen_sizes, check_size, case_timeout=600.0,
                 bounds={"cloud_sizes": f"every n in 2..{size_hi}" + ("" if q else " and 765..771, 1021..1027"), "configurations": [list(c) for c in SIZE_CONFIGS],
                         "note": "both plain-MST configurations (soma first / soma given, i.e. n and n-1 input rows) at every size; the three balanced / limited "
                                 "ones at every size <= 140, around every multiple of 64, and every third size otherwise"}),
        Space.of("history", gen_history, check_history,
                 bounds={"banks": list(banks), "instances": list(HISTORY_INSTANCES), "pool": len(hpool),
                         "sequences": "every ordered pair (A, B) of pool clouds: A, B, A again, A edited in place" + ("" if q else "; every ordered triple of the clouds with <= 3 points")}),
        Space.of("cloud", lambda: list(CLOUD_CONFIGS_Q if q else CLOUD_CONFIGS_T), check_cloud,
                 bounds={"clouds": "deterministic LCG clouds in [0,10)^3, 3 decimals", "sizes": [60, 200] if q else [60, 120, 200, 400],
                         "configurations": len(CLOUD_CONFIGS_Q if q else CLOUD_CONFIGS_T)}),
        Space.of("small-clouds", gen_small, check_small,
                 bounds={"bank_points": 9, "banks": list(banks), "points_per_cloud": [2, m_hi], "bf": list(BFS_Q if q else BFS_T),
                         "furcations": list(LIMITS), "exclude_soma": [True, False], "soma": ["first point", "given separately"],
                         "sort": [True, False], "classes": ["PointsToCuntzMST", "PointsToMST (bf = 0 configurations)"],
                         "input_dtype": "float64"}),
    ]
