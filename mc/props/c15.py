"""C15 — Neurolucida ASC conversion is faithful to the document.

Documents are generated from an abstract syntax (the *body* grammar below); the reference node
table is produced by the generator itself while it writes the tokens, so the oracle never looks
at the library's lexer, parser or AST.

    document := "(" [colour] "(" label ")" body ")"
    body     := point+ [split]                      (points may be interleaved with colour markers)
    split    := "(" alt ("|" alt)+ ")"              2..4 alternatives
    alt      := <empty> | body
    point    := "(" x y z r ")"
    colour   := "(" "Color" name ")"
    comment  := ";" text-to-end-of-line             after a complete point / colour marker (inside the tree),
                                                    after the "(" of a split, after "|", after the ")" of a split

A body is the JSON value [k, split] with k >= 1 points and split = null or a list of alternatives,
each null (empty) or a body.
"""

from __future__ import annotations

import io
import os
import shutil
import tempfile
from functools import lru_cache

import numpy as np

from mc.kernel import Space, recursion_limit

PROPERTY = "C15"
RULE = (
    "grammar: every document of the body grammar (>=1 point then an optional split; alternatives empty in any position; nesting depth "
    "unbounded, i.e. up to the point count; 2-4 alternatives up to 4 points, 2-3 above) with at most P points (P=5 quick, 6 thorough) x 4 label "
    "spellings through from_stream, plus convert(path) and __call__(path) on a multi-line rendering, plus every character prefix of the "
    "<=3-point documents; truncations: every proper token prefix (incl. the empty document) of every grammar document, each distinct prefix "
    "once, in 2 whitespace styles; lexical (<=4 points): 5 whitespace styles, 12 number spellings rotated through every field of every point, "
    "every single insertion of a comment (3 texts) at every token gap and of a colour marker (2 spellings) at every admissible gap, every pair "
    "of insertions and a fully decorated rendering with all its character prefixes on <=3 points; corruptions: for every point of every "
    "document (<=4 quick, <=5 thorough): drop field k, replace field k by one of 3 non-numbers, drop ')', drop '('; long: chains of 1e3..1e4 "
    "points, 1500 points before / inside a split, staircases of 40..300 nested splits, and every <=3/4-point document with each run of points "
    "stretched x60 under a recursion limit lowered to +48 frames; sweeps: a branch of EVERY length 1..1200 at the default recursion limit "
    "(thorough: in 3 positions, and every 25 up to 5000) and every length 1..250 x 3 positions under the lowered limit, a 700-point document "
    "shifted by 0..71 leading blanks, staircases of every depth 1..200 (400) x 3 orientations, one split of every width 2..128; histories: every ordered pair / triple of conversions over a small alphabet of well-formed (both labels), "
    "truncated and corrupted documents x 3 API rotations with one shared converter instance, every result judged when returned, re-inspected "
    "after the later calls and tested for shared storage; every returned tree is additionally retained and re-inspected two cases later. "
    "Non-trivial = every case (each holds >= 1 point or is a truncation); distinct = distinct abstract document / prefix / call sequence."
)
ASSUMPTIONS = [
    "the reference table is emitted by the document generator (pure Python), independent of the library's lexer/parser/AST",
    "coordinates/radius are compared exactly after rounding the written decimal to float32 (the Tree's storage type); all base values are float32-exact",
    "the 4th field of a point is taken as the radius, as the statement says (no diameter halving)",
    "label Axon -> type 2, Dendrite -> type 3 (SWC convention, case-insensitive label)",
    "comment positions the parser rejects loudly (inside a point/label/colour marker, outside the tree, right after the label) are outside the "
    "alphabet: there the oracle only demands 'error or the unchanged table'; a 5-field point and CR-LF line ends are observed, not judged",
    "file APIs are exercised through real files in one private temporary directory per run (tmpfs when available), one file per worker process",
    "token prefixes are deduplicated by a chained 64-bit hash (PYTHONHASHSEED=0 set by ./check)",
]

LABELS = (("Axon", 2), ("Dendrite", 3), ("axon", 2), ("DENDRITE", 3))
STYLES = ("space", "min", "lines", "tabs", "wide")
SPELLINGS = (  # (text, value)
    ("1", 1.0), ("1.0", 1.0), ("-1.5", -1.5), ("+2", 2.0), ("1e1", 10.0), (".5", 0.5),
    ("-.5", -0.5), ("3.", 3.0), ("1E-2", 0.01), ("2.5e+2", 250.0), ("007", 7.0), ("-0", 0.0),
)
COMMENTS = ("; c\n", ";\n", ";(9 9 9 9)|( ) ;x\n")
COLOURS = (("(", "Color", "Red", ")"), ("(", "COLOR", "green", ")"))
GARBAGE = ("x", "1x", "1,5")
WORD_DELIMS = "();|"

COMMENT_OK = {"pt-close", "split-open", "bar", "split-close", "colour-close"}
COLOUR_OK = {"top-open", "label-close", "pt-close", "split-open", "bar", "split-close", "colour-close"}

LOW_EXTRA = 48  # frames allowed above the harness frame inside the lowered-limit runs (measured need: 12 + nesting depth)
STRETCH = 60  # every run of points is multiplied by this in the lowered-limit runs (> LOW_EXTRA - 12)


# --------------------------------------------------------------------------- grammar


@lru_cache(None)
def bodies(p: int, nalts: tuple) -> tuple:
    """All bodies with exactly p >= 1 points."""
    out = []
    for k in range(1, p + 1):
        rest = p - k
        if rest == 0:
            out.append((k, None))
        for n in nalts:
            for sp in _alts(rest, n, nalts):
                out.append((k, sp))
    return tuple(out)


@lru_cache(None)
def _alts(p: int, nalt: int, nalts: tuple) -> tuple:
    """All tuples of `nalt` alternatives holding p points in total."""
    if nalt == 0:
        return ((),) if p == 0 else ()
    out = []
    for q in range(0, p + 1):
        firsts = (None,) if q == 0 else bodies(q, nalts)
        rests = _alts(p - q, nalt - 1, nalts)
        for f in firsts:
            for r in rests:
                out.append((f,) + r)
    return tuple(out)


def docs_upto(p_wide: int, p_max: int):
    """<= p_wide points: 2-4 alternatives; p_wide < points <= p_max: 2-3 alternatives.  Smallest first."""
    for p in range(1, p_max + 1):
        yield from bodies(p, (2, 3, 4) if p <= p_wide else (2, 3))


def depth_of(body) -> int:
    sp = body[1]
    if sp is None:
        return 0
    return 1 + max([depth_of(a) for a in sp if a is not None] or [0])


def features(body) -> str:
    """Coarse shape class used in klass names (so different defects get different classes)."""
    f = []

    def walk(b, d):
        sp = b[1]
        if sp is None:
            return
        if sp[0] is None and any(a is not None for a in sp[1:]):
            f.append("first-alt-empty")
        for j, a in enumerate(sp):
            if a is not None:
                if a[1] is not None and j < len(sp) - 1:
                    f.append("nested-split-then-alt")
                elif a[1] is not None:
                    f.append("nested-split")
                walk(a, d + 1)

    walk(body, 0)
    for name in ("first-alt-empty", "nested-split-then-alt", "nested-split"):
        if name in f:
            return name
    return "flat" if body[1] is None else "one-split"


# --------------------------------------------------------------------------- rendering


def base_point(i: int):
    """Distinct, float32-exact values per point and per field."""
    return ((str(i + 1), float(i + 1)), (f"{i}.5", i + 0.5), (f"-{i + 2}", -float(i + 2)), (repr(0.25 * (i + 1)), 0.25 * (i + 1)))


class Doc:
    __slots__ = ("toks", "cats", "rows", "points", "label", "typ")

    def __init__(self, body, label=LABELS[0], point=base_point):
        self.toks: list[str] = []
        self.cats: list[str] = []
        self.rows: list[tuple] = []  # (pid, x, y, z, r) in document order
        self.points: list[int] = []  # token index of each point's "("
        self.label, self.typ = label
        self._t("(", "top-open")
        self._t("(", "label-open")
        self._t(self.label, "label-word")
        self._t(")", "label-close")
        self._body(body, -1, point)
        self._t(")", "doc-close")

    def _t(self, s, cat):
        self.toks.append(s)
        self.cats.append(cat)

    def _body(self, body, parent, point):
        # explicit stack over (body, parent) frames would be needed only for nesting depth in the thousands
        k, sp = body[0], body[1]
        for _ in range(k):
            i = len(self.rows)
            f = point(i)
            self.points.append(len(self.toks))
            self._t("(", "pt-open")
            for j in range(4):
                self._t(f[j][0], f"pt-f{j + 1}")
            self._t(")", "pt-close")
            self.rows.append((parent, f[0][1], f[1][1], f[2][1], f[3][1]))
            parent = i
        if sp is not None:
            self._t("(", "split-open")
            for j, a in enumerate(sp):
                if j:
                    self._t("|", "bar")
                if a is not None:
                    self._body(a, parent, point)
            self._t(")", "split-close")


def _is_word(s: str) -> bool:
    return s[0] not in WORD_DELIMS


def join(lex: list[str], style: str = "space", inner=None) -> str:
    """Concatenate lexemes with the blanks of a whitespace style.

    `inner[i]` tells whether the gap after lexeme i lies inside a point / label / colour marker
    (only the 'lines' style cares).  A comment lexeme carries its own terminating newline.
    """
    if style == "space":
        return " ".join(lex)
    if style == "tabs":
        return "\t".join(lex)
    if style == "wide":
        return "\n  " + "  \t\n ".join(lex) + " \n\t"
    out = []
    if style == "min":
        for i, s in enumerate(lex):
            if i and _is_word(lex[i - 1]) and _is_word(s):
                out.append(" ")
            out.append(s)
        return "".join(out)
    if style == "lines":
        depth = 0
        for i, s in enumerate(lex):
            if i:
                if inner is not None and inner[i - 1]:
                    out.append(" ")
                elif lex[i - 1].endswith("\n"):
                    out.append("    " * depth)
                else:
                    out.append("\n" + "    " * depth)
            out.append(s)
            if s == "(":
                depth += 1
            elif s == ")":
                depth = max(0, depth - 1)
        return "".join(out) + "\n"
    raise ValueError(style)


INNER_CATS = {"label-open", "label-word", "pt-open", "pt-f1", "pt-f2", "pt-f3", "pt-f4", "colour-open", "colour-word", "colour-name"}


def lexemes(doc: Doc, inserts=None):
    """Tokens of the document with `inserts` = {gap index: [lexeme tuples]} spliced in.  Gap g lies after token g
    (g = -1: before the first token).  Returns (lexemes, inner flags)."""
    lex, inner = [], []
    inserts = inserts or {}

    def splice(g):
        for item in inserts.get(g, ()):
            if isinstance(item, str):  # comment
                lex.append(item)
                inner.append(False)
            else:  # colour marker
                for j, s in enumerate(item):
                    lex.append(s)
                    inner.append(j < len(item) - 1)

    splice(-1)
    for g, s in enumerate(doc.toks):
        lex.append(s)
        inner.append(doc.cats[g] in INNER_CATS)
        splice(g)
    return lex, inner


# --------------------------------------------------------------------------- observing the implementation


def f32(v: float) -> float:
    return float(np.float32(v))


def table_of(tree):
    return (
        [int(v) for v in tree.id().tolist()],
        [int(v) for v in tree.pid().tolist()],
        [int(v) for v in tree.type().tolist()],
        [float(v) for v in tree.x().tolist()],
        [float(v) for v in tree.y().tolist()],
        [float(v) for v in tree.z().tolist()],
        [float(v) for v in tree.r().tolist()],
    )


def expected(rows, typ):
    n = len(rows)
    return (
        list(range(n)),
        [r[0] for r in rows],
        [typ] * n,
        [f32(r[1]) for r in rows],
        [f32(r[2]) for r in rows],
        [f32(r[3]) for r in rows],
        [f32(r[4]) for r in rows],
    )


def _short(text: str, n: int = 300) -> str:
    return repr(text if len(text) <= n else text[: n // 2] + " ... " + text[-n // 2 :])


def diff_kind(got, want, tree) -> tuple[str, str]:
    names = ("ids", "parent", "type", "x", "y", "z", "r")
    n_attr = None
    try:
        n_attr = int(tree.number_of_nodes())
    except Exception as e:  # noqa: BLE001
        return "table:number_of_nodes", f"number_of_nodes() raised {e!r}"
    if len(got[0]) != len(want[0]) or n_attr != len(want[0]):
        return "table:node-count", f"{len(got[0])} nodes (number_of_nodes()={n_attr}), document has {len(want[0])} points; pids={got[1][:40]}"
    for nm, g, w in zip(names, got, want):
        if g != w:
            k = next(i for i, (a, b) in enumerate(zip(g, w)) if a != b)
            return f"table:{nm}", f"column {nm} differs first at node {k}: got {g[k]!r} want {w[k]!r}; got {g[:40]} want {w[:40]}"
    return "", ""


_CONVERTER = None
_TMP = {"dir": None, "pid": None}


def _tmpdir() -> str:
    """One private scratch directory per run: created by the process that builds the spaces (forked workers inherit it and
    write one file each, named by their pid); removed when that process exits."""
    if _TMP["dir"] is None or not os.path.isdir(_TMP["dir"]):
        import atexit

        shm = "/dev/shm"  # file-system calls on the scratch disk cost milliseconds under load; tmpfs when available
        d = tempfile.mkdtemp(prefix="c15_", dir=None if os.environ.get("TMPDIR") or not (os.path.isdir(shm) and os.access(shm, os.W_OK)) else shm)
        _TMP["dir"], _TMP["pid"] = d, os.getpid()
        atexit.register(lambda d=d, pid=os.getpid(): shutil.rmtree(d, ignore_errors=True) if os.getpid() == pid else None)
    return _TMP["dir"]


class Api:
    """The three ways in.  File APIs go through a real file in the run's scratch directory."""

    def close(self):
        pass

    def call(self, api: str, text: str):
        global _CONVERTER
        from swcgeom.transforms.neurolucida_asc import NeurolucidaAscToSwc

        if api == "from_stream":
            return NeurolucidaAscToSwc.from_stream(io.StringIO(text))
        path = os.path.join(_tmpdir(), f"doc_{os.getpid()}.asc")
        with open(path, "w", newline="") as f:
            f.write(text)
        if api == "convert":
            return NeurolucidaAscToSwc.convert(path)
        if api == "__call__":
            if _CONVERTER is None:
                _CONVERTER = NeurolucidaAscToSwc()  # one instance per worker process, reused by every case
            return _CONVERTER(path)
        raise ValueError(api)


def must_convert(R, api: Api, how: str, text: str, rows, typ, what: str, feat: str) -> bool:
    """A well-formed document: must convert, to exactly the reference table."""
    ok, tree = R.impl(how, api.call, how, text)
    if not ok:  # recorded by R.impl with klass raises:<api>:<exception>@<file>:<function>
        return False
    got, want = table_of(tree), expected(rows, typ)
    kind, why = diff_kind(got, want, tree)
    if kind:
        group = what.split(":")[0].split("@")[0]
        R.fail(kind, f"{what} via {how}: {why}\n document: {_short(text)}", f"{kind}:{group}:{feat}")
        return False
    return True


def must_reject(R, api: Api, how: str, text: str, what: str, klass: str) -> bool:
    """A truncated / corrupted document: any exception is fine, a returned tree is the violation."""
    ok, tree = R.attempt(api.call, how, text)
    if ok:
        try:
            n = tree.number_of_nodes()
            pids = [int(v) for v in tree.pid().tolist()][:40]
        except Exception:  # noqa: BLE001
            n, pids = "?", "?"
        R.fail("accepted:" + what, f"{what} accepted via {how}: returned a tree with {n} nodes, pids={pids}\n document: {_short(text)}", klass)
        return False
    _probe_after_fault(R, api, how, text, what)
    return True


_PROBE = None


def _probe_after_fault(R, api: Api, how: str, faulty: str, what: str) -> None:
    """History oracle: a conversion that failed must not disturb the next one.  After EVERY rejected document a fixed
    well-formed document (points before a split, an empty and a nested alternative) is converted through the same API."""
    global _PROBE
    if _PROBE is None:
        d = Doc((2, ((1, None), None, (1, ((1, None), (1, None))))), LABELS[1])
        _PROBE = (join(d.toks), d.rows, d.typ)
    text, rows, typ = _PROBE
    ok, tree = R.impl(how + "(after a rejected document)", api.call, how, text,
                      klass=f"raises:well-formed-document-after-rejected-one:{what.split(':')[0]}")
    if not ok:
        return
    kind, why = diff_kind(table_of(tree), expected(rows, typ), tree)
    if kind:
        R.fail(kind, f"well-formed document converted right after the rejected document {_short(faulty, 120)!r}: {why}",
               f"{kind}:after-rejected-document:{what.split(':')[0]}")


def may_reject(R, api: Api, how: str, text: str, rows, typ, what: str) -> None:
    """Outside the alphabet (e.g. a comment inside a point): an error is fine, so is the unchanged table;
    a *different* table is a silent mis-conversion."""
    ok, tree = R.attempt(api.call, how, text)
    if not ok:
        R.note(f"rejected:{what}")
        return
    R.note(f"tolerated:{what}")
    kind, why = diff_kind(table_of(tree), expected(rows, typ), tree)
    if kind:
        R.fail("changed:" + what, f"{what} accepted but changed the result: {why}\n document: {_short(text)}", f"changed:{what.split('@')[0]}:{kind}")


# --------------------------------------------------------------------------- space 1: grammar x labels x APIs x truncations


def check_grammar(case, R):
    body = case
    R.state(body)
    feat = features(body)
    api = Api()
    try:
        base = None
        for li, lab in enumerate(LABELS):
            d = Doc(body, lab)
            if base is None:
                base = d
            text = join(d.toks)
            must_convert(R, api, "from_stream", text, d.rows, d.typ, "document", feat)
        R.outcome([r[0] for r in base.rows])
        # file APIs, label rotating with the shape so that every label meets every API
        lab = LABELS[(len(base.toks) + len(base.rows)) % 4]
        d = Doc(body, lab)
        lex, inner = lexemes(d)
        for how, style in (("convert", "lines"), ("__call__", "wide")):
            must_convert(R, api, how, join(lex, style, inner), d.rows, d.typ, "document", feat)
            must_reject(R, api, how, join(lex[:-1], style, inner), "truncation", "accepted:truncation:tokens:" + ("after-split" if body[1] is not None else "flat"))
        # (token-prefix truncations of all documents: space "truncations", each distinct prefix once)
        toks = base.toks
        if len(base.rows) <= 3:
            for style in ("space", "min"):
                text = join(toks, style)
                for cut in range(len(text)):
                    must_reject(R, api, "from_stream", text[:cut], "truncation", "accepted:truncation:chars")
    finally:
        api.close()


# --------------------------------------------------------------------------- space 1b: every token-prefix truncation


def gen_truncations(p_wide: int, p_max: int):
    """Every proper token prefix (including the empty one) of every document of the grammar space, each distinct
    prefix once, in order of first appearance.  Prefixes are identified by a chained 64-bit hash of their tokens."""
    seen = set()
    for b in docs_upto(p_wide, p_max):
        toks = Doc(b).toks
        h = 0
        for c in range(len(toks)):
            if h not in seen:
                seen.add(h)
                yield " ".join(toks[:c])
            h = hash((h, toks[c]))


def check_truncation(case, R):
    text = case
    toks = text.split(" ") if text else []
    R.state(text)
    closed_split = any(t == ")" and toks[i - 1] in (")", "|", "(") for i, t in enumerate(toks) if i)
    depth = toks.count("(") - toks.count(")")
    R.outcome(depth, closed_split, toks[-1][0] in WORD_DELIMS if toks else None)
    api = Api()
    klass = "accepted:truncation:tokens:" + ("after-split" if closed_split else "flat")
    must_reject(R, api, "from_stream", text, "truncation", klass)
    must_reject(R, api, "from_stream", join(toks, "min"), "truncation", klass)


# --------------------------------------------------------------------------- space 2: lexical layer


def spelled_point(shift: int):
    def point(i):
        return tuple(SPELLINGS[(shift + 5 * i + j) % len(SPELLINGS)] for j in range(4))

    return point


def decorated(doc: Doc):
    """Every admissible comment position filled, a colour marker before the tree and one after the label."""
    ins = {}
    for g, c in enumerate(doc.cats):
        if c in COMMENT_OK:
            ins[g] = [COMMENTS[g % len(COMMENTS)]]
    ins[0] = [COLOURS[0]]
    ins[3] = [COLOURS[1], COMMENTS[0]]
    return ins


def check_lexical(case, R):
    body = case
    R.state(body)
    feat = features(body)
    api = Api()
    npts = None
    try:
        d = Doc(body, LABELS[(body[0] + depth_of(body)) % 4])
        npts = len(d.rows)
        R.outcome([r[0] for r in d.rows])
        styles = STYLES if os.environ.get("VERIF_TIER") == "thorough" else ("space", "min")
        # whitespace styles
        lex, inner = lexemes(d)
        for style in STYLES:
            must_convert(R, api, "from_stream", join(lex, style, inner), d.rows, d.typ, f"whitespace:{style}", feat)
        # CR-LF line ends: '\r' is not a blank for the lexer; observed only
        may_reject(R, api, "from_stream", join(lex, "lines", inner).replace("\n", "\r\n"), d.rows, d.typ, "crlf")
        # ... but a FILE with CR-LF (Windows) or bare CR line ends is ordinary text: the file entry points read it like any other
        must_convert(R, api, "convert", join(lex, "lines", inner).replace("\n", "\r\n"), d.rows, d.typ, "file:crlf", feat)
        must_convert(R, api, "__call__", join(lex, "lines", inner).replace("\n", "\r\n"), d.rows, d.typ, "file:crlf", feat)
        must_convert(R, api, "convert", join(lex, "lines", inner).replace("\n", "\r"), d.rows, d.typ, "file:cr", feat)
        # number spellings: every spelling reaches every field of every point
        for shift in range(len(SPELLINGS)):
            ds = Doc(body, (d.label, d.typ), spelled_point(shift))
            must_convert(R, api, "from_stream", join(ds.toks, STYLES[shift % len(STYLES)], [c in INNER_CATS for c in ds.cats]),
                         ds.rows, ds.typ, "numbers", feat)
        # single insertions at every gap
        gaps = range(-1, len(d.toks))
        for g in gaps:
            cat = "pre" if g < 0 else d.cats[g]
            for ci, c in enumerate(COMMENTS):
                lex, inner = lexemes(d, {g: [c]})
                for style in styles:
                    text = join(lex, style, inner)
                    if cat in COMMENT_OK:
                        must_convert(R, api, "from_stream", text, d.rows, d.typ, f"comment@{cat}", feat)
                    else:
                        may_reject(R, api, "from_stream", text, d.rows, d.typ, f"comment@{cat}")
            if cat in COLOUR_OK:
                for col in COLOURS:
                    lex, inner = lexemes(d, {g: [col]})
                    for style in styles:
                        must_convert(R, api, "from_stream", join(lex, style, inner), d.rows, d.typ, f"colour@{cat}", feat)
        if npts <= 3:
            # every pair of insertions (same gap: both orders), one comment text and one colour spelling
            ok_gaps = [g for g in range(len(d.toks)) if d.cats[g] in COMMENT_OK or d.cats[g] in COLOUR_OK]
            items = (COMMENTS[0], COLOURS[0])
            for a, g1 in enumerate(ok_gaps):
                for g2 in ok_gaps[a:]:
                    for i1 in items:
                        for i2 in items:
                            c1, c2 = d.cats[g1], d.cats[g2]
                            if g1 == g2:
                                ins = {g1: [i1, i2]}
                                # the second item follows the first: a comment right after a colour marker that sits
                                # before the tree or after the label is at top level / follows the label
                                c2 = "colour-close" if not isinstance(i1, str) else c1
                                if not isinstance(i1, str) and c1 == "top-open":
                                    c2 = "top-colour-close"
                            else:
                                ins = {g1: [i1], g2: [i2]}
                            adm = all((cat in COMMENT_OK) if isinstance(it, str) else (cat in COLOUR_OK) for it, cat in ((i1, c1), (i2, c2)))
                            if not adm and not all((cat in COMMENT_OK | COLOUR_OK | {"top-colour-close"}) for cat in (c1, c2)):
                                continue
                            lex, inner = lexemes(d, ins)
                            text = join(lex, "lines" if (g1 + g2) % 2 else "min", inner)
                            if adm:
                                must_convert(R, api, "from_stream", text, d.rows, d.typ, "pair", feat)
                            else:
                                may_reject(R, api, "from_stream", text, d.rows, d.typ, "pair-with-comment-outside-alphabet")
            # fully decorated rendering, through all APIs, and every character prefix of it
            lex, inner = lexemes(d, decorated(d))
            for style in ("lines", "min"):
                text = join(lex, style, inner)
                for how in ("from_stream", "convert", "__call__"):
                    must_convert(R, api, how, text, d.rows, d.typ, "decorated", feat)
                end = text.rindex(")")
                for cut in range(end + 1):
                    must_reject(R, api, "from_stream", text[:cut], "truncation", "accepted:truncation:chars:decorated")
                # trailing comment after the document (with and without a final newline): observed
                may_reject(R, api, "from_stream", text[: end + 1] + " ; End of tree", d.rows, d.typ, "comment@doc-close:eof")
    finally:
        api.close()


# --------------------------------------------------------------------------- space 3: single-point corruptions


def corruptions(doc: Doc, j: int):
    """(kind, tokens, judged) for every corruption of point j."""
    o = doc.points[j]
    t = doc.toks
    for f in range(1, 5):
        yield f"drop-field{f}", t[: o + f] + t[o + f + 1 :], True
        for g in GARBAGE:
            yield f"garbage-field{f}:{g}", t[: o + f] + [g] + t[o + f + 1 :], True
    yield "drop-close", t[: o + 5] + t[o + 6 :], True
    yield "drop-open", t[:o] + t[o + 1 :], True
    for f in range(1, 6):
        yield f"add-field@{f}", t[: o + f] + ["7"] + t[o + f :], False


def check_corrupt(case, R):
    body = case
    R.state(body)
    api = Api()
    try:
        d = Doc(body, LABELS[(body[0] + depth_of(body)) % 4])
        for j in range(len(d.rows)):
            pos = "first" if j == 0 else ("alt-first" if d.cats[d.points[j] - 1] in ("split-open", "bar") else "inner")
            for kind, toks, judged in corruptions(d, j):
                text = join(toks, "space" if j % 2 == 0 else "min")
                if judged:
                    if must_reject(R, api, "from_stream", text, "corruption:" + kind, f"accepted:corruption:{kind.split(':')[0].rstrip('1234')}:{pos}"):
                        R.outcome(kind, "rejected")
                else:
                    ok, _ = R.attempt(api.call, "from_stream", text)
                    R.note(f"{'tolerated' if ok else 'rejected'}:add-field")
    finally:
        api.close()


# --------------------------------------------------------------------------- space 4: long branches, deep nesting, lowered recursion limit


def staircase(depth: int, pos: int = 1, width: int = 1):
    """`depth` nested splits; at every level: `width` points, then a split of three alternatives: the next level at
    position `pos`, a single point and an empty alternative in the other two positions."""
    body = (width, None)
    for _ in range(depth):
        alts = [(1, None), None]
        alts.insert(pos, body)
        body = (width, tuple(alts))
    return body


def fan(n: int):
    """One split with n alternatives: 1 point, empty, 2 points, 1 point, empty, ..."""
    return (2, tuple((None if j % 3 == 1 else ((2 if j % 3 == 2 else 1), None)) for j in range(n)))


STAIR_POS = {"staircase-first": 0, "staircase": 1, "staircase-last": 2}


def stretch(body, f: int):
    return (body[0] * f, None if body[1] is None else tuple(None if a is None else stretch(a, f) for a in body[1]))


def long_cases(tier):
    yield ("chain", 1000)
    yield ("chain", 1500)
    yield ("chain", 3000)
    yield ("before-split", 1500)
    yield ("in-alternative", 1500)
    yield ("staircase", 40)
    for kind in STAIR_POS:
        yield (kind, 150)
    yield ("fan", 5)
    yield ("fan", 200)
    if tier == "thorough":
        yield ("chain", 10000)
        yield ("before-split", 6000)
        for kind in STAIR_POS:
            yield (kind, 300)
        yield ("fan", 2000)
    hi = 3 if tier == "quick" else 4
    for b in docs_upto(0, hi):
        yield ("low-limit", b)


def long_body(kind, n):
    if kind == "chain":
        return (n, None)
    if kind == "before-split":
        return (n, ((n // 3, None), None, (n // 3, ((2, None), (1, None)))))
    if kind == "in-alternative":
        return (2, (None, (n, ((n, None), (3, None))), (1, None)))
    if kind in STAIR_POS:
        return staircase(n, STAIR_POS[kind])
    if kind == "fan":
        return fan(n)
    raise ValueError(kind)


def check_long(case, R):
    kind, arg = case[0], case[1]
    api = Api()
    try:
        if kind == "low-limit":
            body = stretch(arg, STRETCH)
            d = Doc(body, LABELS[1])
            text = join(d.toks)
            R.state("low", arg)
            R.outcome(len(d.rows), depth_of(body))
            R.attempt(api.call, "from_stream", "( (Axon) (1 2 3 4) ( (1 2 3 4) | ) )")  # lazy imports done before the limit drops
            with recursion_limit(LOW_EXTRA):
                ok, tree = R.impl("from_stream(low recursion limit)", api.call, "from_stream", text)
            if ok:
                kd, why = diff_kind(table_of(tree), expected(d.rows, d.typ), tree)
                if kd:
                    R.fail(kd, f"stretched document under lowered recursion limit: {why}", f"{kd}:low-limit")
            return
        body = long_body(kind, arg)
        d = Doc(body, LABELS[0] if kind not in STAIR_POS else LABELS[1])
        R.state(kind, arg)
        R.outcome(kind, len(d.rows))
        lex, inner = lexemes(d)
        for how, style in (("from_stream", "space"), ("convert", "lines"), ("__call__", "min")):
            must_convert(R, api, how, join(lex, style, inner), d.rows, d.typ, f"long:{kind}", "long")
        must_reject(R, api, "from_stream", join(d.toks[:-1]), "truncation", f"accepted:truncation:long:{kind}")
        n = len(d.rows)
        for j in sorted({0, n // 2, n - 1}):
            for ckind, toks, judged in corruptions(d, j):
                if judged and ckind in ("drop-field4", "garbage-field2:x", "drop-close", "drop-open"):
                    must_reject(R, api, "from_stream", join(toks), "corruption:" + ckind, f"accepted:corruption:long:{ckind.split(':')[0]}")
    finally:
        api.close()


# --------------------------------------------------------------------------- space 5: call histories


APIS = ("from_stream", "__call__", "convert")


def npoints(body) -> int:
    return body[0] + sum(npoints(a) for a in (body[1] or ()) if a is not None)


def history_alphabet(pts_ok: int, pts_faulty: int, nalts=(2, 3)):
    """Items (kind, body, label index): well-formed documents under both labels, and two faulty renderings."""
    items = []
    for p in range(1, pts_ok + 1):
        for b in bodies(p, nalts):
            items.append(("ok", b, 0))
            items.append(("ok", b, 1))
            if p <= pts_faulty:
                items.append(("truncated", b, 0))
                items.append(("corrupted", b, 1))
    return items


def gen_histories(tier):
    if tier == "quick":
        pair_items, tri_items = history_alphabet(2, 2, (2,)), history_alphabet(1, 1, (2,))
    else:
        pair_items, tri_items = history_alphabet(2, 2), history_alphabet(2, 1, (2,))
    for rot in range(3):
        for a in pair_items:
            for b in pair_items:
                yield (rot, (a, b))
    for rot in range(3):
        for a in tri_items:
            for b in tri_items:
                for c in tri_items:
                    yield (rot, (a, b, c))


def check_history(case, R):
    """Conversions one after the other in one process (shared converter instance for __call__): every result is
    judged when returned AND re-inspected after all later calls; results must not share storage; a failed
    conversion must not disturb the next one."""
    from mc import build

    rot, seq = case[0], case[1]
    R.state(case)
    api = Api()
    live = []
    try:
        for k, item in enumerate(seq):
            kind, body, li = item[0], item[1], item[2]
            how = APIS[(k + rot) % 3]
            d = Doc(body, LABELS[li])
            if kind == "ok":
                ok, tree = R.impl(how, api.call, how, join(d.toks))
                if not ok:
                    continue
                kd, why = diff_kind(table_of(tree), expected(d.rows, d.typ), tree)
                if kd:
                    R.fail(kd, f"call {k + 1} of {len(seq)} ({how}) after {[s[0] for s in seq[:k]]}: {why}\n document: {_short(join(d.toks))}",
                           f"{kd}:history:" + ("first-call" if k == 0 else "after-" + seq[k - 1][0]))
                else:
                    live.append((k, d, tree))
            elif kind == "truncated":
                must_reject(R, api, how, join(d.toks[:-1]), "truncation", "accepted:truncation:history")
            else:
                o = d.points[-1]
                must_reject(R, api, how, join(d.toks[: o + 2] + ["x"] + d.toks[o + 3 :]), "corruption:garbage-field2", "accepted:corruption:history")
        R.outcome([s[0] for s in seq], len(live))
        for k, d, tree in live[:-1]:
            kd, why = diff_kind(table_of(tree), expected(d.rows, d.typ), tree)
            if kd:
                R.fail("history:" + kd, f"result of call {k + 1} changed after the later calls: {why}", f"history:result-changed-by-later-call:{kd}")
        for i in range(len(live)):
            for j in range(i + 1, len(live)):
                why = build.independent(live[i][2], live[j][2])
                R.check(not why, "history:shared-storage", lambda: f"results of calls {live[i][0] + 1} and {live[j][0] + 1}: {why}")
    finally:
        api.close()


# --------------------------------------------------------------------------- space 6: size sweeps


def gen_sweeps(tier):
    """Every branch length over a range that crosses the recursion limit (default and lowered), the long run placed
    in three positions; every alignment of a long document against power-of-two read boundaries."""
    top = 1200
    for n in range(1, top + 1):
        yield ("chain", n, 0)
    if tier == "thorough":
        for n in range(top + 25, 5001, 25):
            yield ("chain", n, 0)
        for n in range(1, top + 1):
            yield ("before-split", n, 0)
            yield ("in-alternative", n, 0)
    else:
        for n in range(900, top + 1, 10):
            yield ("before-split", n, 0)
            yield ("in-alternative", n, 0)
    for n in range(1, 251):
        for shape in ("chain", "before-split", "in-alternative"):
            yield (shape, n, 1)
    for n in range(1, 201 if tier == "quick" else 401):
        for kind in STAIR_POS:
            yield (kind, n, 0)
    for n in range(2, 129):
        yield ("fan", n, 0)
    for pad in range(0, 72):
        yield ("pad", pad, 0)
    for pad in range(0, 72):
        yield ("pad-comments", pad, 0)
        yield ("pad-comments-lines", pad, 0)


def sweep_body(shape, n):
    if shape == "chain":
        return (n, None)
    if shape == "before-split":
        return (n, ((1, None), None, (2, None)))
    if shape == "in-alternative":
        return (1, (None, (n, ((1, None), (1, None))), (1, None)))
    if shape in STAIR_POS:
        return staircase(n, STAIR_POS[shape])
    if shape == "fan":
        return fan(n)
    raise ValueError(shape)


def check_sweep(case, R):
    shape, n, low = case[0], case[1], case[2]
    R.state(case)
    api = Api()
    if shape == "pad":
        d = Doc((700, None), LABELS[0])
        text = " " * n + join(d.toks, "min")
        for how in ("from_stream", "convert"):
            must_convert(R, api, how, text, d.rows, d.typ, "sweep:pad", "long")
        api.close()
        R.outcome("pad", len(text) // 4096)
        return
    if shape.startswith("pad-comments"):
        # a comment (whose text looks like document text) after every point, a colour marker now and then: every alignment of
        # comments, numbers and brackets against any read boundary up to the document length
        d = Doc((450, ((120, None), (130, None))), LABELS[0])
        ins = {}
        for j, o in enumerate(d.points):
            ins[o + 5] = [COMMENTS[2] if j % 3 else "; (1 2 3 4) ( (5 6 7 8) | (9 9 9 9) ) tail of a long comment line\n"] + ([COLOURS[0]] if j % 50 == 7 else [])
        lex, inner = lexemes(d, ins)
        text = " " * n + join(lex, "lines" if shape.endswith("lines") else "min", inner)
        for how in ("from_stream", "convert"):
            must_convert(R, api, how, text, d.rows, d.typ, "sweep:pad-comments", "long")
        api.close()
        R.outcome(shape, len(text) // 4096)
        return
    d = Doc(sweep_body(shape, n), LABELS[n % 4])
    text = join(d.toks)
    R.outcome(shape, low, n // 100)
    if low:
        R.attempt(api.call, "from_stream", "( (Axon) (1 2 3 4) ( (1 2 3 4) | ) )")
        with recursion_limit(LOW_EXTRA):
            ok, tree = R.impl("from_stream(low recursion limit)", api.call, "from_stream", text)
        if ok:
            kd, why = diff_kind(table_of(tree), expected(d.rows, d.typ), tree)
            if kd:
                R.fail(kd, f"{shape} of {n} points under lowered recursion limit: {why}", f"{kd}:sweep:low-limit")
    else:
        must_convert(R, api, "from_stream", text, d.rows, d.typ, f"sweep:{shape}", "long")


# --------------------------------------------------------------------------- space 7: points that repeat their parent


def gen_repeats(p_max: int):
    for b in docs_upto(0, p_max):
        n = npoints(b)
        for mask in range(1, 1 << (n - 1)) if n > 1 else ():
            for mode in ("all", "xyz", "r"):
                yield (b, mask, mode)


def check_repeats(case, R):
    """Points whose coordinates and/or radius repeat those of their parent point verbatim (a point written twice in a branch, an
    alternative starting at the split point): still exactly one node per point, in document order, attached as written."""
    body, mask, mode = case[0], int(case[1]), case[2]
    R.state(case)
    plain = Doc(body)
    parents = [r[0] for r in plain.rows]
    memo = {}

    def point(i):
        if i not in memo:
            f = base_point(i)
            if i > 0 and (mask >> (i - 1)) & 1:
                pf = point(parents[i])
                f = {"all": pf, "xyz": (pf[0], pf[1], pf[2], f[3]), "r": (f[0], f[1], f[2], pf[3])}[mode]
            memo[i] = f
        return memo[i]

    d = Doc(body, LABELS[(mask + len(parents)) % 4], point=point)
    api = Api()
    try:
        feat = "repeats-parent:" + mode
        must_convert(R, api, "from_stream", join(d.toks), d.rows, d.typ, "repeated-point", feat)
        must_convert(R, api, "convert", join(*lexemes(d)[:1], "min"), d.rows, d.typ, "repeated-point", feat)
        R.outcome(mode, bin(mask).count("1"), len(parents))
    finally:
        api.close()


# --------------------------------------------------------------------------- spaces


def spaces(tier, seed):
    if tier == "quick":
        g_wide, g_max, lex_wide, lex_max, cor_max = 4, 5, 0, 4, 4
    else:
        g_wide, g_max, lex_wide, lex_max, cor_max = 4, 6, 3, 4, 5
    alts = "2-4 alternatives up to {} points, 2-3 up to {}"
    _tmpdir()  # before the workers fork
    out = [
        Space.of("grammar", lambda: docs_upto(g_wide, g_max), check_grammar,
                 bounds={"points": g_max, "alternatives": alts.format(g_wide, g_max), "nesting_depth": "unbounded (<= points)",
                         "labels": [l for l, _ in LABELS], "apis": ["from_stream", "convert", "__call__"],
                         "truncations": "missing final ')' through the file APIs; every character prefix for <= 3 points (styles space, min); "
                         "token prefixes: space 'truncations'"}),
        Space.of("truncations", lambda: gen_truncations(g_wide, g_max), check_truncation,
                 bounds={"documents": "those of space 'grammar'", "prefixes": "every proper token prefix incl. the empty document, each distinct prefix once",
                         "styles": ["space", "min"]}),
        Space.of("lexical", lambda: docs_upto(lex_wide, lex_max), check_lexical,
                 bounds={"points": lex_max, "alternatives": alts.format(lex_wide, lex_max), "styles": list(STYLES),
                         "insertion_styles": list(STYLES) if tier == "thorough" else ["space", "min"],
                         "spellings": [s for s, _ in SPELLINGS], "comments": list(COMMENTS), "colours": [" ".join(c) for c in COLOURS],
                         "pairs_and_decorated": "<= 3 points"}),
        Space.of("corruptions", lambda: docs_upto(0, cor_max), check_corrupt,
                 bounds={"points": cor_max, "alternatives": "2-3", "per_point": "drop field 1-4, 3 non-numbers x field 1-4, drop ')', drop '('; "
                         "extra 5th field observed only"}),
        Space.of("long", lambda: long_cases(tier), check_long,
                 bounds={"chains": [1000, 1500, 3000] + ([10000] if tier == "thorough" else []), "staircase_depths": [40, 150] + ([300] if tier == "thorough" else []), "staircase_descends_in": "first / middle / last alternative",
                         "fan_alternatives": [5, 200] + ([2000] if tier == "thorough" else []),
                         "low_limit": {"extra_frames": LOW_EXTRA, "stretch": STRETCH, "documents_up_to_points": 3 if tier == "quick" else 4}},
                 case_timeout=300.0),
        Space.of("histories", lambda: gen_histories(tier), check_history,
                 bounds={"pairs": "all ordered pairs over {documents <= 2 points, " + ("2" if tier == "quick" else "2-3") + " alternatives} x {Axon ok, Dendrite ok, truncated, corrupted}",
                         "triples": "all ordered triples over {documents <= 1 point, 2 alternatives} x 4 kinds" if tier == "quick" else
                         "all ordered triples over {documents <= 2 points, 2 alternatives} x 2 labels + {documents <= 1 point} x 2 faults",
                         "api_of_call_k": "APIS[(k + rot) % 3], rot in 0..2"}),
        Space.of("sweeps", lambda: gen_sweeps(tier), check_sweep,
                 bounds={"default_limit": "chain: every length 1..1200" + (" and every 25 up to 5000; before-split / in-alternative: every length 1..1200"
                                                                          if tier == "thorough" else "; before-split / in-alternative: every 10 in 900..1200"),
                         "lowered_limit": f"+{LOW_EXTRA} frames: every length 1..250 x 3 positions", "pad": "700-point chain, 0..71 leading blanks (crosses 4096/8192/16384); the same shifts of a 700-point document with a split that carries a "
                                "comment after every point (comment text looks like document text) in the min and lines styles",
                         "nesting": "staircases of every depth 1.." + ("200" if tier == "quick" else "400") + " descending in the first / middle / last alternative",
                         "alternatives": "one split with every number of alternatives 2..128"}),
    ]
    rep_max = 4 if tier == "quick" else 5
    twin_max = 6 if tier == "quick" else 7

    def gen_all_equal():
        # every point of the document identical (same x, y, z, r): sub-branches of the same shape are then indistinguishable by content -
        # twin alternatives, a twig drawn twice - yet every point is its own node with the parent the document gives it
        for b in docs_upto(0, twin_max):
            n_ = npoints(b)
            if n_ > rep_max:
                yield (b, (1 << (n_ - 1)) - 1, "all")

    out.append(Space.of("all-points-identical", gen_all_equal, check_repeats,
                        bounds={"points": [rep_max + 1, twin_max], "note": "all points of the document carry the same coordinates and radius (documents up to the repeated-points bound are covered there)"}))
    out.append(Space.of("repeated-points", lambda: gen_repeats(rep_max), check_repeats,
                        bounds={"points": rep_max, "alternatives": "2-3", "repeating_points": "every non-empty subset of the points after the first",
                                "what_repeats": ["x y z r (verbatim copy of the parent point)", "x y z only", "r only"]}))
    for sp in out:
        sp.auto_retain = True  # every tree returned through R.impl is re-inspected after the next two cases of the worker
    return out
