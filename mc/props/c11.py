"""C11 — morphometrics do not depend on pose or node numbering; scaling law.

Metamorphic check: for a base tree T and a transformed copy T' built by the HARNESS in float64
(rotation, translation, renumbering fixing the root, uniform scaling - never by swcgeom's own
transforms, which are C12's subject) the same library observables are evaluated on both and
must agree: unchanged under rigid motion / renumbering; under scaling by s lengths x s, volumes
x s^3, counts / angles / ratios unchanged.  Node-level values are matched through the known
relabelling; per-branch / per-path arrays as sorted multisets.
"""

from __future__ import annotations

import itertools
import math

import numpy as np

from mc import build, ref, reffeat as RF, spaces as S
from mc.kernel import Space, dg, jsonable
from mc.props.c10 import angle_tol

PROPERTY = "C11"
RULE = (
    "base trees: every sorted tree ST(n) up to the tier bound with tie-free generic geometry and radii (bank VERIF_SEED%4), once as is "
    "(spheres far apart) and once with the coordinates divided by 8 and the radii kept (neighbouring spheres overlap / nest). "
    "motions: 5 axes (x, y, z, two generic) x 4 angles x 3 translations (up to |t| = 374) = 60 rigid motions per tree; "
    "renumberings: all (n-1)! relabellings fixing the root, alone and composed with a motion and a scale; scales {0.01, 0.5, 2, 3.7, 40} alone "
    "and composed with a motion. Observables on both sides: Tree.length, the 12 non-Sholl front-end features, Sholl at all mid-gap "
    "radii (scaled with s) through intersect and the front end, Sholl with 5 and 20 steps, L-Measure per node (euclidean/path distance, "
    "branch order, terminal degree), per branch (path length, contraction, fragmentation), per bifurcation (partition asymmetry, "
    "amplitude local/remote, tilt local/remote, torque local/remote), stem/bifurcation/branch/tip counts, volume at accuracy 3 and 4 "
    "(get_volume and the front end) and at 5, 8, 9, 'low', 'middle', 'high' on furcation-free trees. Non-trivial = >= 2 nodes and a "
    "non-identity transformation; distinct = (tree, transformation)."
)
ASSUMPTIONS = [
    "the transformed coordinates are rounded to float32 when stored: per coordinate <= 2^-24*|c| (|c| <= 320 + 20 s), per segment "
    "length d_e <= 2*sqrt(3)*2^-24*max|c| (6.6e-5 at the largest offset, 2e-6*s at none); lengths (sums of <= n-1 segments) are "
    "compared with abs 4*(n-1)*d_e + 2e-5*max(|value|, s) (float32 evaluation on both sides) - 1.1e-3 + 2e-5*|value| at the largest "
    "offset, i.e. the design's 1e-3*(1+|offset|/100) derived instead of postulated, and proportionally tighter for small scales; ratios "
    "(tortuosity, contraction: denominators >= 0.5 s by bank validation, s/16 in the compact geometry) with abs 2*4*(n-1)*d_e/min_len + 2e-5",
    "angles: a vector of length >= min_len (0.5 s; s/16 compact) turns by <= d_e/|v|; amplitude/tilt tolerance = 1.5*deg(2*d_e/min_len) + the float32 cos/arccos "
    "tolerance of C10; torque tolerance additionally divides by sin(amplitude) of both planes (plane normals), computed per case",
    "torque depends on which daughter is called the first (t <-> 180-t); min(t, 180-t) is compared",
    "volume: every inclusion-exclusion term is Lipschitz in a segment length with constant <= pi*rmax^2, 4 terms per segment: tolerance "
    "= 2*4*pi*(s*rmax)^2*(n-1)*d_e + 2e-5*s^3*(sum of sphere and frustum volumes) (float32 evaluation); Monte-Carlo terms (accuracy >= 5 "
    "with furcations, accuracy 10) are not asserted; np.random is seeded per case (find_unit_vector_on_plane: the result does not depend "
    "on the drawn vector beyond rounding)",
    "Sholl radii within 4*d_e + 2e-4*s*shrink of a node are ties (skipped); mid-gap radii are >= 5e-3*s*shrink from every node",
    "the known lens overcount of the volume code (C14) is pose invariant and scales with s^3, so it does not affect this property",
]

AXES = [(1.0, 0.0, 0.0), (0.0, 1.0, 0.0), (0.0, 0.0, 1.0), (1.0, 2.0, 3.0), (-0.3, 0.5, 0.81)]
ANGLES = [math.pi / 2, math.pi, 2.1, -0.7]
OFFSETS = [(0.0, 0.0, 0.0), (10.0, -20.0, 5.0), (100.0, 200.0, -300.0)]
SCALES = [0.5, 2.0, 3.7, 0.01, 40.0]
SHRINK = [1.0, 0.125]  # geometry variant 1: coordinates / 8, radii unchanged -> neighbouring spheres overlap or nest
COMBO = (3, 2, 1)  # axis, angle, offset used when a renumbering / scale is composed with a motion
FEATURES = [
    ("length", 1), ("node_count", 0), ("node_radial_distance", 1), ("node_branch_order", 0), ("furcation_count", 0),
    ("furcation_radial_distance", 1), ("tip_count", 0), ("tip_radial_distance", 1), ("branch_length", 1),
    ("branch_tortuosity", 0), ("path_length", 1), ("path_tortuosity", 0),
]
EPS32 = 2.0 ** -24


def flt(a):
    return [float(v) for v in np.asarray(a).ravel().tolist()]


def observe(R, t, node_map, radii, p_orig, chain):
    """Evaluate every observable of the statement on tree t.  node_map[i] = id in t of original
    node i.  Returns {name: (dimension, kind, values)}; kind: 'ordered' | 'multiset' | 'angle' | 'torque' | 'volume'."""
    from swcgeom.analysis import Sholl, extract_feature, get_volume
    from swcgeom.analysis.lmeasure import LMeasure

    out = {}
    n = len(p_orig)
    ch = ref.children(p_orig)

    def put(name, dim, kind, fn):
        ok, v = R.impl(name, fn)
        if ok:
            out[name] = (dim, kind, v)

    put("Tree.length", 1, "ordered", lambda: [float(t.length())])
    ok, fe = R.impl("extract_feature", extract_feature, t)
    if ok:
        for name, dim in FEATURES:
            if name == "node_radial_distance":
                put("fe." + name, dim, "ordered", lambda: (lambda a: [a[node_map[i]] for i in range(n)])(flt(fe.get(name))))
            else:
                put("fe." + name, dim, "multiset" if not name.endswith("count") and name != "length" else "ordered", lambda name=name: flt(fe.get(name)))
        if n >= 2:
            put("fe.sholl(radii)", 0, "ordered", lambda: flt(fe.get("sholl", steps=list(radii))))
            put("fe.sholl(5)", 0, "steps", lambda: flt(fe.get("sholl", steps=5)))
            put("fe.sholl()", 0, "steps", lambda: flt(fe.get("sholl")))
        for acc in (3, 4):
            put(f"fe.volume({acc})", 3, "volume", lambda acc=acc: flt(fe.get("volume", accuracy=acc)))
    if n >= 2:
        ok, sh = R.impl("Sholl", Sholl, t)
        if ok:
            put("Sholl.intersect", 0, "ordered", lambda: [float(sh.intersect(r)) for r in radii])
            put("Sholl.get(array)", 0, "ordered", lambda: flt(sh.get(np.array(radii))))
    for acc in (3, 4) + ((5, 8, 9, "low", "middle", "high") if chain else ()):
        put(f"get_volume({acc})", 3, "volume", lambda acc=acc: [float(get_volume(t, accuracy=acc))])

    lm = LMeasure()
    for nm in ("n_stems", "n_bifs", "n_branch", "n_tips"):
        put("lm." + nm, 0, "ordered", lambda nm=nm: [float(getattr(lm, nm)(t))])
    for nm, dim in (("euc_distance", 1), ("path_distance", 1), ("branch_order", 0), ("terminal_degree", 0)):
        put("lm." + nm, dim, "ordered", lambda nm=nm: [float(getattr(lm, nm)(t.node(node_map[i]))) for i in range(n)])
    ok, brs = R.impl("get_branches", t.get_branches)
    if ok:
        put("lm.branch_pathlength", 1, "multiset", lambda: [float(lm.branch_pathlength(b)) for b in brs])
        put("lm.contraction", 0, "multiset", lambda: [float(lm.contraction(b)) for b in brs])
        put("lm.fragmentation", 0, "multiset", lambda: [float(lm.fragmentation(b)) for b in brs])
    for b in range(n):
        if len(ch[b]) != 2:
            continue
        nd = t.node(node_map[b])
        put(f"lm.partition_asymmetry[{b}]", 0, "ordered", lambda: [float(lm.partition_asymmetry(nd))])
        names = ["bif_ampl_local", "bif_ampl_remote"]
        if p_orig[b] != -1:
            names += ["bif_tilt_local", "bif_tilt_remote"]
        for nm in names:
            put(f"lm.{nm}[{b}]", 0, "angle", lambda nm=nm: [float(getattr(lm, nm)(nd))])
        if p_orig[b] != -1 and len(ch[RF.prev_critical(p_orig, b)]) == 2:
            for nm in ("bif_torque_local", "bif_torque_remote"):
                put(f"lm.{nm}[{b}]", 0, "torque", lambda nm=nm: [float(getattr(lm, nm)(nd))])
    return out


_BASE: dict = {}


def _types(n, root_type):
    return None if root_type == 1 else [root_type] + [3] * (n - 1)


def base_of(R, p, bank_k, variant, root_type=1):
    key = (bank_k, variant, tuple(p), root_type)
    if key not in _BASE:
        n = len(p)
        xyz, rad = build.generic_geometry(n, bank_k)
        xyz = [tuple(c * SHRINK[variant] for c in q) for q in xyz]
        t = build.make_tree(p, xyz=xyz, r=rad, types=_types(n, root_type))
        radii = RF.sholl_midgap_radii(p, xyz)
        chain = not ref.furcations(p)
        np.random.seed(dg("C11-base", p) % (2 ** 32))
        rec = _Quiet()
        obs = observe(rec, t, list(range(n)), radii, p, chain)
        _BASE[key] = (xyz, rad, radii, chain, obs, rec.errors)
    return _BASE[key]


class _Quiet:
    """Recorder stand-in for the cached base evaluation: remembers exceptions, counts nothing twice."""

    def __init__(self):
        self.errors = []

    def impl(self, what, fn, *a, **k):
        try:
            return True, fn(*a, **k)
        except Exception as e:  # noqa: BLE001
            self.errors.append(f"{what}: {type(e).__name__}: {e}")
            return False, e


def transform_of(case):
    """-> (perm, axis_idx|None, angle_idx, offset_idx, scale)."""
    kind = case[2]
    if kind in ("motion", "motion-rt"):
        return None, int(case[3]), int(case[4]), int(case[5]), 1.0
    if kind == "renum":
        perm = [int(v) for v in case[3]]
        if int(case[4]) == 0:
            return perm, None, 0, 0, 1.0
        return perm, COMBO[0], COMBO[1], COMBO[2], SCALES[1]
    if kind == "scale":
        s = SCALES[int(case[3])]
        if int(case[4]) == 0:
            return None, None, 0, 0, s
        return None, COMBO[0], COMBO[1], COMBO[2], s
    raise ValueError(kind)


def check_case(case, R):
    case = jsonable(case)  # tuples -> lists: the same digests / seeds in a run and in a replay
    p = [int(v) for v in case[0]]
    bank_k, variant = int(case[1][0]), int(case[1][1])
    n = len(p)
    root_type = int(case[6]) if case[2] == "motion-rt" else 1
    xyz, rad, radii, chain, base, base_errors = base_of(R, p, bank_k, variant, root_type)
    perm, ai, gi, oi, s = transform_of(case)
    R.state(p, case[1:])
    identity = (perm is None or perm == list(range(n))) and ai is None and s == 1.0
    if n < 2 or identity:
        R.trivial()
    ctx = f"p={p} bank={bank_k} geometry={'bank' if variant == 0 else 'compact (coordinates/8)'} transform={list(case[2:])}"
    if base_errors and root_type == 1:
        R.fail("raises:base", f"{ctx}: evaluation on the untransformed tree raised: {base_errors[:3]}", "raises:base-tree")
        return
    # a tree whose root is not typed as soma: observables that refuse such a tree (on the base tree already) are outside; the rest
    # must be as invariant as for any other tree

    # ---- build T' in float64, store as float32
    off = OFFSETS[oi]
    Rm = RF.rotation_matrix(AXES[ai], ANGLES[gi]) if ai is not None else ((1.0, 0.0, 0.0), (0.0, 1.0, 0.0), (0.0, 0.0, 1.0))
    xyz2 = RF.apply_motion(xyz, Rm, off, s)
    rad2 = [s * r for r in rad]
    node_map = list(range(n)) if perm is None else perm
    p2, xyz2p, rad2p = RF.renumber(p, node_map, xyz2, rad2)
    t2 = build.make_tree(p2, xyz=xyz2p, r=rad2p, types=_types(n, root_type))
    snap = build.snapshot(t2)
    np.random.seed(dg("C11", case) % (2 ** 32))
    # the bounding-box measures (width / height / depth: not rigid-motion invariants themselves, so not compared) are taken FIRST, as a
    # report generator does: measuring must leave the tree alone, and everything measured afterwards must still be invariant
    from swcgeom.analysis.lmeasure import LMeasure as _LM

    for nm_ in ("width", "height", "depth"):
        R.attempt(getattr(_LM(), nm_), t2)
    R.check(build.snapshot(t2) == snap, "input-modified", lambda: f"{ctx}: LMeasure.width/height/depth modified the tree they measured", "input-modified:bounding-box-measures")
    got = observe(R if root_type == 1 else _AllowRaise(R, set(base)), t2, node_map, [s * r for r in radii], p, chain)
    R.check(build.snapshot(t2) == snap, "input-modified", lambda: f"{ctx}: the tree was modified by feature evaluation")

    # ---- tolerances (see ASSUMPTIONS)
    cmax = max(abs(c) for q in xyz2 for c in q)
    d_e = 2 * math.sqrt(3) * EPS32 * cmax  # bound on the change of one segment vector
    min_len = 0.5 * SHRINK[variant] * s
    tol_sum = 4 * (n - 1) * d_e  # a sum of <= n-1 segment lengths, 4x margin
    tol_ratio = 2 * tol_sum / min_len + 2e-5
    tol_dir = math.degrees(2 * d_e / min_len) * 1.5
    rmax_r = max(rad) * s
    vabs = sum(4 / 3 * math.pi * (s * r) ** 3 for r in rad) + sum(
        math.pi * s * RF.dist(xyz[i], xyz[q]) * (s * max(rad[i], rad[q])) ** 2 for q, i in ref.edges(p))
    tol_vol = 2 * 4 * math.pi * rmax_r ** 2 * (n - 1) * d_e + 2e-5 * vabs
    tie_margin = 4 * d_e + 2e-4 * SHRINK[variant] * s

    for name, (dim, kind, bv) in base.items():
        if name not in got:
            # the implementation raised on T' (already recorded by R.impl) or did not produce the item
            continue
        tv = got[name][2]
        want = [(s ** dim) * v for v in bv]

        def bad(detail):
            R.fail("not-invariant:" + name.split("[")[0], f"{ctx}: {name}: on the base tree {bv} -> expected {want} (x s^{dim}, s={s}), on the transformed tree {tv}; {detail}",
                   f"not-invariant:{name.split('[')[0]}:{case[2]}")

        if len(tv) != len(want):
            bad("different number of values")
            continue
        if kind == "multiset":
            tv, want = sorted(tv), sorted(want)
        if kind == "steps":
            k = len(want)
            rs = [s * r for r in RF.sholl_step_radii(p, xyz, k)]
            sx = [tuple(s * c for c in q) for q in xyz]
            for j, r in enumerate(rs):
                if RF.sholl_tie(p, sx, r, tie_margin):
                    R.skip("sholl-node-on-sphere")
                elif tv[j] != want[j]:
                    bad(f"count #{j} at radius {r}")
                    break
            continue
        if kind == "angle" or kind == "torque":
            a, b = tv[0], want[0]
            tol = tol_dir + angle_tol(b)
            if kind == "torque":
                bnode = int(name[name.index("[") + 1:-1])
                remote = "remote" in name
                sins = []
                for node in (RF.prev_critical(p, bnode), bnode):
                    amp = RF.bif_ampl(p, xyz, node, remote)
                    sins.append(max(abs(math.sin(math.radians(amp))), 1e-9))
                tol = tol_dir * (1 / sins[0] + 1 / sins[1]) + angle_tol(b) / min(sins) + angle_tol(b)
                a, b = min(a, 180 - a), min(b, 180 - b)
            if not (math.isfinite(a) and abs(a - b) <= tol):
                bad(f"angle differs by {abs(a - b):.3g} > {tol:.3g}")
            continue
        if kind == "volume":
            tol = tol_vol
        elif dim == 1:
            tol = None  # per value, below
        elif kind == "ordered" and all(float(v) == int(v) for v in want) and not name.endswith("asymmetry"):
            tol = 0.0  # counts, orders, Sholl profile
        else:
            tol = tol_ratio
        for j, (a, b) in enumerate(zip(tv, want)):
            tl = tol_sum + 2e-5 * max(abs(b), s) if tol is None else tol
            if not (math.isfinite(a) and abs(a - b) <= tl):
                bad(f"value #{j} differs by {abs(a - b):.3g} > {tl:.3g}")
                break
    R.outcome(p, tuple(round(c, 2) for c in xyz2p[0] + xyz2p[-1]), tuple(p2), len(got))


# ------------------------------------------------------------------ measured first, then moved / scaled / copied


DERIVE_HOWS = ["copy+edit:scale", "copy+edit:move", "inplace:scale", "inplace:move", "lib:Scale", "lib:Translate", "lib:RotateZ",
               "lib:Scale.transform", "copy+handle:scale"]


def _derive(t, how, s, off):
    """A tree obtained FROM an already measured tree; returns the derived tree (for 'inplace' the same object)."""
    from swcgeom.transforms import RotateZ, Scale, Translate

    def edit(x):
        if how.endswith("scale"):
            for k in ("x", "y", "z", "r"):
                a = x.get_ndata(k)
                a *= np.float32(s)
        else:
            for k, d in zip(("x", "y", "z"), off):
                a = x.get_ndata(k)
                a += np.float32(d)

    if how.startswith("copy+edit"):
        c = t.copy()
        edit(c)
        return c
    if how.startswith("inplace"):
        edit(t)
        return t
    if how == "copy+handle:scale":
        c = t.copy()
        for i in range(len(c)):
            nd = c.node(i)
            nd.x, nd.y, nd.z, nd.r = float(nd.x) * s, float(nd.y) * s, float(nd.z) * s, float(nd.r) * s
        return c
    if how == "lib:Scale":
        return Scale(s, s, s, center="origin")(t)
    if how == "lib:Scale.transform":
        return Scale.transform(t, s, s, s, center="origin")
    if how == "lib:Translate":
        return Translate(*off)(t)
    if how == "lib:RotateZ":
        return RotateZ(2.1, center="origin")(t)
    raise ValueError(how)


def _same(a, b):
    if len(a) != len(b):
        return False
    for u, v in zip(a, b):
        if not (u == v or (math.isfinite(u) and math.isfinite(v) and abs(u - v) <= 1e-9 * max(1.0, abs(u), abs(v))) or (u != u and v != v)):
            return False
    return True


def check_derived(case, R):
    """Differential history check: every observable is evaluated on a tree (so whatever the library remembers is warm), the tree
    is then scaled / moved / copied (in place, on a copy, by the library's own transforms) and every observable of the DERIVED
    tree must equal that of a freshly built tree with bit-identical content (same float32 columns)."""
    case = jsonable(case)
    p = [int(v) for v in case[0]]
    bank_k, variant = int(case[1][0]), int(case[1][1])
    how, s = case[2], float(case[3])
    n = len(p)
    R.state(p, case[1:])
    xyz, rad = build.generic_geometry(n, bank_k)
    xyz = [tuple(c * SHRINK[variant] for c in q) for q in xyz]
    radii = RF.sholl_midgap_radii(p, xyz)
    chain = not ref.furcations(p)
    t = build.make_tree(p, xyz=xyz, r=rad)
    ident = list(range(n))
    seed = dg("C11-derived", case) % (2 ** 32)
    np.random.seed(seed)
    warm = observe(_Quiet(), t, ident, radii, p, chain)  # measured first
    if how.startswith("build:"):
        # derivations that renumber / restructure (sort, sub tree, re-rooting, concatenation, file round trip ...): the derived tree is
        # compared with a fresh tree built from the derived tree's OWN table
        ok, t2 = R.impl("derive:" + how, build.derive, t, how[6:])
        if not ok:
            return
        if t2 is None or not build.wellformed(t2)[0] or not np.all(np.isfinite(np.stack([t2.x(), t2.y(), t2.z(), t2.r()]))):
            R.trivial()
            return
        p = [int(v) for v in t2.pid().tolist()]
        n = len(p)
        ident = list(range(n))
        xyz2 = list(zip(t2.x().astype(np.float64).tolist(), t2.y().astype(np.float64).tolist(), t2.z().astype(np.float64).tolist()))
        if n >= 2 and min(math.dist(xyz2[i], xyz2[p[i]]) for i in range(1, n)) == 0.0:
            R.skip("derived-tree-has-a-zero-length-segment")
            return
        radii2 = RF.sholl_midgap_radii(p, xyz2) if n >= 2 else []
        chain = not ref.furcations(p)
    else:
        ok, t2 = R.impl("derive:" + how, _derive, t, how, s, OFFSETS[1])
        if not ok:
            return
        sc = s if how.endswith("scale") or "Scale" in how else 1.0
        radii2 = [sc * r for r in radii]
    np.random.seed(seed)
    restructured = how.startswith("build:")
    qd = _Quiet()
    # a sub tree / re-rooted tree may have a root that is not typed soma: observables refusing such a tree refuse the fresh twin too
    got = observe(qd if restructured else R, t2, ident, radii2, p, chain)
    cols = {k: np.array(t2.get_ndata(k), copy=True) for k in ("x", "y", "z", "r")}
    fresh = build.make_tree(p, xyz=list(zip(cols["x"].tolist(), cols["y"].tolist(), cols["z"].tolist())), r=cols["r"].tolist(),
                            types=[int(v) for v in t2.type().tolist()])
    assert all(np.array_equal(fresh.get_ndata(k), cols[k]) for k in cols)
    np.random.seed(seed)
    q = _Quiet()
    want = observe(q, fresh, ident, radii2, p, chain)
    ctx = f"p={p} bank={bank_k} geometry={variant} derived-by={how} s={s}"
    for name, (dim, kind, wv) in want.items():
        if name not in got:
            if restructured:
                R.fail("derived-tree-differs:raises-only-on-derived", f"{ctx}: {name} evaluates on a freshly built identical tree but not on the derived one: "
                       f"{[e for e in qd.errors if e.startswith(name.split('[')[0])][:1] or qd.errors[:1]}", f"derived-tree-differs:raises:{name.split('[')[0]}:{how.split(':')[0]}")
            continue
        gv = got[name][2]
        if kind in ("multiset",):
            gv, wv = sorted(gv), sorted(wv)
        R.check(_same(gv, wv), "derived-tree-differs:" + name.split("[")[0],
                lambda: f"{ctx}: {name} on the derived tree {gv}, on a freshly built tree with identical columns {wv} (before deriving: {warm.get(name, (0, 0, None))[2]})",
                f"derived-tree-differs:{name.split('[')[0]}:{how.split(':')[0]}")
    for name in got:
        R.check(name in want, "derived-tree-differs:raises-only-on-fresh", lambda: f"{ctx}: {name}: {q.errors[:2]}", "derived-tree-differs:fresh-raises")
    R.outcome(p, how, s, len(got))


# ------------------------------------------------------------------ exact (dyadic) translations far from the origin

DYADIC_SHIFTS = list(range(4, 21))  # translation by +-2^k on every axis, every k (a tolerance that grows with |coordinate| bites somewhere)
DYADIC_GEOM = [(0.125, 1.0, 20), (1 / 64, 0.125, 17)]  # (grain, shrink of the bank, largest k with 2^k + grain exact in float32)
DYADIC_SIGNS = [(1, 1, 1), (-1, 1, -1)]


def _dyadic_geometry(n, bank_k, grain, shrink):
    """Bank geometry (optionally shrunk: finely sampled neurite) snapped to multiples of `grain` (a power of two): translations
    by 2^k are then exact in float32."""
    xyz, rad = build.generic_geometry(n, bank_k)
    q = lambda v: round(v / grain) * grain  # noqa: E731
    return [tuple(q(c * shrink) for c in pt) for pt in xyz], [max(grain, q(r * shrink)) for r in rad]


def check_dyadic(case, R):
    """Translation that is EXACT in float32 (dyadic coordinates, power-of-two offset): the translated tree has bit-identical
    segment vectors, so every morphometric must agree with the untranslated one up to the rounding of the evaluation itself,
    however far from the origin the neuron sits."""
    case = jsonable(case)
    p = [int(v) for v in case[0]]
    bank_k, gi, k, si = int(case[1]), int(case[2]), int(case[3]), int(case[4])
    n = len(p)
    grain, shrink, _kmax = DYADIC_GEOM[gi]
    R.state(p, case[1:])
    xyz, rad = _dyadic_geometry(n, bank_k, grain, shrink)
    off = tuple(sg * 2.0 ** k for sg in DYADIC_SIGNS[si])
    xyz2 = [tuple(c + d for c, d in zip(pt, off)) for pt in xyz]
    for pt in xyz2:
        for c in pt:
            assert float(np.float32(c)) == c, "harness: translation is not exact in float32"
    radii = RF.sholl_midgap_radii(p, xyz) if n >= 2 and len({tuple(q) for q in xyz}) == n else [0.5, 1.0, 2.0]
    chain = not ref.furcations(p)
    ident = list(range(n))
    seed = dg("C11-dyadic", case) % (2 ** 32)
    np.random.seed(seed)
    q0 = _Quiet()
    base = observe(q0, build.make_tree(p, xyz=xyz, r=rad), ident, radii, p, chain)
    np.random.seed(seed)
    got = observe(_AllowRaise(R, set(base)), build.make_tree(p, xyz=xyz2, r=rad), ident, radii, p, chain)
    ctx = f"p={p} bank={bank_k} grain={grain} offset={off}"
    cmax = max(abs(c) for pt in xyz2 for c in pt)
    for name, (dim, kind, bv) in base.items():
        if name not in got:
            continue
        tv = got[name][2]
        if kind == "multiset":
            tv, bv = sorted(tv), sorted(bv)
        ok = len(tv) == len(bv)
        if ok:
            for a, b in zip(tv, bv):
                if kind in ("angle", "torque"):
                    if kind == "torque":
                        a, b = min(a, 180 - a), min(b, 180 - b)
                    tol = 2 * angle_tol(b) + 1e-3
                else:
                    # evaluation in float32/float64 on absolute coordinates: relative rounding 2^-23 per operation on values of size cmax^dim
                    tol = 1e-5 * max(abs(b), 1e-3) + (64 * EPS32 * max(1.0, abs(b)) if kind == "volume" else 0.0)
                if not (math.isfinite(a) and abs(a - b) <= tol):
                    ok = False
        R.check(ok, "not-invariant:" + name.split("[")[0],
                lambda: f"{ctx}: {name}: {bv} at the origin, {tv} after an exact translation (|coordinates| up to {cmax})",
                f"not-invariant:{name.split('[')[0]}:exact-translation")
    R.outcome(p, k, si, len(got))


# ------------------------------------------------------------------ exact rotations (the 24 rotations of the cube) of axis-aligned neurites


def _cube_rotations():
    out = []
    for perm in itertools.permutations(range(3)):
        for signs in itertools.product((1, -1), repeat=3):
            m = [[0] * 3 for _ in range(3)]
            for r_ in range(3):
                m[r_][perm[r_]] = signs[r_]
            det = (m[0][0] * (m[1][1] * m[2][2] - m[1][2] * m[2][1]) - m[0][1] * (m[1][0] * m[2][2] - m[1][2] * m[2][0])
                   + m[0][2] * (m[1][0] * m[2][1] - m[1][1] * m[2][0]))
            if det == 1:
                out.append(m)
    return out


CUBE = _cube_rotations()  # 24 signed permutation matrices: exact in any float format
LATTICE_RADII = ("tapering", "widening", "constant")


def _lattice_geometry(p, radii_kind):
    """Every segment parallel to a coordinate axis (reconstructions traced on image stacks: runs straight along x, y, z - in both
    senses), dyadic lengths and radii; no two nodes coincide (asserted)."""
    n = len(p)
    xyz = [None] * n
    dep = [ref.depth(p, i) for i in range(n)]
    for i in sorted(range(n), key=lambda i: dep[i]):
        if p[i] == -1:
            xyz[i] = (0.5, 0.25, -0.75)
            continue
        ax = (i + dep[i]) % 3
        sg = -1.0 if (i // 3 + dep[i]) % 2 else 1.0
        step = [0.0, 0.0, 0.0]
        step[ax] = sg * (1.0 + 0.5 * i)
        xyz[i] = tuple(a + b for a, b in zip(xyz[p[i]], step))
    assert len(set(xyz)) == n, "harness: lattice geometry has coincident nodes"
    if radii_kind == "constant":
        rad = [0.25] * n
    else:
        rad = [0.5 / (1 + dep[i]) + 0.03125 * (i % 2) for i in range(n)] if radii_kind == "tapering" else [0.125 * (1 + dep[i]) + 0.03125 * (i % 2) for i in range(n)]
    return xyz, rad


def check_cube(case, R):
    """Rotation by an element of the cube group maps axis-aligned segments onto axis-aligned segments EXACTLY (coordinates are
    permuted and negated): every morphometric must agree up to the rounding of its own evaluation - in particular for segments that
    run exactly along -x, -y, -z, directions a generic bank never produces."""
    case = jsonable(case)
    p = [int(v) for v in case[0]]
    ri, radii_kind = int(case[1]), case[2]
    n = len(p)
    R.state(p, ri, radii_kind)
    xyz, rad = _lattice_geometry(p, radii_kind)
    M = CUBE[ri]
    xyz2 = [tuple(float(sum(M[r_][c] * pt[c] for c in range(3))) for r_ in range(3)) for pt in xyz]
    radii = RF.sholl_midgap_radii(p, xyz) if n >= 2 else []
    chain = not ref.furcations(p)
    ident = list(range(n))
    seed = dg("C11-cube", case) % (2 ** 32)
    np.random.seed(seed)
    q0 = _Quiet()
    base = observe(q0, build.make_tree(p, xyz=xyz, r=rad), ident, radii, p, chain)
    np.random.seed(seed)
    got = observe(_AllowRaise(R, set(base)), build.make_tree(p, xyz=xyz2, r=rad), ident, radii, p, chain)
    ctx = f"p={p} axis-aligned lattice, radii {radii_kind}, cube rotation {M}"
    for name, (dim, kind, bv) in base.items():
        if name not in got:
            continue
        tv = got[name][2]
        if kind == "multiset":
            tv, bv = sorted(tv), sorted(bv)
        if kind == "steps":
            continue  # radii chosen by the library may land on a node of a lattice tree: specification tie
        ok = len(tv) == len(bv)
        if ok:
            for a, b in zip(tv, bv):
                if kind in ("angle", "torque"):
                    if kind == "torque":
                        a, b = min(a, 180 - a), min(b, 180 - b)
                    tol = 2 * angle_tol(b) + 1e-3
                else:
                    tol = 1e-5 * max(abs(b), 1e-3) + (64 * EPS32 * max(1.0, abs(b)) if kind == "volume" else 0.0)
                if not (math.isfinite(a) and math.isfinite(b) and abs(a - b) <= tol):
                    ok = False
        R.check(ok, "not-invariant:" + name.split("[")[0],
                lambda: f"{ctx}: {name}: {bv} before, {tv} after an exact rotation", f"not-invariant:{name.split('[')[0]}:exact-rotation")
    R.outcome(p, ri, len(got))



class _AllowRaise:
    """Recorder view: an observable that raised on the base tree may raise on the translated one; otherwise raising is a violation."""

    def __init__(self, R, base_names):
        self.R, self.base = R, base_names

    def impl(self, what, fn, *a, **k):
        if what in self.base or what in ("extract_feature", "Sholl", "get_branches"):
            return self.R.impl(what, fn, *a, **k)
        return self.R.attempt(fn, *a, **k)


# ------------------------------------------------------------------ an evaluation that fails, then one that must not notice

FAIL_KINDS = ["nan-coordinate", "inf-radius", "huge-radius", "dangling-parent", "unknown-feature", "bad-accuracy", "one-node-sholl"]


def _failing_call(kind, p, xyz, rad):
    """Something that goes wrong (or is at least unusual) inside the analysis code: what it returns or raises is not judged."""
    from swcgeom.analysis import Sholl, extract_feature, get_volume
    from swcgeom.core import Tree

    n = len(p)
    x = [list(q) for q in xyz]
    r = list(rad)
    k = n // 2
    if kind == "nan-coordinate":
        x[k][0] = float("nan")
    elif kind == "inf-radius":
        r[k] = float("inf")
    elif kind == "huge-radius":
        r[k] = 1e30
    if kind in ("nan-coordinate", "inf-radius", "huge-radius"):
        t = build.make_tree(p, xyz=[tuple(q) for q in x], r=r)
        for fn in (lambda: get_volume(t), lambda: get_volume(t, accuracy=3), lambda: t.length(), lambda: extract_feature(t).get("sholl"),
                   lambda: extract_feature(t).get("branch_tortuosity")):
            try:
                fn()
            except Exception:  # noqa: BLE001
                pass
        return
    if kind == "dangling-parent":
        pp = list(p)
        pp[-1] = n + 3
        try:
            t = Tree(n, id=np.arange(n, dtype=np.int32), pid=np.array(pp, dtype=np.int32), x=np.zeros(n, np.float32), y=np.zeros(n, np.float32),
                     z=np.arange(n, dtype=np.float32), r=np.ones(n, np.float32), type=np.ones(n, np.int32))
            for fn in (lambda: get_volume(t), lambda: t.length(), lambda: t.get_branches(), lambda: extract_feature(t).get("path_length")):
                try:
                    fn()
                except Exception:  # noqa: BLE001
                    pass
        except Exception:  # noqa: BLE001
            pass
        return
    t = build.make_tree(p, xyz=xyz, r=rad)
    try:
        if kind == "unknown-feature":
            extract_feature(t).get("no_such_feature")
        elif kind == "bad-accuracy":
            get_volume(t, accuracy=11)
        else:
            Sholl(build.make_tree([-1])).get(5)
    except Exception:  # noqa: BLE001
        pass


def check_after_failure(case, R):
    """History: every observable of a tree, then an evaluation that fails part-way (malformed / non-finite input, bad argument),
    then the same observables on a fresh identical tree: they must be the numbers obtained before the failure."""
    case = jsonable(case)
    p = [int(v) for v in case[0]]
    bank_k, variant, kind = int(case[1][0]), int(case[1][1]), case[2]
    n = len(p)
    R.state(p, case[1:])
    xyz, rad = build.generic_geometry(n, bank_k)
    xyz = [tuple(c * SHRINK[variant] for c in q) for q in xyz]
    radii = RF.sholl_midgap_radii(p, xyz)
    chain = not ref.furcations(p)
    ident = list(range(n))
    seed = dg("C11-fail", case) % (2 ** 32)
    np.random.seed(seed)
    q0 = _Quiet()
    before = observe(q0, build.make_tree(p, xyz=xyz, r=rad), ident, radii, p, chain)
    R.attempt(_failing_call, kind, p, xyz, rad)
    np.random.seed(seed)
    after = observe(_AllowRaise(R, set(before)), build.make_tree(p, xyz=xyz, r=rad), ident, radii, p, chain)
    for name, (dim, kd, bv) in before.items():
        if name not in after:
            continue
        av = after[name][2]
        if kd == "multiset":
            av, bv = sorted(av), sorted(bv)
        R.check(_same(av, bv), "changed-after-failed-evaluation:" + name.split("[")[0],
                lambda: f"p={p} bank={bank_k}: {name} = {bv} before, {av} after an evaluation that failed ({kind})",
                f"changed-after-failed-evaluation:{name.split('[')[0]}:{kind}")
    R.outcome(p, kind, len(after))


def spaces(tier, seed):
    bank_k = seed % 4
    mot_hi, ren_hi, sc_hi = (5, 5, 5) if tier == "quick" else (6, 6, 7)

    def trees(hi):
        for n in range(1, hi + 1):
            yield from S.sorted_trees(n)

    geoms = [(bank_k, 0), (bank_k, 1)]

    def gen_motion():
        for p in trees(mot_hi):
            for ai in range(len(AXES)):
                for gi in range(len(ANGLES)):
                    for oi in range(len(OFFSETS)):
                        for g in geoms:
                            yield (p, g, "motion", ai, gi, oi)

    def gen_renum():
        for p in trees(ren_hi):
            n = len(p)
            for tail in itertools.permutations(range(1, n)):
                for combo in (0, 1):
                    for g in geoms:
                        yield (p, g, "renum", (0,) + tail, combo)

    def gen_scale():
        for p in trees(sc_hi):
            for si in range(len(SCALES)):
                for combo in (0, 1):
                    for g in geoms:
                        yield (p, g, "scale", si, combo)

    der_hi = 4 if tier == "quick" else 5
    dya_hi = 4 if tier == "quick" else 5

    def gen_derived():
        for n_ in range(2, der_hi + 2):
            for p in S.labelled_trees(n_):  # every numbering: sorting / re-rooting really renumber
                for w in build.DERIVATIONS:
                    if w not in ("Translate", "Scale", "RotateZ", "copy"):
                        yield (p, geoms[0], "build:" + w, 1.0)
        for p in trees(der_hi):
            for g in geoms:
                for how in DERIVE_HOWS:
                    for sc in (2.0, 0.5):
                        if sc != 2.0 and not (how.endswith("scale") or "Scale" in how):
                            continue
                        yield (p, g, how, sc)

    def gen_dyadic():
        for p in trees(dya_hi):
            for gi in (0, 1):
                for k in DYADIC_SHIFTS:
                    if k > DYADIC_GEOM[gi][2]:
                        continue
                    for si in range(len(DYADIC_SIGNS)):
                        yield (p, bank_k, gi, k, si)

    def gen_motion_rt():
        for p in trees(mot_hi - 1):
            for rt in (3, 2, 0):
                for ai in (0, 3):
                    for gi in (1, 2):
                        for oi in range(len(OFFSETS)):
                            for g in geoms:
                                yield (p, g, "motion-rt", ai, gi, oi, rt)

    def gen_fail():
        for p in trees(der_hi + 1):
            if len(p) < 2:
                continue
            for g in geoms:
                for kind in FAIL_KINDS:
                    yield (p, g, kind)

    common = {"bank": bank_k, "geometries": ["bank", "bank with coordinates / 8 and unchanged radii (overlapping and nested spheres)"], "axes": AXES, "angles": ANGLES, "offsets": OFFSETS, "scales": SCALES, "composed_with": COMBO}
    return [
        Space.of("rigid-motions", gen_motion, check_case, bounds={"ST_max_nodes": mot_hi, **common}),
        Space.of("rigid-motions-soma-less-root", gen_motion_rt, check_case,
                 bounds={"ST_max_nodes": mot_hi - 1, "root_types": [3, 2, 0], "axes": [AXES[0], AXES[3]], "angles": [ANGLES[1], ANGLES[2]], "offsets": OFFSETS,
                         "note": "observables that refuse a tree without a soma-typed root already on the untransformed tree are outside"}),
        Space.of("renumberings", gen_renum, check_case, bounds={"ST_max_nodes": ren_hi, "renumberings": "all (n-1)! fixing the root, alone and composed", **common}),
        Space.of("scalings", gen_scale, check_case, bounds={"ST_max_nodes": sc_hi, **common}),
        Space.of("measured-then-derived", gen_derived, check_derived,
                 bounds={"ST_max_nodes": der_hi, "derivations": DERIVE_HOWS, "LT_max_nodes_for_restructuring_derivations": der_hi + 1,
                         "restructuring_derivations": [w for w in build.DERIVATIONS if w not in ("Translate", "Scale", "RotateZ", "copy")], "scales": [2.0, 0.5], "offset": OFFSETS[1],
                         "oracle": "observables of the derived tree == observables of a freshly built tree with bit-identical columns"}),
        Space.of("after-a-failed-evaluation", gen_fail, check_after_failure,
                 bounds={"ST_max_nodes": der_hi + 1, "failures": FAIL_KINDS,
                         "oracle": "observables of a fresh identical tree after the failure == before it"}),
        Space.of("exact-rotations", lambda: ((p, ri, rk) for p in trees(dya_hi + 1) if len(p) >= 2 for ri in range(len(CUBE)) for rk in LATTICE_RADII), check_cube,
                 bounds={"ST_max_nodes": dya_hi + 1, "rotations": "the 24 rotations of the cube (signed permutation matrices, exact)", "radii": list(LATTICE_RADII),
                         "geometry": "every segment parallel to a coordinate axis, both senses, dyadic lengths"}),
        Space.of("exact-translations", gen_dyadic, check_dyadic,
                 bounds={"ST_max_nodes": dya_hi, "geometries (grain, shrink, max k)": DYADIC_GEOM, "offsets": [f"+-2^{k}" for k in DYADIC_SHIFTS], "sign_patterns": DYADIC_SIGNS,
                         "note": "dyadic coordinates + power-of-two offsets: the translation is exact in float32, so segment vectors are bit-identical"}),
    ]
