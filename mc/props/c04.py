"""C04 — tree traversal is structural recursion, at any depth."""

from __future__ import annotations

import numpy as np

from mc import build, ref, spaces as S
from mc.kernel import Space, recursion_limit

PROPERTY = "C04"
RULE = (
    "every labelled tree LT(n) (root 0, all numberings) up to the tier bound x every start node x "
    "{enter, leave, both} x {swc_utils.traverse, Tree.traverse(root=), Tree.Node.traverse} x start as int/np.int32; "
    "callbacks are free term builders (return a fresh object embedding everything received) so every callback pair "
    "that is a function of its arguments observes a homomorphic image; deep chains/combs/brooms of 1e4..1e5 nodes; "
    "whole small space re-run under a lowered recursion limit; EVERY chain length 1..1200 (3000) so that any size threshold is crossed; "
    "histories query -> in-place re-parenting (every admissible single edit, via node handle / column / on a copy) -> query again. "
    "Non-trivial = tree with >= 2 nodes."
)
ASSUMPTIONS = [
    "sibling order is unspecified: the children's values are compared as a multiset (by object identity)",
    "callbacks that are functions of their arguments only (no hidden state) - covered completely by term-building callbacks",
]

MODES = ("enter", "leave", "both")
APIS = ("topology", "tree", "node", "node[-k]")  # node[-k]: the handle obtained with a negative index, tree[i - n]


class Term:
    __slots__ = ("kind", "node", "arg")

    def __init__(self, kind, node, arg):
        self.kind, self.node, self.arg = kind, node, arg


CB_KINDS = ("plain", "varargs", "node-then-varargs", "callable-object", "bound-method", "partial", "extra-default", "keyword-only-extra", "consuming")


class _Obj:
    def __init__(self, fn):
        self.fn = fn

    def __call__(self, x, v):
        return self.fn(x, v)

    def method(self, x, v):
        return self.fn(x, v)


def package(fn, kind, bad):
    """The same callback written the ways callers write callbacks ('for all enter/leave callbacks')."""
    import functools

    if kind in ("plain", "consuming"):
        return fn
    if kind == "varargs":
        def cb(*args):
            if len(args) != 2:
                bad.append(f"callback called with {len(args)} positional arguments, not (node, value)")
                return fn(args[0], None if len(args) < 2 else args[1])
            return fn(*args)
        return cb
    if kind == "node-then-varargs":
        def cb2(x, *rest):
            if len(rest) != 1:
                bad.append(f"callback called with {1 + len(rest)} positional arguments, not (node, value)")
                return fn(x, rest[0] if rest else None)
            return fn(x, rest[0])
        return cb2
    if kind == "callable-object":
        return _Obj(fn)
    if kind == "bound-method":
        return _Obj(fn).method
    if kind == "partial":
        return functools.partial(lambda tag, x, v: fn(x, v), "tag")
    if kind == "extra-default":
        return lambda x, v, _unused=None: fn(x, v)
    if kind == "keyword-only-extra":
        def cb3(x, v, *, _unused=None):
            return fn(x, v)
        return cb3
    raise ValueError(kind)


def traverse_once(api, t, ids, pids, start, mode, as_np, hook=None, cbkind="plain"):
    """Run one traversal on the real code; returns (log, returned value).  `hook(kind, node)` is called at the start of every
    callback (used for re-entrant and aborting callbacks)."""
    from swcgeom.core import Tree
    from swcgeom.core.swc_utils import traverse

    log = []
    bad = []

    def ident(x):
        if api == "topology":
            return int(x)
        if not isinstance(x, Tree.Node):
            bad.append(f"callback received {type(x).__name__}, not a node handle")
            return int(x) if isinstance(x, (int, np.integer)) else -99
        return int(x.id)

    def enter(x, pv):
        i = ident(x)
        if hook is not None:
            hook("enter", i)
        term = Term("E", i, pv)
        log.append(("enter", i, pv, term))
        return term

    def leave(x, cv):
        i = ident(x)
        if hook is not None:
            hook("leave", i)
        if not isinstance(cv, list):
            bad.append(f"leave received {type(cv).__name__} for children values")
            cv = list(cv)
        term = Term("L", i, tuple(cv))
        log.append(("leave", i, list(cv), term))
        if cbkind == "consuming":  # the list handed to a callback is the callback's: it may use it up
            cv.append(Term("junk", i, None))
            cv.reverse()
        return term

    kw = {}
    if mode in ("enter", "both"):
        kw["enter"] = package(enter, cbkind, bad)
    if mode in ("leave", "both"):
        kw["leave"] = package(leave, cbkind, bad)
    s = np.int32(start) if as_np else int(start)
    if api == "topology":
        ret = traverse((ids, pids), root=s, **kw)
    elif api == "tree":
        ret = t.traverse(root=s, **kw)
    elif api == "node[-k]":
        ret = t[int(start) - len(t)].traverse(**kw)
    else:
        ret = t.node(s).traverse(**kw)
    return log, ret, bad


def judge(p, ch, start, mode, log, ret, bad):
    """Return '' if the log is the structural recursion over subtree(start), else a description."""
    if bad:
        return bad[0]
    sub = set(ref.descendants_or_self(p, start))
    enters = [e for e in log if e[0] == "enter"]
    leaves = [e for e in log if e[0] == "leave"]
    pos = {id(e[3]): k for k, e in enumerate(log)}
    if mode in ("enter", "both"):
        seen = [e[1] for e in enters]
        if sorted(seen) != sorted(sub):
            return f"enter called for {sorted(seen)}, subtree is {sorted(sub)}"
        eterm = {e[1]: e[3] for e in enters}
        for _, i, pv, term in enters:
            if i == start:
                if pv is not None:
                    return f"start node {i} entered with {pv!r} instead of None"
            else:
                par = eterm.get(p[i])
                if par is None or pos[id(par)] > pos[id(term)]:
                    return f"node {i} entered before its parent {p[i]}"
                if pv is not par:
                    got = f"term of node {pv.node}" if isinstance(pv, Term) else repr(pv)
                    return f"node {i} entered with {got}, not with the value its parent {p[i]} returned"
    elif enters:
        return "enter callback invoked although none was given"
    if mode in ("leave", "both"):
        seen = [e[1] for e in leaves]
        if sorted(seen) != sorted(sub):
            return f"leave called for {sorted(seen)}, subtree is {sorted(sub)}"
        lterm = {e[1]: e[3] for e in leaves}
        for _, i, cv, term in leaves:
            want = [lterm[c] for c in ch[i]]
            for w in want:
                if pos[id(w)] > pos[id(term)]:
                    return f"node {i} left before its child {w.node}"
            if len(cv) != len(want) or sorted(map(id, cv)) != sorted(map(id, want)):
                got = [v.node if isinstance(v, Term) else v for v in cv]
                return f"node {i} left with values of {got}, its children are {ch[i]}"
        if ret is not lterm[start]:
            return f"returned {ret!r}, not the start node's leave value"
    else:
        if leaves:
            return "leave callback invoked although none was given"
        if ret is not None:
            return f"returned {ret!r} without a leave callback"
    if mode == "both":
        eterm = {e[1]: e[3] for e in enters}
        lterm = {e[1]: e[3] for e in leaves}
        for i in sub:
            if pos[id(eterm[i])] > pos[id(lterm[i])]:
                return f"node {i} left before it was entered"
            if i != start and not (pos[id(eterm[p[i]])] < pos[id(eterm[i])] and pos[id(lterm[i])] < pos[id(lterm[p[i]])]):
                return f"node {i} not nested inside its parent's enter/leave"
    return ""


def _warm(t):
    """Query the tree through every traversal-based API once (whatever they cache is now warm)."""
    t.traverse(enter=lambda n, pv: None, leave=lambda n, cv: None)
    for i in range(len(t)):
        t.node(i).traverse(leave=lambda n, cv: None)
    t.get_branches(), t.get_paths(), t.get_furcations(), t.get_tips()


def check_tree(case, R):
    p = list(case[0])
    limit = case[1] if len(case) > 1 else 0
    edit = case[2] if len(case) > 2 else None
    n = len(p)
    if n < 2:
        R.trivial()
    t = build.make_tree(p)
    if edit is not None:
        # history: query, re-parent one node in place, query again -> must be the traversal of the CURRENT tree
        t, p, other, other_p = build.apply_reparent(t, p, edit, _warm)
        if other is not None:
            R.state("edited-copy-origin", other_p, edit)
            check_on(other, other_p, 0, R, "after-copy-edit:origin")
    R.state(p, edit)
    check_on(t, p, limit, R, "" if edit is None else "after-edit:" + edit[2])


def check_on(t, p, limit, R, tag):
    n = len(p)
    ch = ref.children(p)
    ids, pids = t.id().copy(), t.pid().copy()
    snap = build.snapshot(t)
    for start in range(n):
        for mode in MODES:
            for api in APIS:
                for as_np in (False, True):
                    def go():
                        if limit:
                            with recursion_limit(limit):
                                return traverse_once(api, t, ids, pids, start, mode, as_np)
                        return traverse_once(api, t, ids, pids, start, mode, as_np)

                    ok, res = R.impl(f"traverse:{api}", go)
                    if not ok:
                        continue
                    log, ret, bad = res
                    why = judge(p, ch, start, mode, log, ret, bad)
                    if why:
                        R.fail("traversal", f"{tag} p={p} start={start} mode={mode} api={api} np={as_np}: {why}",
                               f"traversal:{api}" + (":" + tag if tag else ""))
        R.outcome(len(ref.descendants_or_self(p, start)), len(ch[start]))
    R.check(build.snapshot(t) == snap, "input-modified", f"p={p}")


def check_kinds(case, R):
    """Every way of writing the callbacks (CB_KINDS) x every tree x every start x mode x API; two traversals per kind so that
    whatever a callback did to the list it was given cannot reach a later call."""
    p = list(case[0])
    n = len(p)
    if n < 2:
        R.trivial()
    R.state(p)
    t = build.make_tree(p)
    ch = ref.children(p)
    ids, pids = t.id().copy(), t.pid().copy()
    for kind in CB_KINDS[1:]:
        for start in range(n):
            for mode in MODES:
                for api in APIS:
                    for rep in (0, 1):
                        ok, res = R.impl(f"traverse:{api}", traverse_once, api, t, ids, pids, start, mode, False, None, kind)
                        if not ok:
                            continue
                        log, ret, bad = res
                        why = judge(p, ch, start, mode, log, ret, bad)
                        if why:
                            R.fail("traversal:callback-kind", f"callbacks written as '{kind}' p={p} start={start} mode={mode} api={api} (traversal #{rep + 1}): {why}",
                                   f"traversal:callback-kind:{kind}:{api}")
    R.outcome(n, len(ch[0]))


def big_tree(kind, n):
    if kind == "chain":
        return [-1] + list(range(n - 1))
    if kind == "comb":  # spine with a tooth at every spine node
        p = [-1]
        spine = 0
        while len(p) < n:
            p.append(spine)  # next spine node
            new_spine = len(p) - 1
            if len(p) < n:
                p.append(spine)  # tooth
            spine = new_spine
        return p
    if kind == "broom":  # long handle then a wide fan
        h = n // 2
        return [-1] + list(range(h - 1)) + [h - 1] * (n - h)
    if kind == "star":
        return [-1] + [0] * (n - 1)
    if kind == "revchain":  # chain numbered backwards from the far end (root still 0)
        # node 0 root, then node k's parent is k+1 ... so children have smaller ids than parents
        return [-1] + [i + 1 for i in range(1, n - 1)] + [0]
    raise ValueError(kind)


def check_big(case, R):
    kind, n, limit = case
    p = big_tree(kind, n)
    R.state(kind, n)
    ch = ref.children(p)
    from swcgeom.core import Tree

    t = Tree(n, id=np.arange(n, dtype=np.int32), pid=np.array(p, dtype=np.int32))
    ids, pids = t.id(), t.pid()
    starts = [0, n // 2]
    for start in starts:
        for mode in MODES:
            for api in ("topology", "tree"):
                def go():
                    if limit:
                        with recursion_limit(limit):
                            return traverse_once(api, t, ids, pids, start, mode, False)
                    return traverse_once(api, t, ids, pids, start, mode, False)

                ok, res = R.impl(f"traverse:{api}:deep", go, klass=f"raises:deep:{kind}")
                if not ok:
                    continue
                log, ret, bad = res
                why = judge(p, ch, start, mode, log, ret, bad)
                if why:
                    R.fail("traversal:deep", f"{kind} n={n} start={start} mode={mode} api={api}: {why}", f"traversal:deep:{api}")
    R.outcome(kind, n)


def check_sweep(case, R):
    """One chain length; the sweep covers EVERY length up to the bound, so any size threshold at which an
    implementation switches strategy (e.g. a recursive fast path for 'small' trees) is crossed."""
    kind, n, limit = case
    p = big_tree(kind, n) if n > 2 else ([-1] + [0] * (n - 1))
    R.state(kind, n, limit)
    if n < 2:
        R.trivial()
    ch = ref.children(p)
    from swcgeom.core import Tree

    t = Tree(n, id=np.arange(n, dtype=np.int32), pid=np.array(p, dtype=np.int32))
    ids, pids = t.id(), t.pid()
    for api in ("topology", "tree", "node"):
        if api != "topology" and n > 400 and n % 7:  # handle-based APIs are 10x slower: every 7th length above 400
            continue
        def go():
            if limit:
                with recursion_limit(limit):
                    return traverse_once(api, t, ids, pids, 0, "both", False)
            return traverse_once(api, t, ids, pids, 0, "both", False)

        ok, res = R.impl(f"traverse:{api}:sweep", go, klass=f"raises:depth-sweep:{kind}")
        if not ok:
            continue
        log, ret, bad = res
        why = judge(p, ch, 0, "both", log, ret, bad)
        if why:
            R.fail("traversal:sweep", f"{kind} n={n} api={api}: {why}", f"traversal:sweep:{api}")
    R.outcome(kind, min(n, 3), bool(limit))


class _Abort(Exception):
    pass


def check_reentrant(case, R):
    """A callback of the outer traversal itself starts a traversal (same tree, any start node; or another tree): both runs must be
    the structural recursion over their own subtree - the walk keeps no state outside the call."""
    p, api, start, kind, v, inner_kind, j = list(case[0]), case[1], case[2], case[3], case[4], case[5], case[6]
    n = len(p)
    R.state(case)
    t = build.make_tree(p)
    ids, pids = t.id().copy(), t.pid().copy()
    ch = ref.children(p)
    if inner_kind == "other":
        p2 = [-1, 0, 0, 1][: max(2, min(4, n))]
        t2 = build.make_tree(p2)
        ids2, pids2 = t2.id().copy(), t2.pid().copy()
    inner = []

    def hook(k, i):
        if k == kind and i == v and not inner:
            inner.append(None)  # once
            if inner_kind == "same":
                inner[0] = traverse_once(api, t, ids, pids, j, "both", False)
            else:
                inner[0] = traverse_once(api, t2, ids2, pids2, j % len(p2), "both", False)

    ok, res = R.impl(f"traverse:{api}:reentrant", traverse_once, api, t, ids, pids, start, "both", False, hook)
    if not ok:
        return
    log, ret, bad = res
    why = judge(p, ch, start, "both", log, ret, bad)
    ctx = f"p={p} api={api} outer start={start}; inner traversal ({inner_kind} tree, start {j}) launched from the {kind} callback of node {v}"
    if why:
        R.fail("traversal", f"{ctx}: OUTER run: {why}", f"traversal:{api}:reentrant:outer")
    if inner and inner[0] is not None:
        ilog, iret, ibad = inner[0]
        if inner_kind == "same":
            why2 = judge(p, ch, j, "both", ilog, iret, ibad)
        else:
            why2 = judge(p2, ref.children(p2), j % len(p2), "both", ilog, iret, ibad)
        if why2:
            R.fail("traversal", f"{ctx}: INNER run: {why2}", f"traversal:{api}:reentrant:inner")
    R.outcome(len(log), bool(inner))


def check_abort(case, R):
    """A traversal is aborted by an exception raised in one of its callbacks; every later traversal (same tree, every start; another
    tree) must be unaffected by what the aborted one left behind."""
    p, api, kind, v = list(case[0]), case[1], case[2], case[3]
    n = len(p)
    R.state(case)
    t = build.make_tree(p)
    ids, pids = t.id().copy(), t.pid().copy()
    ch = ref.children(p)

    def hook(k, i):
        if k == kind and i == v:
            raise _Abort()

    try:
        traverse_once(api, t, ids, pids, 0, "both", False, hook)
        aborted = False
    except _Abort:
        aborted = True
    except Exception as e:  # noqa: BLE001 - how the library surfaces a callback's exception is not part of the property
        aborted = True
        R.note("abort-surfaced-as:" + type(e).__name__)
    R.trans()
    if not aborted:
        R.note("callback-never-reached")
    for start in range(n):
        ok, res = R.impl(f"traverse:{api}:after-abort", traverse_once, api, t, ids, pids, start, "both", False)
        if ok:
            why = judge(p, ch, start, "both", *res)
            if why:
                R.fail("traversal", f"p={p} api={api} start={start}, after a traversal aborted in the {kind} callback of node {v}: {why}",
                       f"traversal:{api}:after-aborted-traversal")
    p2 = [-1, 0, 1, 1, 0]
    t2 = build.make_tree(p2)
    ok, res = R.impl(f"traverse:{api}:after-abort:other-tree", traverse_once, api, t2, t2.id().copy(), t2.pid().copy(), 0, "both", False)
    if ok:
        why = judge(p2, ref.children(p2), 0, "both", *res)
        if why:
            R.fail("traversal", f"other tree {p2} api={api}, after a traversal of p={p} aborted in the {kind} callback of node {v}: {why}",
                   f"traversal:{api}:after-aborted-traversal:other-tree")
    R.outcome(aborted, kind)


def spaces(tier, seed):
    hi = 6 if tier == "quick" else 7
    lim_hi = 5 if tier == "quick" else 6

    def gen():
        for n in range(1, hi + 1):
            for p in S.labelled_trees(n):
                yield (p,)

    def gen_lim():
        for n in range(1, lim_hi + 1):
            for p in S.labelled_trees(n):
                yield (p, 40)

    big_n = 10_000 if tier == "quick" else 100_000

    def gen_big():
        for kind in ("chain", "comb", "broom", "star", "revchain"):
            yield (kind, 150, 40)
            yield (kind, 2_000, 0)
            yield (kind, big_n, 0)

    ed_hi = 5 if tier == "quick" else 6
    sweep_hi = 1200 if tier == "quick" else 3000

    def gen_edit():
        for n in range(2, ed_hi + 1):
            for p in S.sorted_trees(n):
                for (i, j) in build.reparent_edits(p):
                    for how in build.EDIT_HOWS:
                        yield (p, 0, (i, j, how))

    def gen_sweep():
        for n in range(1, sweep_hi + 1):
            yield ("chain", n, 0)
            if n % 5 == 0:
                yield ("revchain", n, 0)
        for n in range(1, 201):
            yield ("chain", n, 40)
            yield ("revchain", n, 40)

    re_hi = 5 if tier == "quick" else 6

    def gen_reentrant():
        for n in range(1, re_hi + 1):
            for p in S.labelled_trees(n):
                for api in ("topology", "tree", "node"):
                    for start in range(n):
                        sub = ref.descendants_or_self(list(p), start)
                        for kind in ("enter", "leave"):
                            for v in sub:
                                for j in range(n):
                                    yield (p, api, start, kind, v, "same", j)
                                yield (p, api, start, kind, v, "other", v)

    def gen_abort():
        for n in range(1, re_hi + 2):
            for p in S.labelled_trees(n):
                for api in ("topology", "tree"):
                    for kind in ("enter", "leave"):
                        for v in range(n):
                            yield (p, api, kind, v)

    return [
        Space.of("callback-kinds", lambda: ((p,) for m in range(1, (5 if tier == "quick" else 6) + 1) for p in S.labelled_trees(m)), check_kinds,
                 bounds={"LT_max_nodes": 5 if tier == "quick" else 6, "callback_kinds": list(CB_KINDS), "starts": "all", "modes": MODES, "apis": APIS, "traversals_per_kind": 2}),
        Space.of("reentrant-callbacks", gen_reentrant, check_reentrant,
                 bounds={"LT_max_nodes": re_hi, "outer": "every start, both callbacks", "launch_point": "every (enter|leave, node) of the outer subtree",
                         "inner": "same tree from every start node; a fixed other tree", "apis": list(APIS)}),
        Space.of("aborted-then-traverse", gen_abort, check_abort,
                 bounds={"LT_max_nodes": re_hi + 1, "abort_point": "every (enter|leave, node)", "afterwards": "every start on the same tree; another tree",
                         "apis": ["topology", "tree"]}),
        Space.of("query-edit-query", gen_edit, check_tree, bounds={"ST_max_nodes": ed_hi, "edits": "every single re-parenting that keeps the tree well-formed", "how": build.EDIT_HOWS}),
        Space.of("depth-sweep", gen_sweep, check_sweep, bounds={"chain_lengths": f"every n in 1..{sweep_hi} (default recursion limit); every n in 1..200 with recursion headroom 40"}, case_timeout=600),
        Space.of("trees", gen, check_tree, bounds={"LT_max_nodes": hi, "starts": "all", "modes": MODES, "apis": APIS}),
        Space.of("trees-low-recursion-limit", gen_lim, check_tree, bounds={"LT_max_nodes": lim_hi, "recursion_headroom": 40}),
        Space.of("deep", gen_big, check_big, bounds={"kinds": 5, "max_nodes": big_n}, case_timeout=600),
    ]
