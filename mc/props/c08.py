"""C08 — branches, paths, tips and furcations decompose the tree exactly."""

from __future__ import annotations

import glob
import os

import numpy as np

from mc import build, ref, spaces as S
from mc.kernel import Space

PROPERTY = "C08"
RULE = (
    "every sorted tree ST(n) and every labelled tree LT(n) up to the tier bound, tagged generic geometry; "
    "per tree: get_branches/get_paths/get_tips/get_furcations/Node.branch/BranchTree.from_tree/ToBranchTree/"
    "ToLongestPath compared with the reference decomposition; histories query-all -> in-place re-parenting (every admissible single "
    "edit via node handle / column / on a copy) -> query-all again; branch trees of earlier cases re-inspected after later calls; non-trivial = at least 2 nodes; distinct = distinct parent table"
)
ASSUMPTIONS = [
    "generic geometry bank is tie-free (validated at start-up), so nodes are identified by coordinates",
    "ToLongestPath compared only when the longest root-to-tip path is unique by a 1e-3 margin",
]


def _ids(nodes):
    return [int(n.id) for n in nodes]


def _warm(t):
    """Run every decomposition query once (whatever they cache is warm afterwards)."""
    from swcgeom.core import BranchTree
    from swcgeom.transforms import ToLongestPath

    t.get_branches(), t.get_paths(), t.get_tips(), t.get_furcations()
    for i in range(len(t)):
        t.node(i).is_tip(), t.node(i).is_furcation()
    if len(t) >= 2:
        BranchTree.from_tree(t)
        ToLongestPath()(t)


def check_tree(case, R):
    kind, p = case[0], list(case[1])
    edit = case[2] if len(case) > 2 else None
    types = list(case[3]) if len(case) > 3 and case[3] is not None else None
    n = len(p)
    if n < 2:
        R.trivial()
    t = build.make_tree(p, types=types)
    if edit is not None:
        # history: query everything, re-parent one node in place, query again: answers must describe the CURRENT tree
        t, p, other, other_p = build.apply_reparent(t, p, edit, _warm)
        if other is not None:
            R.state("edited-copy-origin", other_p, edit)
            check_on(other, other_p, R)
    R.state(p, edit, types)
    check_on(t, p, R)


def check_on(t, p, R, nested=False):
    """nested: `t` is a branch tree judged as a tree in its own right (its own branch tree / longest path are not built again)."""
    n = len(p)
    tags = build.tags_xyz(t)
    snap = build.snapshot(t)
    ch = ref.children(p)
    ref_br = sorted(tuple(b) for b in ref.branches(p))
    R.outcome(len(ref_br), len(ref.tips(p)), len(ref.furcations(p)), ch[0].__len__())

    # ---- branches
    ok, brs = R.impl("get_branches", t.get_branches)
    got_br = None
    if ok:
        got_br = sorted(tuple(int(i) for i in b.origin_id().tolist()) for b in brs)
        edge_multi = sorted((a, b) for br in got_br for a, b in zip(br, br[1:]))
        want_edges = sorted(ref.edges(p))
        # property as worded
        klass_stem = "branches:edge-partition" + (":root-one-child" if len(ch[0]) == 1 else "")
        R.check(edge_multi == want_edges, "branches:edge-partition",
                lambda: f"p={p} branch edges {edge_multi} != tree edges {want_edges}; branches={got_br}", klass_stem)
        for br in got_br:
            s, e, mid = br[0], br[-1], br[1:-1]
            good = (p[s] == -1 or len(ch[s]) >= 2) and (len(ch[e]) >= 2 or len(ch[e]) == 0)
            good = good and all(len(ch[m]) == 1 and p[m] != -1 for m in mid) and len(br) >= 2
            good = good and all(p[b] == a for a, b in zip(br, br[1:]))
            R.check(good, "branches:shape", lambda: f"p={p} bad branch {br}")
        R.check(got_br == ref_br, "branches:reference", lambda: f"p={p} got {got_br} want {ref_br}",
                "branches:reference" + (":root-one-child" if len(ch[0]) == 1 else ""))
        # a branch reports its nodes' attributes
        for b in brs:
            oid = [int(i) for i in b.origin_id().tolist()]
            xyz = [tuple(float(v) for v in row) for row in b.xyz().tolist()]
            R.check(xyz == [tags[i] for i in oid], "branches:attributes", lambda: f"p={p} branch {oid} xyz {xyz}")

    # ---- paths
    ok, paths = R.impl("get_paths", t.get_paths)
    if ok:
        got = sorted(tuple(int(i) for i in q.origin_id().tolist()) for q in paths)
        want = sorted(tuple(q) for q in ref.root_to_tip_paths(p))
        R.check(got == want, "paths", lambda: f"p={p} got {got} want {want}")

    # ---- tips, furcations
    ok, tips = R.impl("get_tips", t.get_tips)
    if ok:
        R.check(sorted(_ids(tips)) == ref.tips(p), "tips", lambda: f"p={p} got {_ids(tips)} want {ref.tips(p)}")
    ok, fur = R.impl("get_furcations", t.get_furcations)
    if ok:
        R.check(sorted(_ids(fur)) == ref.furcations(p), "furcations", lambda: f"p={p} got {_ids(fur)} want {ref.furcations(p)}")
    for i in range(n):
        nd = t.node(i)
        R.trans()
        R.check(bool(nd.is_tip()) == (len(ch[i]) == 0) and bool(nd.is_furcation()) == (len(ch[i]) >= 2), "node:is_tip/is_furcation",
                lambda: f"p={p} node {i}")

    # ---- Node.branch()
    if n >= 2:
        for i in range(n):
            if len(ch[i]) >= 2:
                continue
            ok, b = R.impl("Node.branch", t.node(i).branch)
            if ok:
                got = tuple(int(v) for v in b.origin_id().tolist())
                want = [br for br in ref_br if i in br[1:] or (i == br[0] and p[i] == -1)]
                R.check(len(want) == 1 and got == want[0], "node.branch", lambda: f"p={p} node {i}: got {got} want {want}")

    # ---- branch tree
    if n >= 2 and not nested:
        from swcgeom.core import BranchTree
        from swcgeom.transforms import ToBranchTree

        for nm, fn in (("BranchTree.from_tree", lambda: BranchTree.from_tree(t)), ("ToBranchTree", lambda: ToBranchTree()(t))):
            ok, bt = R.impl(nm, fn, klass=f"raises:{nm}" + (":root-one-child" if len(ch[0]) == 1 else ""))
            if not ok:
                continue
            wf, why = build.wellformed(bt)
            R.check(wf, "branchtree:wellformed", lambda: f"p={p} {why}")
            R.retain(nm, lambda bt=bt: (build.canon_tree(bt), sorted((int(k), len(v), [b.xyzr().tolist() for b in v[:40]]) for k, v in bt.branches.items())))
            btags = build.tags_xyz(bt)
            crit = sorted({0} | set(ref.furcations(p)) | set(ref.tips(p)))
            R.check(sorted(btags) == sorted(tags[i] for i in crit), "branchtree:nodes",
                    lambda: f"p={p} nodes {btags} want critical {crit}")
            if wf and sorted(btags) == sorted(tags[i] for i in crit):
                tag2orig = {tags[i]: i for i in range(n)}
                bp = [int(v) for v in bt.pid().tolist()]
                got_e = sorted((tag2orig[btags[q]], tag2orig[btags[i]]) for i, q in enumerate(bp) if q != -1)
                want_e = sorted((b[0], b[-1]) for b in ref_br)
                R.check(got_e == want_e, "branchtree:edges", lambda: f"p={p} got {got_e} want {want_e}")
                # columns of the kept nodes
                for k in ("type", "r"):
                    col = bt.get_ndata(k).tolist()
                    src = t.get_ndata(k).tolist()
                    R.check(all(col[i] == src[tag2orig[btags[i]]] for i in range(len(bt))), "branchtree:columns", lambda: f"p={p} column {k}")
                # remembered branches
                seen = []
                for idx, lst in bt.branches.items():
                    for b in lst:
                        xyzr = [tuple(float(v) for v in row) for row in b.xyzr().tolist()]
                        seen.append((tag2orig.get(btags[idx], -9), tuple(xyzr)))
                want_b = sorted((b[0], tuple(tuple(float(v) for v in t.xyzr()[i].tolist()) for i in b)) for b in ref_br)
                R.check(sorted(seen) == want_b, "branchtree:origin-branches", lambda: f"p={p} remembered {sorted(seen)[:3]} want {want_b[:3]}")
                for s in set(b[0] for b in ref_br):
                    k = btags.index(tags[s])
                    okk, lst = R.impl("get_origin_node_branches", bt.get_origin_node_branches, k)
                    if okk:
                        R.check(len(lst) == sum(1 for b in ref_br if b[0] == s), "branchtree:node-branches", lambda: f"p={p} start {s}")
                R.check(len(bt.get_origin_branches()) == len(ref_br), "branchtree:all-branches", lambda: f"p={p}")
                # detached: editing the tree does not change remembered points and vice versa
                if nm == "BranchTree.from_tree":
                    before = sorted(seen)
                    saved = t.ndata["x"].copy()
                    t.ndata["x"] += 1
                    after = sorted((tag2orig.get(btags[idx], -9), tuple(tuple(float(v) for v in row) for row in b.xyzr().tolist()))
                                   for idx, lst in bt.branches.items() for b in lst)
                    t.ndata["x"][...] = saved
                    R.check(before == after, "branchtree:detached", lambda: f"p={p} remembered branch points follow edits of the tree")
                    undo = []
                    for lst in bt.branches.values():
                        for b in lst:
                            undo.append((b.attach.ndata["x"], b.attach.ndata["x"].copy()))
                            b.attach.ndata["x"] += 1
                    R.check(build.snapshot(t) == snap, "branchtree:detached", lambda: f"p={p} editing a remembered branch changed the tree")
                    for arr, old in undo:
                        arr[...] = old
                    # a copy of the branch tree is independent: emptying / editing what the COPY remembers leaves the original's memory alone
                    okc, bt2 = R.impl("BranchTree.copy", bt.copy)
                    if okc:
                        mem2 = sorted((tag2orig.get(btags[idx], -9), tuple(tuple(float(v) for v in row) for row in b.xyzr().tolist()))
                                      for idx, lst in bt2.branches.items() for b in lst)
                        R.check(mem2 == before and build.canon_tree(bt2) == build.canon_tree(bt), "branchtree:copy-differs", lambda: f"p={p} copy remembers {mem2[:3]}")
                        for lst in bt2.branches.values():
                            for b in lst:
                                b.attach.ndata["x"] += 1
                                b.attach.ndata["r"] *= 2
                            del lst[:]
                        bt2.branches.clear()
                        bt2.ndata["x"] += 1
                        now = sorted((tag2orig.get(btags[idx], -9), tuple(tuple(float(v) for v in row) for row in b.xyzr().tolist()))
                                     for idx, lst in bt.branches.items() for b in lst)
                        R.check(now == before and build.tags_xyz(bt) == btags, "branchtree:copy-not-independent",
                                lambda: f"p={p} after editing a copy() of the branch tree the original remembers {now[:3]}, before {before[:3]}")
                # the branch tree is a tree: its own tips / furcations / branches / paths must be right as well
                if wf:
                    check_on(bt, bp, R, nested=True)

    # ---- longest path
    if nested:
        R.check(build.snapshot(t) == snap, "input-modified", lambda: f"p={p} (branch tree)")
        return
    from swcgeom.transforms import ToLongestPath

    xyz64 = tags
    rp = ref.root_to_tip_paths(p)
    lens = sorted(((ref.polyline_length([xyz64[i] for i in q]), q) for q in rp), reverse=True)
    if len(lens) >= 2 and lens[0][0] - lens[1][0] < 1e-3:
        R.skip("longest-path-tie")
    else:
        best = lens[0][1]
        ok, lp = R.impl("ToLongestPath", lambda: ToLongestPath()(t))
        if ok:
            got = [tuple(float(v) for v in row) for row in lp.xyz().tolist()]
            R.check(got == [tags[i] for i in best], "longest-path", lambda: f"p={p} got {got} want nodes {best}")
        ok, lp = R.impl("ToLongestPath(detach=False)", lambda: ToLongestPath(detach=False)(t))
        if ok:
            got = [int(i) for i in lp.origin_id().tolist()]
            R.check(got == best, "longest-path", lambda: f"p={p} got {got} want {best}")

    R.check(build.snapshot(t) == snap, "input-modified", lambda: f"p={p}")


def check_derived(case, R):
    """Measure, derive, measure: every decomposition query is asked of a tree, a new tree is DERIVED from it by a library operation
    (copy, sort, sub tree, re-rooting, concatenation, geometric transform, file round trip ...), and the derived tree must answer
    every query for its own table - not for the tree it came from."""
    p, which = list(case[0]), case[1]
    R.state(p, which)
    t = build.make_tree(p)
    _warm(t)
    ok, d = R.impl(f"derive:{which}", build.derive, t, which)
    if not ok:
        return
    if d is None:
        R.trivial()
        return
    wf, why = build.wellformed(d)
    if not wf:
        R.note("derived-tree-not-wellformed")  # C03's business, not judged here
        return
    pd_ = [int(v) for v in d.pid().tolist()]
    before = R.n_viol
    check_on(d, pd_, R)
    if R.n_viol > before:
        R.note(f"violations on trees derived by {which}")
    check_on(t, p, R)  # and the original still answers for itself


def check_longest_dup(case, R):
    """ToLongestPath on trees with REPEATED terminal samples (a tip stored at the position of its parent: zero-length final edge, as
    tracing tools emit when a branch is closed with a double click): the result is a root-to-tip path - it ends at a childless node -
    of maximal length."""
    from swcgeom.transforms import ToLongestPath

    p, dup = list(case[0]), [int(i) for i in case[1]]
    n = len(p)
    R.state(p, dup)
    xyz, rad = build.generic_geometry(n, 0)
    xyz = [tuple(q) for q in xyz]
    for i in dup:
        xyz[i] = xyz[p[i]]
    t = build.make_tree(p, xyz=xyz, r=rad)
    ch = ref.children(p)
    paths = ref.root_to_tip_paths(p)
    lens = {tuple(q): ref.polyline_length([xyz[i] for i in q]) for q in paths}
    best = max(lens.values())
    for nm, fn, ids_of in (("ToLongestPath(detach=False)", lambda: ToLongestPath(detach=False)(t), lambda v: [int(i) for i in v.origin_id().tolist()]),):
        ok, lp = R.impl(nm, fn)
        if not ok:
            continue
        got = tuple(ids_of(lp))
        R.check(got in lens, "longest-path:not-a-root-to-tip-path", lambda: f"p={p} repeated tips {dup}: {nm} -> nodes {got}; last node has children {ch[got[-1]] if got else None}",
                "longest-path:not-root-to-tip:repeated-terminal-sample")
        if got in lens:
            R.check(lens[got] >= best - 1e-3, "longest-path:not-longest", lambda: f"p={p} repeated tips {dup}: {nm} -> {got} of length {lens[got]}, longest is {best}",
                    "longest-path:not-longest:repeated-terminal-sample")
    ok, lp = R.impl("ToLongestPath", lambda: ToLongestPath()(t))
    if ok:
        pts = [tuple(float(v) for v in row) for row in lp.xyz().tolist()]
        R.check(any(pts == [xyz[i] for i in q] for q in lens if lens[q] >= best - 1e-3), "longest-path:not-longest",
                lambda: f"p={p} repeated tips {dup}: detached longest path has points {pts}", "longest-path:detached:repeated-terminal-sample")
    R.outcome(len(dup), len(paths))


def check_file(case, R):
    """Decomposition invariants on a real reconstruction (reference computed on its parent table)."""
    from swcgeom.core import Tree

    path = os.path.join(os.environ.get("VERIF_REPO", "/repo"), case)
    t = Tree.from_swc(path)
    p = [int(v) for v in t.pid().tolist()]
    R.state(case, len(p))
    ok, brs = R.impl("get_branches", t.get_branches)
    if ok:
        got = sorted(tuple(int(i) for i in b.origin_id().tolist()) for b in brs)
        want = sorted(tuple(b) for b in ref.branches(p))
        R.check(got == want, "branches:reference", f"{case}: {len(got)} branches vs {len(want)}; first diff "
                f"{next(((a, b) for a, b in zip(got, want) if a != b), None)}",
                "branches:reference" + (":root-one-child" if len(ref.children(p)[0]) == 1 else ""))
    ok, paths = R.impl("get_paths", t.get_paths)
    if ok:
        got = sorted(tuple(int(i) for i in q.origin_id().tolist()) for q in paths)
        want = sorted(tuple(q) for q in ref.root_to_tip_paths(p))
        R.check(got == want, "paths", f"{case}")
    ok, tips = R.impl("get_tips", t.get_tips)
    if ok:
        R.check(sorted(_ids(tips)) == ref.tips(p), "tips", case)
    ok, fur = R.impl("get_furcations", t.get_furcations)
    if ok:
        R.check(sorted(_ids(fur)) == ref.furcations(p), "furcations", case)
    R.outcome(case, len(p))


def spaces(tier, seed):
    st_hi, lt_hi = (8, 6) if tier == "quick" else (9, 7)

    def gen():
        for n in range(1, st_hi + 1):
            for p in S.sorted_trees(n):
                yield ("ST", p)
        for n in range(3, lt_hi + 1):
            for p in S.labelled_trees(n):
                if not ref.is_sorted(p):
                    yield ("LT", p)

    ed_hi = 5 if tier == "quick" else 6

    def gen_edit():
        for n in range(2, ed_hi + 1):
            for p in S.sorted_trees(n):
                for (i, j) in build.reparent_edits(p):
                    for how in build.EDIT_HOWS:
                        yield ("ED", p, (i, j, how))

    ty_full, ty_hi = (4, 6) if tier == "quick" else (5, 7)

    def type_patterns(p):
        """The decomposition is a matter of the parent table alone: it must not depend on how nodes are typed."""
        n = len(p)
        ch = ref.children(list(p))
        tips = [i for i in range(n) if not ch[i]]
        furs = [i for i in range(n) if len(ch[i]) > 1]
        yield [1] * n  # every sample labelled soma (soma contours, unlabelled exports)
        yield [0] * n
        yield [3] * n  # no soma at all
        yield [1 if i == 0 or i in tips else 3 for i in range(n)]
        yield [1 if i in furs else 2 for i in range(n)]
        yield [3] + [1] * (n - 1)

    def gen_types():
        import itertools

        for n in range(1, ty_hi + 1):
            for p in list(S.sorted_trees(n)) + [q for q in (S.labelled_trees(n) if 3 <= n <= ty_full + 1 else ()) if not ref.is_sorted(q)]:
                if n <= ty_full:
                    for ty in itertools.product((1, 2, 3), repeat=n):
                        yield ("TY", p, None, ty)
                else:
                    for ty in type_patterns(p):
                        yield ("TY", p, None, tuple(ty))

    dv_hi = 5 if tier == "quick" else 6
    def gen_dup():
        import itertools

        for n in range(2, (6 if tier == "quick" else 7) + 1):
            for p in S.sorted_trees(n):
                tips = [i for i in ref.tips(list(p)) if i != 0]
                for k in range(1, len(tips) + 1):
                    for dup in itertools.combinations(tips, k):
                        yield (p, dup)

    out = [Space.of("longest-path-repeated-tips", gen_dup, check_longest_dup,
                    bounds={"ST_max_nodes": 6 if tier == "quick" else 7, "repeated": "every non-empty subset of the tips stored at their parent's position"}),
           Space.of("derived-trees", lambda: ((p, w) for n in range(1, dv_hi + 1) for p in S.labelled_trees(n) for w in build.DERIVATIONS), check_derived,
                    bounds={"LT_max_nodes": dv_hi, "derivations": list(build.DERIVATIONS), "note": "all queries asked of the source tree first"}),
           Space.of("typed-trees", gen_types, check_tree,
                    bounds={"all_type_vectors_over_{1,2,3}_up_to_nodes": ty_full, "patterns_up_to_nodes": ty_hi,
                            "patterns": ["all 1", "all 0", "all 3", "root and tips 1", "furcations 1 / others 2", "root 3, others 1"]}),
           Space.of("query-edit-query", gen_edit, check_tree, bounds={"ST_max_nodes": ed_hi, "edits": "every single re-parenting that keeps the tree well-formed", "how": build.EDIT_HOWS}),
           Space.of("trees", gen, check_tree, bounds={"ST_max_nodes": st_hi, "LT_max_nodes": lt_hi, "geometry": "generic bank 0"})]
    if tier == "thorough":
        files = sorted(glob.glob("/repo/examples/data/*.swc"))
        out.append(Space.of("example-files", lambda: [os.path.relpath(f, "/repo") for f in files], check_file,
                            bounds={"files": len(files)}))
    return out
