"""C19 — population containers index correctly and load each file at most once, on demand.

Observation seam: ONE process-wide `sys.addaudithook` (audit hooks cannot be removed; forked workers
inherit it) that appends every "open" event under the currently watched scratch directory to a
swappable log.  Every library operation is executed inside `watch(...)`; the harness's own file
writes happen outside it.

Model: a population over files in the harness's own `os.walk` order; a *view* is a list of positions
into that order (slice, nested slice, chain, filter); the only persistent state is the set of files
already read.  After every real operation: returned trees carry the tag of the expected files,
out-of-range raises IndexError, and the files opened during the operation are exactly
(requested - already read), optionally plus the first file of a Population being constructed.
"""

from __future__ import annotations

import collections
import copy
import itertools
import os
import shutil
import sys
import tempfile

import numpy as np

from mc import build, kernel, spaces as S
from mc.kernel import Space

PROPERTY = "C19"
RULE = (
    "history: every subset (incl. empty) of a 4 (quick) / 5 (thorough) file universe with nested folders, decoy files, an empty folder and "
    "a folder named like a file x 5 constructors (from_swc, LazyLoadingTrees from a list / from a generator, deprecated path list lazy / eager); "
    "BFS over access histories (depth bound 3 / 4; the frontier empties earlier: complete reachable graph), canonical state = files read + "
    "per-file open counts + cache occupancy; events = {population, every slice with a distinct index list, Population(slice), nested slices, "
    "chains of the cache and slices given as list / tuple / generator (wrapped in a Population and bare), every filter subset, "
    "PopulationTransform} x {len, every index in [-m-1, m] (int and numpy int), full iteration, every partial iteration}; quick runs the full "
    "alphabet for from_swc and eager and a core alphabet (population, slices, Population(slice), 3 chains) for the other constructors; up to 4 "
    "trees handed out earlier are re-inspected after every later operation; a violating transition is reported and not expanded.  "
    "two-populations: two populations alive at once over the same / over different directories (every pair of subsets of 2 / 3 files), BFS over "
    "the same accesses on either and on chains across both.  index-slice: every subset of a 5 / 7 file universe, every slice (bounds None and "
    "[-n-2, n+2], 5 / 7 steps) x every index.  chains: every composition of N <= 6 / 8 (in-memory members) and N <= 4 / 6 (file-backed: lazy, "
    "slices of a shared lazy population, mixed, chain of chains) into <= 4 parts, zeros allowed, x {list, tuple, generator} x every index in "
    "[-N-1, N] ascending on the bare chain and descending on Population(chain), iteration, partial iteration.  sizes: every population size "
    "0..16 / 0..64 and every member count 1..48 / 1..200 x 3 size patterns, every index.  populations: every ordered pair of subsets of a 4 / 5 "
    "file universe for two roots (+ one root, + three roots over 2 / 3 files) x {intersect, plain, check_same} x arguments as list / tuple / "
    "generator / Populations(iterable) x creation order; len, rows, negative / out-of-range / slices (equal lengths only), iteration, labels, "
    "to_population in both access orders.  map-transform: real process pool on 3 / 16 layouts x 10 modes.  Non-trivial = at least one tree "
    "in the container; distinct = distinct case."
)
ASSUMPTIONS = [
    "CPython raises the audit event 'open' for every way the library can read a file (open, io.open, os.open); the spy is "
    "self-tested in every case (a harness read must be logged) and a requested, never-read file that is returned without an "
    "open event is reported (kind open:unobserved) rather than trusted",
    "'the i-th file' is the i-th .swc file of the harness's own os.walk of the unmodified directory (recomputed, never assumed sorted); "
    "with intersect=True the row order is left free (set order) and only the row contents are asserted",
    "trees are identified by a coordinate tag written into the file (x = 1000*(root+1) + 10*(file+1) + node) and the node count",
    "encoding='detect' (an explicit request to read the file twice per load) and eswc variants are outside the checked space",
    "Population.map is run inside a kernel worker by clearing the worker's multiprocessing 'daemon' flag for the call",
]

_EXT = [".swc"]  # extension of the files the current case is about: ".swc" (from_swc) or ".eswc" (from_eswc)
_STEMS = ("a", "b", "sub/c", "sub/deep/d", "sub/a", "sub/deep/e", "z")


def set_ext(ext):
    _EXT[0] = ext


class _Universe:
    """The case's file names: stems + the extension under test (so that every space can be run for .swc and for .eswc)."""

    def __getitem__(self, k):
        if isinstance(k, slice):
            return tuple(x + _EXT[0] for x in _STEMS[k])
        return _STEMS[k] + _EXT[0]

    def __len__(self):
        return len(_STEMS)

    def __iter__(self):
        return iter(x + _EXT[0] for x in _STEMS)

    def index(self, rel):
        return [x + _EXT[0] for x in _STEMS].index(rel)


UNIVERSE = _Universe()
_DECOY_FILES = ("notes.txt", "sub/readme.txt", "b.swc.bak", "swc", "sub/deep/d.swc.txt", "b.eswc.bak", "eswc")
DECOY_DIRS = ("empty", "trap.swc", "sub/void", "trap.eswc")


def decoy_files():
    """Files that must never be taken for members - among them same-named files with the OTHER extension."""
    other = ".eswc" if _EXT[0] == ".swc" else ".swc"
    return _DECOY_FILES + ("a" + other, "sub/c" + other, "q" + other)


ESWC_TAIL = " 1 2 3 4 5"  # the five extra eswc columns
RADIUS = 1.0
MARK = 7.0


# --------------------------------------------------------------------------- file-open spy

_SPY = {"installed": False, "prefix": None, "log": None}


def _hook(event, args):
    if event != "open":
        return
    pre = _SPY["prefix"]
    if pre is None:
        return
    try:
        a = args[0]
        if not isinstance(a, (str, bytes)):
            a = os.fspath(a)
        if isinstance(a, bytes):
            a = os.fsdecode(a)
        a = os.path.abspath(a)
        if a.startswith(pre):
            _SPY["log"].append(a)
    except Exception:  # noqa: BLE001 - fds and exotic arguments are not files of ours
        return


class watch:
    """Log every file opened under `prefix` while the block runs."""

    def __init__(self, prefix):
        self.prefix = prefix.rstrip(os.sep) + os.sep
        self.log = []

    def __enter__(self):
        if not _SPY["installed"]:
            sys.addaudithook(_hook)
            _SPY["installed"] = True
        self.old = (_SPY["prefix"], _SPY["log"])
        _SPY["prefix"], _SPY["log"] = self.prefix, self.log
        return self.log

    def __exit__(self, *a):
        _SPY["prefix"], _SPY["log"] = self.old
        return False


class Scratch:
    def __enter__(self):
        self.dir = os.path.realpath(tempfile.mkdtemp(prefix="c19-"))
        return self

    def __exit__(self, *a):
        shutil.rmtree(self.dir, ignore_errors=True)
        return False


class Cwd:
    """Temporarily change the working directory (None = leave it)."""

    def __init__(self, d):
        self.d, self.old = d, None

    def __enter__(self):
        if self.d is not None:
            self.old = os.getcwd()
            os.chdir(self.d)
        return self

    def __exit__(self, *a):
        if self.old is not None:
            os.chdir(self.old)
        return False


ROOT_SPELLINGS = {0: "absolute", 1: "absolute + trailing separator", 2: "trailing separator on every second root only",
                  3: "relative ./name (working directory = parent)", 4: "relative name + trailing separator"}


def spell_root(root, r, spell, base):
    if spell == 1 or (spell == 2 and r % 2 == 0):
        return root + os.sep
    if spell == 3:
        return "." + os.sep + os.path.relpath(root, base)
    if spell == 4:
        return os.path.relpath(root, base) + os.sep
    return root


def spy_selftest(R, sc):
    p = os.path.join(sc.dir, "spy-selftest")
    with open(p, "w") as f:
        f.write("x")
    with watch(sc.dir) as log:
        with open(p) as f:
            f.read()
    os.remove(p)
    if log != [p]:
        raise RuntimeError(f"harness: audit-hook spy does not see file opens: {log}")


# --------------------------------------------------------------------------- files, tags


def n_nodes(f):
    return f + 2


def want_tag(r, f, radius=RADIUS):
    return tuple(float(1000 * (r + 1) + 10 * (f + 1) + j) for j in range(n_nodes(f))) + (float(radius),)


def swc_text(r, f):
    base = 1000 * (r + 1) + 10 * (f + 1)
    rows = [f"# tag {r} {f}"]
    for j in range(n_nodes(f)):
        rows.append(f"{j + 1} {1 if j == 0 else 3} {base + j} 0 0 {RADIUS:g} {j if j else -1}" + (ESWC_TAIL if _EXT[0] == ".eswc" else ""))
    return "\n".join(rows) + "\n"


def tag_of(t):
    try:
        return tuple(float(v) for v in t.x().tolist()) + (float(t.r().tolist()[0]),)
    except Exception:  # noqa: BLE001 - not a tree
        return ("not-a-tree", type(t).__name__)


def decode(tag):
    """(root, file) of a tag, or None."""
    try:
        v = int(tag[0])
        r, rest = v // 1000 - 1, v % 1000
        f = rest // 10 - 1
        if r >= 0 and f >= 0 and tag[:-1] == want_tag(r, f)[:-1]:
            return (r, f)
    except Exception:  # noqa: BLE001
        pass
    return None


def write_root(path, files, r=0, decoys=True, reverse=False):
    """Directory `path` holding UNIVERSE[f] for f in files (created in that order, or reversed)."""
    os.makedirs(path)
    order = list(files)[::-1] if reverse else list(files)
    for f in order:
        p = os.path.join(path, UNIVERSE[f])
        os.makedirs(os.path.dirname(p), exist_ok=True)
        with open(p, "w") as fh:
            fh.write(swc_text(r, f))
    if decoys:
        for i, d in enumerate(decoy_files()):
            p = os.path.join(path, d)
            os.makedirs(os.path.dirname(p), exist_ok=True)
            with open(p, "w") as fh:
                fh.write(swc_text(8, i))
        for d in DECOY_DIRS:
            os.makedirs(os.path.join(path, d), exist_ok=True)
        # folders that are symbolic LINKS to a sibling / an ancestor folder (data sets assembled with links): their content is reachable
        # through the real folder already and must not be listed a second time (or for ever)
        for name, target in (("zz-link-to-sub", "sub"), (os.path.join("sub", "zz-link-up"), os.pardir)):
            if os.path.isdir(os.path.join(path, os.path.dirname(name))):
                try:
                    os.symlink(target, os.path.join(path, name), target_is_directory=True)
                except OSError:
                    pass


def is_swc_name(name):
    stem, dot, ext = name.rpartition(".")
    return dot == "." and "." + ext == _EXT[0] and stem != ""


def walk_order(root):
    """File indices (into UNIVERSE) of the .swc files under root, in os.walk order."""
    out = []
    for r, _dirs, files in os.walk(root):
        for f in files:
            if is_swc_name(f):
                rel = os.path.relpath(os.path.join(r, f), root).replace(os.sep, "/")
                out.append(UNIVERSE.index(rel))
    return out


def sl(t):
    return slice(t[0], t[1], t[2])


def norm(p):
    return os.path.normpath(p)


# --------------------------------------------------------------------------- open-log judge


def judge_opens(R, what, log, keyof, loaded, must, may, ctx, result_ok=True):
    """Compare the files opened during one operation with the model.  Returns the set of keys opened.

    `result_ok=False` (the operation already returned a wrong result) suppresses the 'requested but not opened' report."""
    cnt = collections.Counter(keyof(x) for x in log)
    for k, c in sorted(cnt.items(), key=repr):
        if isinstance(k, str):
            R.fail("open:not-a-population-file", f"{ctx()}: opened {k}", f"open:decoy:{what}")
        elif k in loaded:
            R.fail("open:reload", f"{ctx()}: file {k} was read before and is opened again (x{c})", f"open:reload:{what}")
        elif c > 1:
            R.fail("open:twice", f"{ctx()}: file {k} opened {c} times by one operation", f"open:twice:{what}")
        elif k not in must and k not in may:
            R.fail("open:unrequested", f"{ctx()}: file {k} opened but only {sorted(must)} requested (probe allowed: {sorted(may)})",
                   f"open:unrequested:{what}")
    for k in sorted(must) if result_ok else ():
        if k not in loaded and k not in cnt:
            R.fail("open:unobserved", f"{ctx()}: file {k} requested, never read before, and no open was seen", f"open:unobserved:{what}")
    return set(k for k in cnt if not isinstance(k, str))


def make_keyof(prefixes):
    """prefixes: list of (root_path, r).  Maps an absolute path to (r, f) or a 'decoy:...' string."""
    table = {}
    for root, r in prefixes:
        for f, rel in enumerate(UNIVERSE):
            table[norm(os.path.join(root, rel))] = (r, f)

    def keyof(path):
        return table.get(norm(path), "decoy:" + os.path.basename(path))

    return keyof


# --------------------------------------------------------------------------- views (model)


def accesses(m, npkeys=False):
    out = [["len"], ["iter"]]
    out += [["idx", k] for k in range(-m - 1, m + 1)]
    if npkeys:
        out += [["npidx", k] for k in range(-m - 1, m + 1)]
    out += [["part", j] for j in range(1, m)]
    return out


def slice_menu(n, steps, pad=2):
    vals = [None] + list(range(-n - pad, n + pad + 1))
    for s in steps:
        for a in vals:
            for b in vals:
                yield (a, b, s)


def dedup_slices(n, steps):
    seen, out = set(), []
    base = list(range(n))
    for t in slice_menu(n, steps, pad=1):
        key = tuple(base[sl(t)])
        if key not in seen:
            seen.add(key)
            out.append(t)
    return out


def view_of(spec, n):
    base = list(range(n))
    k = spec[0]
    if k in ("base", "xform"):
        return base
    if k in ("slice", "pop"):
        return base[sl(spec[1:4])]
    if k == "pop2":
        return base[sl(spec[1])][sl(spec[2])]
    if k == "chain":
        v = []
        for m in spec[2]:
            v += base if m[0] == "trees" else base[sl(m[1:4])]
        return v
    if k == "filter":
        keep = set(spec[1])
        return [i for i in base if i in keep]
    raise ValueError(spec)


def construct_effects(spec, n):
    """(positions requested by constructing the view, positions a Population probe may read)."""
    k = spec[0]
    base = list(range(n))
    if k in ("filter", "xform"):
        return set(base), set()
    if k == "pop":
        return set(), set(view_of(spec, n)[:1])
    if k == "pop2":
        return set(), set(base[sl(spec[1])][:1])
    if k == "chain" and spec[1]:
        return set(), set(view_of(spec, n)[:1])
    return set(), set()


def expected(acc, view, tags):
    """(observation, requested positions) of an access on a view; tags[pos] = expected tag."""
    m = len(view)
    a = acc[0]
    if a == "len":
        return ["len", m], set()
    if a in ("idx", "npidx"):
        k = acc[1]
        if -m <= k < m:
            return ["tree", tags(view[k])], {view[k]}
        return ["IndexError"], set()
    if a == "iter":
        return ["trees", [tags(i) for i in view]], set(view)
    if a == "part":
        return ["trees", [tags(i) for i in view[: acc[1]]]], set(view[: acc[1]])
    raise ValueError(acc)


def do_access(obj, acc, sink=None):
    """Run the access on the real container; normalised observation.  Returned trees are appended to `sink`."""
    a = acc[0]

    def tg(t):
        if sink is not None:
            sink.append(t)
        return tag_of(t)

    try:
        if a == "len":
            return ["len", int(len(obj))]
        if a == "idx":
            return ["tree", tg(obj[acc[1]])]
        if a == "npidx":
            return ["tree", tg(obj[np.int64(acc[1])])]
        has_iter = hasattr(type(obj), "__iter__")
        if a == "iter":
            if has_iter:
                return ["trees", [tg(t) for t in obj]]
            return ["trees", [tg(obj[i]) for i in range(len(obj))]]
        if a == "part":
            j = acc[1]
            if has_iter:
                it = iter(obj)
                return ["trees", [tg(next(it)) for _ in range(j)]]
            return ["trees", [tg(obj[i]) for i in range(j)]]
    except IndexError:
        return ["IndexError"]
    except kernel.CaseTimeout:
        raise
    except BaseException as e:  # noqa: BLE001
        return ["raises", type(e).__name__, str(e)[:200]]
    raise ValueError(acc)


KEEP = 4  # trees kept alive along a history and re-inspected after every later operation


def snap_tree(t):
    try:
        return build.snapshot(t)
    except Exception as e:  # noqa: BLE001
        return ("not-a-tree", repr(e)[:80])


class _Mark:
    """Tree -> Tree transform used with PopulationTransform: a copy whose radii are MARK."""

    _inner = None

    def __call__(self, t):
        from swcgeom.transforms import RadiusReseter

        if _Mark._inner is None:
            _Mark._inner = RadiusReseter(MARK)
        return _Mark._inner(t)


def as_iterable(items, kind):
    if kind == "list":
        return list(items)
    if kind == "tuple":
        return tuple(items)
    if kind == "gen":
        return (x for x in items)
    raise ValueError(kind)


def build_view(p, spec, order):
    """Construct the derived container with the real code."""
    from swcgeom.core import Population
    from swcgeom.core.population import ChainTrees, filter_population
    from swcgeom.transforms import PopulationTransform

    k = spec[0]
    if k == "base":
        return p
    if k == "slice":
        return p[sl(spec[1:4])]
    if k == "pop":
        return Population(p[sl(spec[1:4])])
    if k == "pop2":
        return Population(p[sl(spec[1])])[sl(spec[2])]
    if k == "chain":
        members = [p.trees if m[0] == "trees" else p[sl(m[1:4])] for m in spec[2]]
        c = ChainTrees(as_iterable(members, spec[3]))
        return Population(c) if spec[1] else c
    if k == "filter":
        keep = set(order[i] for i in spec[1])
        return filter_population(p, lambda t: (decode(tag_of(t)) or (None, None))[1] in keep)
    if k == "xform":
        return PopulationTransform(_Mark())(p)
    raise ValueError(spec)


def spec_kind(spec):
    k = spec[0]
    if k == "chain":
        return f"chain-{'pop' if spec[1] else 'raw'}-{spec[3]}"
    return k


# --------------------------------------------------------------------------- history space

VARIANTS = ("from_swc", "lazy-list", "lazy-gen", "deprecated", "eager", "from_eswc", "from_swc(ext)")
_EVENTS: dict = {}

CHAIN_T = ["trees"]
CHAIN_H = ["slice", None, 1, None]
CHAIN_R = ["slice", None, None, -1]
CHAIN_E = ["slice", 0, 0, None]
CHAIN_L = ["slice", -1, None, None]


def history_events(n, tier, menu="full"):
    """Event alphabet on a population of n files.  menu 'core' = population, slices, Population(slice), 3 chains."""
    key = (n, tier, menu)
    if key in _EVENTS:
        return _EVENTS[key]
    steps = (None, 1, 2, -1, -2) if tier == "quick" else (None, 1, 2, 3, -1, -2, -3)
    specs = [["base"]]
    for t in dedup_slices(n, steps):
        specs.append(["slice", *t])
        specs.append(["pop", *t])
    if menu == "core":
        for ci, c in enumerate([[CHAIN_T], [CHAIN_H, CHAIN_T], [CHAIN_R, CHAIN_E, CHAIN_T]]):
            for wrap in (True, False):
                specs.append(["chain", wrap, c, ("gen", "list", "tuple")[ci % 3]])
        ev = [[spec, acc] for spec in specs for acc in accesses(len(view_of(spec, n)), npkeys=(spec[0] == "base"))]
        _EVENTS[key] = ev
        return ev
    outer = [(None, None, None), (1, None, None), (None, None, -1), (None, -1, None)]
    inner = [(None, None, 2), (1, None, None), (None, -1, None), (None, None, -1), (0, 0, None)]
    for o in outer:
        for i in inner:
            specs.append(["pop2", list(o), list(i)])
    menu = [CHAIN_T, CHAIN_H, CHAIN_R, CHAIN_E] + ([CHAIN_L] if tier != "quick" else [])
    chains = [[]] + [[a] for a in menu] + [[a, b] for a in menu for b in menu]
    chains += [[CHAIN_E, CHAIN_T, CHAIN_E], [CHAIN_L, CHAIN_E, CHAIN_H], [CHAIN_T, CHAIN_T, CHAIN_T], [CHAIN_E, CHAIN_E, CHAIN_R, CHAIN_H]]
    for ci, c in enumerate(chains):
        # quick: Population(chain) and the bare chain alternate over the two-member chains; thorough: both for every chain
        for wrap in ((True, False) if (tier != "quick" or len(c) != 2) else ((ci % 2 == 0),)):
            specs.append(["chain", wrap, c, ("list", "gen", "tuple")[ci % 3]])
    for mask in S.subsets(range(n)):
        specs.append(["filter", list(mask)])
    specs.append(["xform"])
    ev = []
    for spec in specs:
        m = len(view_of(spec, n))
        for acc in accesses(m, npkeys=(spec[0] in ("base", "pop"))):
            if spec[0] == "filter" and acc[0] not in ("len", "iter"):
                continue
            ev.append([spec, acc])
    _EVENTS[key] = ev
    return ev


ESWC_VARIANTS = ("from_eswc", "from_swc(ext)")


def menu_of(variant, tier):
    return "full" if (tier != "quick" or variant in ("from_swc", "eager", "from_eswc")) else "core"


def make_population(variant, root, paths):
    from swcgeom.core import Population
    from swcgeom.core.population import LazyLoadingTrees

    if variant == "from_swc":
        return Population.from_swc(root)
    if variant == "from_eswc":
        return Population.from_eswc(root)
    if variant == "from_swc(ext)":
        return Population.from_swc(root, ext=".eswc", extra_cols=["level", "mode", "timestamp", "teraflyindex", "feature_value"])
    if variant == "lazy-list":
        return Population(LazyLoadingTrees(list(paths)), root=root)
    if variant == "lazy-gen":
        return Population(LazyLoadingTrees(p for p in paths), root=root)
    if variant == "deprecated":
        return Population(list(paths), root=root)
    if variant == "eager":
        return Population(list(paths), lazy_loading=False, root=root)
    raise ValueError(variant)


def occupancy(p):
    slots = getattr(getattr(p, "trees", None), "trees", None)
    if isinstance(slots, list):
        return [x is not None for x in slots]
    return None


def setup_population(R, sc, files, variant, r=0, name="pop"):
    """Write the layout, construct the population under the spy, judge the construction.

    Returns (population, order, keyof, loaded) or None when construction failed.
    """
    from swcgeom.core import Population

    root = os.path.join(sc.dir, name)
    write_root(root, files, r=r)
    order = walk_order(root)
    assert sorted(order) == sorted(files), (order, files)
    paths = [os.path.join(root, UNIVERSE[f]) for f in order]
    keyof = make_keyof([(root, r)])
    ctx = lambda: f"files={[UNIVERSE[f] for f in order]} (walk order) constructor={variant}"  # noqa: E731

    with watch(sc.dir) as log:
        if _EXT[0] == ".swc":
            ok, listed = R.impl("find_swcs", Population.find_swcs, root)
            ok2, listed_rel = R.impl("find_swcs(relpath)", Population.find_swcs, root, relpath=True)
        else:
            ok, listed = R.impl("find_swcs", Population.find_swcs, root, _EXT[0])
            ok2, listed_rel = R.impl("find_swcs(relpath)", Population.find_swcs, root, ext=_EXT[0], relpath=True)
    if ok:
        R.check([norm(x) for x in listed] == [norm(x) for x in paths], "find_swcs",
                lambda: f"{ctx()}: find_swcs -> {[os.path.relpath(x, root) for x in listed]}", "find_swcs:listing")
    if ok2:
        R.check([norm(x) for x in listed_rel] == [norm(UNIVERSE[f]) for f in order], "find_swcs",
                lambda: f"{ctx()}: find_swcs(relpath=True) -> {listed_rel}", "find_swcs:relpath")
    R.check(log == [], "open:listing-reads-files", lambda: f"{ctx()}: find_swcs opened {log}", "open:listing")

    with watch(sc.dir) as log:
        ok, p = R.impl(f"construct:{variant}", make_population, variant, root, paths)
    if not ok:
        return None
    may = {(r, f) for f in order} if variant == "eager" else {(r, f) for f in order[:1]}
    loaded = judge_opens(R, f"construct:{variant}", log, keyof, set(), set(), may, ctx)
    return p, order, keyof, loaded


def check_history(case, R):
    files, variant, depth, tier = list(case[0]), case[1], int(case[2]), case[3]
    set_ext(".eswc" if variant in ESWC_VARIANTS else ".swc")
    n = len(files)
    if n == 0:
        R.trivial()
    with Scratch() as sc:
        spy_selftest(R, sc)
        got = setup_population(R, sc, files, variant)
        if got is None:
            return
        p0, order, keyof, loaded0 = got
        tags = lambda pos, radius=RADIUS: list(want_tag(0, order[pos], radius))  # noqa: E731
        events = history_events(n, tier, menu_of(variant, tier))

        def canon(s):
            return (files, variant, sorted(s["loaded"]), s["counts"], occupancy(s["pop"]))

        def step(s, ev):
            spec, acc = ev
            v0 = R.n_viol
            p, kept = copy.deepcopy((s["pop"], s["kept"]))
            sink = []
            hist = s["hist"] + [ev]
            ctx = lambda: f"files={[UNIVERSE[f] for f in order]} constructor={variant} history={hist} read-before={sorted(f for _, f in s['loaded'])}"  # noqa: E731
            view = view_of(spec, n)
            creq, cprobe = construct_effects(spec, n)
            tg = (lambda pos: tags(pos, MARK)) if spec[0] == "xform" else tags
            want, areq = expected(acc, view, tg)
            sk = spec_kind(spec)
            with watch(sc.dir) as log:
                try:
                    obj = build_view(p, spec, order)
                    obs = do_access(obj, acc, sink)
                except kernel.CaseTimeout:
                    raise
                except BaseException as e:  # noqa: BLE001
                    obs = ["construct-raises", type(e).__name__, str(e)[:200]]
            obs = kernel.jsonable(obs)
            want = kernel.jsonable(want)
            if obs != want:
                if want == ["IndexError"]:
                    kl = f"index:out-of-range:{sk}"
                elif obs[0] in ("raises", "construct-raises", "IndexError"):
                    kl = f"raises:{sk}:{acc[0]}:{obs[1] if len(obs) > 1 else 'IndexError'}"
                else:
                    kl = f"result:{sk}:{acc[0]}"
                R.fail(f"result:{acc[0]}", f"{ctx()}: got {obs} want {want}", kl)
            must = {(0, order[i]) for i in (creq | areq)}
            may = {(0, order[i]) for i in cprobe}
            opened = judge_opens(R, f"{sk}:{acc[0]}", log, keyof, s["loaded"], must, may, ctx, obs == want)
            counts = list(s["counts"])
            for x in log:
                k = keyof(x)
                if not isinstance(k, str):
                    counts[order.index(k[1])] += 1
            R.outcome(sk, acc[0], obs[0], len(opened))
            # trees handed out earlier in this history must still be what they were
            for t, snap, label in kept:
                if snap_tree(t) != snap:
                    R.fail("retained-tree-changed", f"{ctx()}: the tree returned by {label} changed its content during the last operation",
                           f"retained-tree-changed:{sk}:{acc[0]}")
            kept = (kept + [[t, snap_tree(t), f"history {hist}"] for t in sink[-2:]])[-KEEP:]
            if R.n_viol > v0:
                # implementation and model have diverged: the violating state is reported and not expanded
                R.trans()
                R.note("bfs-pruned-after-violation")
                return None
            return {"pop": p, "loaded": frozenset(s["loaded"] | opened), "counts": tuple(counts), "hist": hist, "kept": kept}

        init = {"pop": p0, "loaded": frozenset(loaded0), "counts": tuple(1 if (0, f) in loaded0 else 0 for f in order), "hist": [], "kept": []}
        st = kernel.bfs(R, [init], lambda s: events, step, canon, None, max_depth=depth)
        R.note("bfs-fixpoint" if st["fixpoint"] else "bfs-depth-capped")
        R.note("bfs-states", st["states"])
        # across cases (same worker): a tree handed out here must survive the populations of the next cases
        if n:
            with watch(sc.dir):
                okk, t = R.attempt(lambda: p0[0])
            if okk:
                R.retain("first tree of a population", lambda t=t: snap_tree(t))


# --------------------------------------------------------------------------- index-slice space


def check_index_slice(case, R):
    set_ext(".swc")
    files, steps = list(case[0]), [None if s is None else int(s) for s in case[1]]
    n = len(files)
    if n == 0:
        R.trivial()
    with Scratch() as sc:
        spy_selftest(R, sc)
        got = setup_population(R, sc, files, "from_swc")
        if got is None:
            return
        p, order, keyof, loaded = got
        tags = [list(want_tag(0, f)) for f in order]
        ctx0 = lambda: f"files={[UNIVERSE[f] for f in order]}"  # noqa: E731
        R.state(files)
        # read everything once, by iteration
        with watch(sc.dir) as log:
            obs = do_access(p, ["iter"])
        R.trans()
        R.check(kernel.jsonable(obs) == ["trees", tags], "result:iter", lambda: f"{ctx0()}: iteration gave {obs}", "result:base:iter")
        loaded |= judge_opens(R, "base:iter", log, keyof, loaded, {(0, f) for f in order}, set(), ctx0)
        base = list(range(n))
        with watch(sc.dir) as log:
            for acc in accesses(n, npkeys=True):
                want, _ = expected(acc, base, lambda i: tags[i])
                obs = kernel.jsonable(do_access(p, acc))
                R.trans()
                R.check(obs == kernel.jsonable(want), f"result:{acc[0]}", lambda: f"{ctx0()}: p{acc} -> {obs} want {want}",
                        f"result:base:{acc[0]}" if want != ["IndexError"] else "index:out-of-range:base")
            for t in slice_menu(n, steps):
                view = base[sl(t)]
                if log or R.n_viol > 200:
                    break  # already a violation (reported below); no point in enumerating the rest
                ok, s = R.impl("slice", lambda: p[sl(t)])
                if not ok:
                    continue
                R.outcome(len(view), view[:1], t[2])
                m = len(view)
                for acc in [["len"]] + [["idx", k] for k in range(-m - 1, m + 1)]:
                    want, _ = expected(acc, view, lambda i: tags[i])
                    obs = kernel.jsonable(do_access(s, acc))
                    R.trans()
                    R.check(obs == kernel.jsonable(want), f"result:slice:{acc[0]}",
                            lambda: f"{ctx0()}: p[{t[0]}:{t[1]}:{t[2]}]{acc} -> {obs} want {want} (positions {view})",
                            f"result:slice:{acc[0]}" if want != ["IndexError"] else "index:out-of-range:slice")
        R.check(log == [], "open:reload", lambda: f"{ctx0()}: everything was read, yet indexing opened {sorted(set(log))}", "open:reload:index-slice")


# --------------------------------------------------------------------------- chains space

MEMBER_KINDS = ("list", "lazy", "nest", "mixed", "nested")


def memory_tree(f):
    from swcgeom.core import Tree

    n = n_nodes(f)
    tag = want_tag(1, f)
    return Tree(
        n,
        id=np.arange(n, dtype=np.int32),
        pid=np.arange(-1, n - 1, dtype=np.int32),
        type=np.array([1] + [3] * (n - 1), dtype=np.int32),
        x=np.array(tag[:-1], dtype=np.float32),
        y=np.zeros(n, dtype=np.float32),
        z=np.zeros(n, dtype=np.float32),
        r=np.full(n, RADIUS, dtype=np.float32),
    )


def check_chain(case, R):
    set_ext(".swc")
    from swcgeom.core import Population
    from swcgeom.core.population import ChainTrees, LazyLoadingTrees

    parts, mkind, ikind = [int(x) for x in case[0]], case[1], case[2]
    N = sum(parts)
    if N == 0:
        R.trivial()
    R.state(parts, mkind)
    with Scratch() as sc:
        spy_selftest(R, sc)
        root = os.path.join(sc.dir, "flat")
        os.makedirs(root)
        paths = [os.path.join(root, f"f{e}.swc") for e in range(N)]
        table = {norm(pth): (0, e) for e, pth in enumerate(paths)}
        keyof = lambda x: table.get(norm(x), "decoy:" + os.path.basename(x))  # noqa: E731
        bounds = [0] + list(itertools.accumulate(parts))
        # element e is file-backed (root tag 0) or in-memory (root tag 1) depending on its part's member kind
        def part_kind(j):
            if mkind == "mixed":
                return ("list", "lazy", "nest")[j % 3]
            return "lazy" if mkind == "nested" else mkind

        backed = [None] * N
        for j in range(len(parts)):
            for e in range(bounds[j], bounds[j + 1]):
                backed[e] = part_kind(j) != "list"
        for e in range(N):
            if backed[e]:
                with open(paths[e], "w") as fh:
                    fh.write(swc_text(0, e))
        tags = [list(want_tag(0 if backed[e] else 1, e)) for e in range(N)]
        ctx = lambda: f"parts={parts} members={mkind} given-as={ikind}"  # noqa: E731
        # 'nest' members are slices of ONE shared lazy population over exactly the elements of those parts
        nest_elems = [e for j in range(len(parts)) if part_kind(j) == "nest" for e in range(bounds[j], bounds[j + 1])]

        def fresh():
            shared = None
            members = []
            for j in range(len(parts)):
                lo, hi = bounds[j], bounds[j + 1]
                pk = part_kind(j)
                if pk == "list":
                    members.append([memory_tree(e) for e in range(lo, hi)])
                elif pk == "lazy":
                    members.append(LazyLoadingTrees(paths[lo:hi]))
                else:
                    if shared is None:
                        shared = Population(LazyLoadingTrees([paths[e] for e in nest_elems]))
                    a = nest_elems.index(lo) if hi > lo else 0
                    members.append(shared[a:a + hi - lo])
            if mkind == "nested" and len(members) >= 2:
                h = (len(members) + 1) // 2
                members = [ChainTrees(as_iterable(members[:h], ikind)), ChainTrees(as_iterable(members[h:], ikind))]
            return ChainTrees(as_iterable(members, ikind))

        view = list(range(N))

        def run(order_name, wrap, idx_order):
            loaded = set()
            what = f"chain:{mkind}:{ikind}"
            with watch(sc.dir) as log:
                ok, c = R.impl(f"ChainTrees({mkind},{ikind})", fresh)
            if not ok:
                return
            # the shared base population of the 'nest' members may probe its first file when it is constructed
            may = {(0, e) for e in nest_elems[:1]}
            loaded |= judge_opens(R, what + ":construct", log, keyof, loaded, set(), may, ctx)
            obj = c
            if wrap:
                with watch(sc.dir) as log:
                    ok, obj = R.impl("Population(ChainTrees)", Population, c)
                if not ok:
                    return
                may = {(0, 0)} if (N and backed[0]) else set()
                loaded |= judge_opens(R, what + ":wrap", log, keyof, loaded, set(), may, ctx)
            seq = [["len"]] + [["idx", k] for k in idx_order] + [["iter"], ["len"]] + [["part", j] for j in range(1, N)]
            for acc in seq:
                want, req = expected(acc, view, lambda i: tags[i])
                with watch(sc.dir) as log:
                    obs = kernel.jsonable(do_access(obj, acc))
                R.trans()
                R.outcome(acc[0], obs[0], len(log))
                if want == ["IndexError"]:
                    kl = f"index:out-of-range:{what}"
                elif obs[0] in ("raises", "IndexError"):
                    kl = f"raises:{what}:{acc[0]}:{obs[1] if len(obs) > 1 else 'IndexError'}"
                else:
                    kl = f"result:{what}:{acc[0]}"
                R.check(obs == kernel.jsonable(want), f"result:chain:{acc[0]}",
                        lambda: f"{ctx()} wrapped={wrap} order={order_name}: chain{acc} -> {obs} want {want}", kl)
                must = {(0, e) for e in req if backed[e]}
                loaded |= judge_opens(R, f"{what}:{acc[0]}", log, keyof, loaded, must, set(), ctx, obs == kernel.jsonable(want))

        run("ascending", False, list(range(-N - 1, N + 1)))
        run("descending", True, list(range(N, -N - 2, -1)))


# --------------------------------------------------------------------------- populations space

MODES = ("intersect", "plain", "check_same")


def nested_keys(val):
    """Nested lists of trees -> nested lists of (root, file) keys (None for anything else)."""
    if hasattr(val, "x") and hasattr(val, "r"):
        return decode(tag_of(val))
    return [nested_keys(v) for v in val]


def flatten(v):
    if isinstance(v, list):
        for x in v:
            yield from flatten(x)
    else:
        yield v


def check_populations(case, R):
    from swcgeom.core import Population, Populations

    subsets = [list(x) for x in case[0]]
    mode, form, rev = case[1], case[2], bool(case[3])
    spell = int(case[4]) if len(case) > 4 else 0
    set_ext(".eswc" if form.startswith("eswc") else ".swc")
    nroots = len(subsets)
    with Scratch() as sc, Cwd(sc.dir if spell in (3, 4) else None):
        spy_selftest(R, sc)
        roots, orders = [], []
        for r, fs in enumerate(subsets):
            root = os.path.join(sc.dir, f"root{r}")
            write_root(root, fs, r=r, reverse=(rev and r % 2 == 1))
            roots.append(root)
            orders.append(walk_order(root))
        keyof = make_keyof([(root, r) for r, root in enumerate(roots)])
        sets = [set(o) for o in orders]
        inter = set.intersection(*sets)
        same_lists = all(o == orders[0] for o in orders)
        labels = [f"L{r}" for r in range(nroots)]
        ctx = lambda: (f"roots={[[UNIVERSE[f] for f in o] for o in orders]} (walk order) mode={mode} arguments-as={form}")  # noqa: E731
        R.state(subsets, mode, spell)
        if not inter:
            R.trivial()
        kw = {"intersect": {}, "plain": {"intersect": False}, "check_same": {"intersect": False, "check_same": True}}[mode]
        lens = [len(inter)] * nroots if mode == "intersect" else [len(o) for o in orders]
        m = min(lens)
        L = sum(lens)
        equal = all(x == lens[0] for x in lens)

        # the same directories, spelled the way callers spell them (trailing separator, relative to the working directory)
        lib_roots = [spell_root(x, r, spell, sc.dir) for r, x in enumerate(roots)]

        def construct():
            if form == "list":
                return Populations.from_swc(list(lib_roots), **kw)
            if form == "tuple":
                return Populations.from_swc(tuple(lib_roots), labels=list(labels), **kw)
            if form == "gen":
                return Populations.from_swc((x for x in lib_roots), labels=(x for x in labels), **kw)
            if form == "eswc-list":
                return Populations.from_eswc(list(lib_roots), **kw)
            if form == "eswc-gen":
                return Populations.from_eswc((x for x in lib_roots), labels=(x for x in labels), **kw)
            assert mode == "plain"
            pops = [Population.from_swc(x) for x in lib_roots]
            if form == "ctor-list":
                return Populations(pops)
            return Populations((p for p in pops), labels=(x for x in labels))  # ctor-gen

        for access_order in ("rows-first", "chain-first"):
            loaded = set()
            octx = lambda: f"{ctx()} order={access_order}"  # noqa: E731
            with watch(sc.dir) as log:
                ok, ps = R.attempt(construct)
            if not ok:
                e = ps
                if mode == "check_same" and isinstance(e, AssertionError) and not same_lists:
                    R.outcome("check_same-refused")
                    return
                R.fail("raises:Populations", f"{ctx()}: {type(e).__name__}: {e}",
                       f"raises:Populations:{mode}:{form}:{type(e).__name__}" + (":one-root" if nroots == 1 else ""))
                return
            # construction may probe the first file of each root's population (with intersect the order is free:
            # any common file, checked against row 0 once the rows are known)
            probe = collections.Counter(keyof(x) for x in log)
            probe_keys = {k for k in probe if not isinstance(k, str)}
            per_root = collections.Counter(k[0] for k in probe_keys)
            if mode == "intersect":
                allowed = {(r, f) for r in range(nroots) for f in inter}
            else:
                allowed = {(r, orders[r][0]) for r in range(nroots) if orders[r]}
            R.check(len(probe_keys) == len(probe) and all(c == 1 for c in probe.values()) and all(c <= 1 for c in per_root.values()) and probe_keys <= allowed,
                    "open:unrequested", lambda: f"{ctx()}: construction opened {sorted(probe.items(), key=repr)}, first files {sorted(allowed)}",
                    "open:unrequested:Populations.construct")
            loaded |= probe_keys

            def quiet(what, fn):
                """An operation that requests no tree: must not open anything."""
                with watch(sc.dir) as log:
                    ok, val = R.impl(what, fn)
                R.check(log == [], "open:unrequested", lambda: f"{octx()}: {what} opened {log}", f"open:unrequested:Populations:{what}")
                return ok, val

            def refused(what, fn):
                """An out-of-range index: IndexError, nothing opened."""
                with watch(sc.dir) as log:
                    okk, val = R.attempt(fn)
                R.check((not okk) and isinstance(val, IndexError), "index:out-of-range", lambda: f"{octx()}: {what} -> {val!r}", f"index:out-of-range:{what.split('[')[0]}")
                R.check(log == [], "open:unrequested", lambda: f"{octx()}: {what} opened {log}", f"open:unrequested:Populations:out-of-range")

            def read(what, fn):
                """Run fn (returns nested lists of trees) under the spy -> nested keys; the files opened must be exactly the
                files of the returned trees that were not read before."""
                nonlocal loaded
                with watch(sc.dir) as log:
                    ok, val = R.impl(what, fn)
                if not ok:
                    return None
                try:
                    keys = nested_keys(val)
                except Exception as e:  # noqa: BLE001
                    R.fail("result:not-trees", f"{octx()}: {what} returned {val!r:.200} ({e!r})", f"result:{what}:garbage")
                    return None
                fl = list(flatten(keys))
                if not R.check(all(k is not None for k in fl), "result:not-a-population-tree", lambda: f"{octx()}: {what} returned {keys}", f"result:{what}:garbage"):
                    return None
                loaded |= judge_opens(R, f"Populations:{what}", log, keyof, loaded, set(fl), set(), lambda: f"{octx()} {what}")
                return keys

            ok, got_len = quiet("len", lambda: len(ps))
            if ok:
                R.check(got_len == m, "populations:len", lambda: f"{ctx()}: len {got_len} want {m}", f"populations:len:{mode}")
            ok2, npop = quiet("num_of_populations", ps.num_of_populations)
            if ok2:
                R.check(npop == nroots, "populations:count", lambda: f"{ctx()}: {npop} populations for {nroots} roots", f"populations:count:{form}")
            want_labels = [""] * nroots if form in ("list", "ctor-list", "eswc-list") else labels
            R.check(list(getattr(ps, "labels", [])) == want_labels, "populations:labels", lambda: f"{ctx()}: labels {getattr(ps, 'labels', None)} want {want_labels}",
                    f"populations:labels:{form}")
            R.outcome(mode, m, nroots, equal, same_lists)
            if not (ok and ok2) or got_len != m or npop != nroots:
                return

            def judge_rows(rows):
                for i, keys in enumerate(rows):
                    R.check([k[0] for k in keys] == list(range(nroots)), "populations:row-roots",
                            lambda: f"{ctx()}: row {i} holds trees of roots {[k[0] for k in keys]}", f"populations:row-roots:{mode}")
                    if mode in ("intersect", "check_same"):
                        R.check(len({k[1] for k in keys}) == 1, "populations:row-not-same-named",
                                lambda: f"{ctx()}: row {i} holds files {[UNIVERSE[k[1]] for k in keys]}", f"populations:row-mismatch:{mode}")
                    if mode in ("plain", "check_same"):
                        R.check([k[1] for k in keys] == [orders[r][i] for r in range(nroots)], "populations:row-order",
                                lambda: f"{ctx()}: row {i} holds files {[UNIVERSE[k[1]] for k in keys]}, the {i}-th files are {[UNIVERSE[orders[r][i]] for r in range(nroots)]}",
                                f"populations:row-order:{mode}")
                if mode == "intersect":
                    firsts = [keys[0][1] for keys in rows if keys]
                    R.check(sorted(firsts) == sorted(inter), "populations:rows-not-the-intersection",
                            lambda: f"{ctx()}: rows are files {[UNIVERSE[f] for f in firsts]}, common files {[UNIVERSE[f] for f in sorted(inter)]}", "populations:rows-set")

            def read_rows():
                rows = []
                for i in range(m):
                    keys = read("row", lambda: list(ps[i]))
                    if keys is None:
                        return None
                    if not R.check(len(keys) == nroots, "populations:row-width", lambda: f"{ctx()}: row {i} has {len(keys)} trees for {nroots} roots",
                                   f"populations:row-width:{form}"):
                        return None
                    rows.append(keys)
                return rows

            def flat_of(rows):
                out = []
                for r in range(nroots):
                    if mode == "intersect":
                        out += [rows[i][r] for i in range(m)]
                    else:
                        out += [(r, f) for f in orders[r]]
                return out

            rows = None
            if access_order == "rows-first":
                rows = read_rows()
                if rows is None:
                    return
                judge_rows(rows)
                if m:
                    R.check(probe_keys <= set(rows[0]), "open:unrequested",
                            lambda: f"{ctx()}: construction opened {sorted(probe_keys)} but the first files are {sorted(rows[0])}", "open:unrequested:Populations.probe")
                keys = read("iterate", lambda: [list(row) for row in ps])
                if keys is not None:
                    R.check(keys == rows, "populations:iteration", lambda: f"{ctx()}: iteration gives {keys}, rows are {rows}", "populations:iteration")
                if equal:  # with differing lengths negative / out-of-range / slice semantics of a row are not defined by the property
                    for k in (m, -m - 1, m + 1):
                        refused(f"Populations[{k}]", lambda: ps[k])
                    for k in range(-m, 0):
                        keys = read("row", lambda: list(ps[k]))
                        if keys is not None:
                            R.check(keys == rows[k], "populations:negative-index", lambda: f"{ctx()}: ps[{k}] = {keys} want {rows[k]}", "populations:negative-index")
                    for t in ((None, None, None), (1, None, None), (None, None, -1), (None, -1, 2)):
                        idxs = list(range(m))[sl(t)]
                        keys = read("slice", lambda: [[c[j] for j in range(len(c))] for c in ps[sl(t)]])
                        if keys is not None:
                            wantc = [[rows[i][r] for i in idxs] for r in range(nroots)]
                            R.check(keys == wantc, "populations:slice", lambda: f"{ctx()}: ps[{t[0]}:{t[1]}:{t[2]}] -> {keys} want {wantc}", "populations:slice")

            # ---- chaining
            with watch(sc.dir) as log:
                ok, cp = R.impl("to_population", ps.to_population)
            if not ok:
                return
            if rows is not None:
                may = set(flat_of(rows)[:1])
            else:
                first = next((r for r in range(nroots) if lens[r]), None)
                may = set() if first is None else {(first, f) for f in (inter if mode == "intersect" else orders[first][:1])}
            opened = judge_opens(R, "to_population", log, keyof, loaded, set(), may, octx)
            R.check(len(opened) <= 1, "open:unrequested", lambda: f"{octx()}: to_population opened {sorted(opened)}", "open:unrequested:to_population")
            loaded |= opened
            ok, got_len = quiet("len(to_population())", lambda: len(cp))
            if not ok:
                return
            if not R.check(got_len == L, "chain:length", lambda: f"{ctx()}: to_population() has length {got_len}, the populations hold {lens} trees",
                           "chain:length:to_population"):
                return
            idx_order = list(range(L)) if access_order == "rows-first" else list(range(L - 1, -1, -1))
            chain = {}
            for k in idx_order:
                keys = read("chain-index", lambda: [cp[k]])
                if keys is None:
                    return
                chain[k] = keys[0]
            if access_order == "chain-first":
                if L:
                    R.check(opened <= {chain[0]}, "open:unrequested", lambda: f"{octx()}: to_population opened {sorted(opened)}, its first tree is {chain[0]}",
                            "open:unrequested:to_population")
                rows = read_rows()
                if rows is None:
                    return
                judge_rows(rows)
            flat = flat_of(rows)
            R.check([chain[k] for k in range(L)] == flat, "chain:order", lambda: f"{octx()}: to_population() yields {[chain[k] for k in range(L)]}, concatenation is {flat}",
                    "chain:order:to_population")
            for k in range(-L, 0):
                keys = read("chain-index", lambda: [cp[k]])
                if keys is not None:
                    R.check(keys[0] == flat[k], "chain:negative-index", lambda: f"{octx()}: chain[{k}] = {keys[0]} want {flat[k]}", "chain:negative-index:to_population")
            for k in (L, -L - 1):
                refused(f"to_population()[{k}]", lambda: cp[k])
            keys = read("chain-iterate", lambda: list(cp))
            if keys is not None:
                R.check(keys == flat, "chain:iteration", lambda: f"{octx()}: iteration {keys} want {flat}", "chain:iteration:to_population")
            # over the whole history every file of the populations was read exactly once, nothing else
            R.check(loaded == set(flat) | probe_keys, "open:unrequested",
                    lambda: f"{octx()}: files read {sorted(loaded)}, files in the populations {sorted(set(flat))}", "open:unrequested:Populations.total")


# --------------------------------------------------------------------------- two populations alive at once

def two_events(n0, n1, tier):
    key = ("two", n0, n1, tier)
    if key in _EVENTS:
        return _EVENTS[key]
    steps = (None, 1, 2, -1)
    specs = []
    for w, n in ((0, n0), (1, n1)):
        specs.append(["base", w])
        for t in dedup_slices(n, steps):
            specs.append(["slice", w, *t])
    for order in ([0, 1], [1, 0], [0, 1, 0]):
        for wrap in (True, False):
            specs.append(["chain2", wrap, order])
    ns = (n0, n1)
    ev = []
    for spec in specs:
        m = len(two_view(spec, ns))
        for acc in accesses(m):
            ev.append([spec, acc])
    _EVENTS[key] = ev
    return ev


def two_view(spec, ns):
    k = spec[0]
    if k == "base":
        return [(spec[1], i) for i in range(ns[spec[1]])]
    if k == "slice":
        return [(spec[1], i) for i in list(range(ns[spec[1]]))[sl(spec[2:5])]]
    if k == "chain2":
        return [(w, i) for w in spec[2] for i in range(ns[w])]
    raise ValueError(spec)


def check_two(case, R):
    set_ext(".swc")
    from swcgeom.core import Population
    from swcgeom.core.population import ChainTrees

    files = [list(case[0]), list(case[1])]
    rel, vq, depth, tier = case[2], case[3], int(case[4]), case[5]
    same = rel == "same-dir"
    if not files[0] and not files[1]:
        R.trivial()
    with Scratch() as sc:
        spy_selftest(R, sc)
        got0 = setup_population(R, sc, files[0], "from_swc", r=0, name="dirA")
        if got0 is None:
            return
        if same:
            rootb = os.path.join(sc.dir, "dirA")
            order_b = got0[1]
            paths = [os.path.join(rootb, UNIVERSE[f]) for f in order_b]
            with watch(sc.dir) as log:
                ok, q = R.impl(f"construct:{vq}", make_population, vq, rootb, paths)
            if not ok:
                return
            keyof = got0[2]
            ld = judge_opens(R, f"construct:{vq}", log, keyof, set(), set(), {(0, f) for f in order_b[:1]}, lambda: f"second population over the same directory {files[0]}")
            got1 = (q, order_b, keyof, ld)
        else:
            got1 = setup_population(R, sc, files[1], vq, r=1, name="dirB")
            if got1 is None:
                return
        pops = [got0[0], got1[0]]
        orders = [got0[1], got1[1]]
        rtag = [0, 0 if same else 1]
        ns = (len(orders[0]), len(orders[1]))
        roots = [(os.path.join(sc.dir, "dirA"), 0)] + ([] if same else [(os.path.join(sc.dir, "dirB"), 1)])
        keyof = make_keyof(roots)
        key_of_elem = lambda w, i: (rtag[w], orders[w][i])  # noqa: E731
        events = two_events(ns[0], ns[1], tier)
        base_ctx = f"dirA={[UNIVERSE[f] for f in orders[0]]} " + ("second population over the same directory" if same else f"dirB={[UNIVERSE[f] for f in orders[1]]}") + f" constructors=from_swc,{vq}"

        def canon(s):
            return (files, rel, vq, [sorted(x) for x in s["loaded"]], sorted(s["counts"].items()), [occupancy(x) for x in s["pops"]])

        def build(ps, spec):
            k = spec[0]
            if k == "base":
                return ps[spec[1]]
            if k == "slice":
                return ps[spec[1]][sl(spec[2:5])]
            c = ChainTrees([ps[w].trees for w in spec[2]])
            return Population(c) if spec[1] else c

        def step(s, ev):
            spec, acc = ev
            v0 = R.n_viol
            ps, kept = copy.deepcopy((s["pops"], s["kept"]))
            hist = s["hist"] + [ev]
            ctx = lambda: f"{base_ctx} history={hist} read-before={[sorted(f for _, f in x) for x in s['loaded']]}"  # noqa: E731
            view = two_view(spec, ns)
            want, areq = expected(acc, list(range(len(view))), lambda j: list(want_tag(rtag[view[j][0]], orders[view[j][0]][view[j][1]])))
            sink = []
            with watch(sc.dir) as log:
                try:
                    obj = build(ps, spec)
                    obs = do_access(obj, acc, sink)
                except kernel.CaseTimeout:
                    raise
                except BaseException as e:  # noqa: BLE001
                    obs = ["construct-raises", type(e).__name__, str(e)[:200]]
            obs, want = kernel.jsonable(obs), kernel.jsonable(want)
            sk = f"two:{spec[0]}" + ("" if spec[0] != "chain2" else ("-pop" if spec[1] else "-raw"))
            if obs != want:
                if want == ["IndexError"]:
                    kl = f"index:out-of-range:{sk}"
                elif obs[0] in ("raises", "construct-raises", "IndexError"):
                    kl = f"raises:{sk}:{acc[0]}:{obs[1] if len(obs) > 1 else 'IndexError'}"
                else:
                    kl = f"result:{sk}:{acc[0]}"
                R.fail(f"result:{acc[0]}", f"{ctx()}: got {obs} want {want}", kl)
            # expected opens: each population reads a requested file once unless IT has read it before
            exp = collections.Counter()
            newly = [set(), set()]
            for j in areq:
                w, i = view[j]
                k = key_of_elem(w, i)
                if k not in s["loaded"][w] and k not in newly[w]:
                    newly[w].add(k)
                    exp[k] += 1
            opt = collections.Counter()
            if spec[0] == "chain2" and spec[1] and view:
                w, i = view[0]
                k = key_of_elem(w, i)
                if k not in s["loaded"][w] and k not in newly[w]:
                    opt[k] += 1
            seen = collections.Counter(keyof(x) for x in log)
            for k in sorted(set(seen) | set(exp), key=repr):
                if isinstance(k, str):
                    R.fail("open:not-a-population-file", f"{ctx()}: opened {k}", f"open:decoy:{sk}")
                elif seen[k] > exp[k] + opt[k]:
                    R.fail("open:reload" if exp[k] == 0 else "open:twice", f"{ctx()}: file {k} opened {seen[k]} times, {exp[k]} expected (+{opt[k]} probe)",
                           f"open:{'reload' if exp[k] == 0 else 'twice'}:{sk}:{acc[0]}")
                elif seen[k] < exp[k] and obs == want:
                    R.fail("open:unobserved", f"{ctx()}: file {k} requested through a population that never read it, opened {seen[k]} times, {exp[k]} expected",
                           f"open:unobserved:{sk}:{acc[0]}")
            loaded = [set(s["loaded"][0]) | newly[0], set(s["loaded"][1]) | newly[1]]
            for k in opt:
                if seen[k] > exp[k]:
                    loaded[view[0][0]].add(k)
            counts = dict(s["counts"])
            for k, c in seen.items():
                counts[repr(k)] = counts.get(repr(k), 0) + c
            for t, snap, label in kept:
                if snap_tree(t) != snap:
                    R.fail("retained-tree-changed", f"{ctx()}: the tree returned by {label} changed its content during the last operation", f"retained-tree-changed:{sk}:{acc[0]}")
            kept = (kept + [[t, snap_tree(t), f"history {hist}"] for t in sink[-2:]])[-KEEP:]
            R.outcome(sk, acc[0], obs[0], sum(seen.values()))
            if R.n_viol > v0:
                R.trans()
                R.note("bfs-pruned-after-violation")
                return None
            return {"pops": ps, "loaded": [frozenset(x) for x in loaded], "counts": counts, "hist": hist, "kept": kept}

        l0, l1 = set(got0[3]), set(got1[3])
        counts0 = collections.Counter([repr(k) for k in l0] + [repr(k) for k in l1])
        init = {"pops": pops, "loaded": [frozenset(l0), frozenset(l1)], "counts": dict(counts0), "hist": [], "kept": []}
        st = kernel.bfs(R, [init], lambda s: events, step, canon, None, max_depth=depth)
        R.note("bfs-fixpoint" if st["fixpoint"] else "bfs-depth-capped")
        R.note("bfs-states", st["states"])
        for w in (0, 1):
            if ns[w]:
                t = pops[w][0]
                R.retain(f"first tree of population {w}", lambda t=t: snap_tree(t))


# --------------------------------------------------------------------------- size sweeps


def flat_tag(e):
    return [float(100000 + 10 * e), float(100000 + 10 * e + 1), RADIUS]


def flat_text(e):
    b = 100000 + 10 * e
    return f"1 1 {b} 0 0 {RADIUS:g} -1\n2 3 {b + 1} 0 0 {RADIUS:g} 1\n"


def flat_tree(e):
    from swcgeom.core import Tree

    b = 100000 + 10 * e
    return Tree(2, id=np.array([0, 1], dtype=np.int32), pid=np.array([-1, 0], dtype=np.int32), type=np.array([1, 3], dtype=np.int32),
                x=np.array([b, b + 1], dtype=np.float32), y=np.zeros(2, dtype=np.float32), z=np.zeros(2, dtype=np.float32),
                r=np.full(2, RADIUS, dtype=np.float32))


SIZE_PATTERNS = {"ones": (1,), "012": (0, 1, 2), "201": (2, 0, 1)}


def check_sizes(case, R):
    set_ext(".swc")
    from swcgeom.core import Population
    from swcgeom.core.population import ChainTrees

    kind = case[0]
    R.state(case)
    if kind == "chain":
        k, pat = int(case[1]), SIZE_PATTERNS[case[2]]
        sizes = [pat[j % len(pat)] for j in range(k)]
        N = sum(sizes)
        e = 0
        members = []
        for sz in sizes:
            members.append([flat_tree(e + i) for i in range(sz)])
            e += sz
        ok, c = R.impl("ChainTrees", ChainTrees, (m for m in members) if k % 2 else members)
        if not ok:
            return
        tags = [flat_tag(i) for i in range(N)]
        ctx = lambda: f"{k} in-memory members of sizes {case[2]} (total {N})"  # noqa: E731
        for obj, nm in ((c, "chain"), (Population(c), "Population(chain)")):
            for acc in [["len"]] + [["idx", i] for i in range(-N - 1, N + 1)] + [["iter"]]:
                want, _ = expected(acc, list(range(N)), lambda i: tags[i])
                obs = kernel.jsonable(do_access(obj, acc))
                R.trans()
                R.check(obs == kernel.jsonable(want), f"result:{acc[0]}", lambda: f"{ctx()}: {nm}{acc} -> {str(obs)[:200]} want {str(want)[:200]}",
                        f"sizes:chain:{acc[0]}" if want != ["IndexError"] else "index:out-of-range:sizes:chain")
        R.outcome("chain", min(N, 3))
        return
    n = int(case[1])
    if n == 0:
        R.trivial()
    with Scratch() as sc:
        spy_selftest(R, sc)
        root = os.path.join(sc.dir, "flat")
        os.makedirs(root)
        for e in range(n):
            with open(os.path.join(root, f"g{e:04d}.swc"), "w") as fh:
                fh.write(flat_text(e))
        order = []
        for r_, _d, fs in os.walk(root):
            order += [int(f[1:5]) for f in fs if is_swc_name(f)]
        table = {norm(os.path.join(root, f"g{e:04d}.swc")): (0, e) for e in range(n)}
        keyof = lambda x: table.get(norm(x), "decoy:" + os.path.basename(x))  # noqa: E731
        ctx = lambda: f"flat directory of {n} files"  # noqa: E731
        with watch(sc.dir) as log:
            ok, p = R.impl("from_swc", Population.from_swc, root)
        if not ok:
            return
        loaded = judge_opens(R, "sizes:construct", log, keyof, set(), set(), {(0, e) for e in order[:1]}, ctx)
        tags = [flat_tag(e) for e in order]
        base = list(range(n))
        sink = []
        # every index, most distant first (negative then positive), each judged against the files read so far
        seq = [["len"]] + [["idx", k] for k in range(-n - 1, n + 1)] + [["iter"], ["len"]]
        for acc in seq:
            want, req = expected(acc, base, lambda i: tags[i])
            with watch(sc.dir) as log:
                obs = kernel.jsonable(do_access(p, acc, sink))
            R.trans()
            okr = R.check(obs == kernel.jsonable(want), f"result:{acc[0]}", lambda: f"{ctx()}: p{acc} -> {str(obs)[:200]} want {str(want)[:200]}",
                          f"sizes:population:{acc[0]}" if want != ["IndexError"] else "index:out-of-range:sizes:population")
            loaded |= judge_opens(R, f"sizes:{acc[0]}", log, keyof, loaded, {(0, order[i]) for i in req}, set(), ctx, okr)
        with watch(sc.dir) as log:
            for t in ((None, None, 2), (None, None, -1), (1, -1, None), (n // 2, None, None), (None, n // 2, 3)):
                view = base[sl(t)]
                m = len(view)
                ok, s_ = R.impl("slice", lambda: p[sl(t)])
                if not ok:
                    continue
                for acc in [["len"]] + [["idx", k] for k in range(-m - 1, m + 1)]:
                    want, _ = expected(acc, view, lambda i: tags[i])
                    obs = kernel.jsonable(do_access(s_, acc))
                    R.trans()
                    R.check(obs == kernel.jsonable(want), f"result:slice:{acc[0]}", lambda: f"{ctx()}: p[{t[0]}:{t[1]}:{t[2]}]{acc} -> {obs} want {want}",
                            f"sizes:slice:{acc[0]}" if want != ["IndexError"] else "index:out-of-range:sizes:slice")
        R.check(log == [], "open:reload", lambda: f"{ctx()}: everything was read, yet slicing opened {sorted(set(log))[:4]}", "open:reload:sizes")
        R.outcome("population", min(n, 3))
        for t in sink[:2]:
            R.retain("tree from a population", lambda t=t: snap_tree(t))


# --------------------------------------------------------------------------- map / transform space


def map_fn(t):
    """Module-level (picklable) function mapped over populations."""
    return [len(t)] + [float(v) for v in t.x().tolist()] + [float(t.r().tolist()[0])]


def map_want(tag):
    return [len(tag) - 1] + [float(v) for v in tag]


class _undaemon:
    """Population.map starts a process pool; kernel workers are daemonic and may not have children."""

    def __enter__(self):
        import multiprocessing

        self.cp = multiprocessing.current_process()
        self.old = self.cp._config.get("daemon")
        self.cp._config["daemon"] = False
        self.err = sys.stderr
        self.devnull = open(os.devnull, "w")
        sys.stderr = self.devnull  # tqdm progress bar of verbose=True

    def __exit__(self, *a):
        sys.stderr = self.err
        self.devnull.close()
        if self.old is None:
            self.cp._config.pop("daemon", None)
        else:
            self.cp._config["daemon"] = self.old
        return False


MAP_MODES = ("map:1", "map:2", "map:verbose", "map:slice", "map:chain", "map:transformed", "map:partial-loaded", "transform", "transform:identity", "map:default")


def check_map(case, R):
    set_ext(".swc")
    from swcgeom.core import Population
    from swcgeom.core.population import ChainTrees
    from swcgeom.transforms import Identity, PopulationTransform

    files, mode = list(case[0]), case[1]
    n = len(files)
    if n == 0:
        R.trivial()
    R.state(files, mode)
    with Scratch() as sc:
        spy_selftest(R, sc)
        got = setup_population(R, sc, files, "from_swc")
        if got is None:
            return
        p, order, keyof, loaded = got
        ctx = lambda: f"files={[UNIVERSE[f] for f in order]} mode={mode}"  # noqa: E731
        pos = list(range(n))
        radius = RADIUS
        target = p
        pre = None
        if mode == "map:slice":
            pos = pos[1:][::-1]
            pre = lambda: Population(p[:0:-1])  # noqa: E731
        elif mode == "map:chain":
            pos = pos[-1:] + pos + pos[:1]
            pre = lambda: Population(ChainTrees([p[-1:], p.trees, p[:1]]))  # noqa: E731
        elif mode == "map:transformed":
            radius = MARK
            pre = lambda: PopulationTransform(_Mark())(p)  # noqa: E731
        elif mode == "map:partial-loaded":
            pre = lambda: (p[n // 2] if n else None, p)[1]  # noqa: E731
        if pre is not None:
            with watch(sc.dir) as log:
                ok, target = R.impl("prepare:" + mode, pre)
            if not ok:
                return
            must = {(0, order[i]) for i in range(n)} if mode == "map:transformed" else ({(0, order[n // 2])} if (mode == "map:partial-loaded" and n) else set())
            may = {(0, order[i]) for i in pos[:1]} if mode in ("map:slice", "map:chain") else set()
            loaded |= judge_opens(R, "prepare:" + mode, log, keyof, loaded, must, may, ctx)
        want_tags = [want_tag(0, order[i], radius) for i in pos]
        if mode.startswith("map"):
            kw = {"map:1": {"max_worker": 1}, "map:verbose": {"max_worker": 2, "verbose": True}, "map:default": {}}.get(mode, {"max_worker": 2})
            with watch(sc.dir) as log, _undaemon():
                ok, res = R.impl("Population.map", lambda: list(target.map(map_fn, **kw)))
            if ok:
                want = [map_want(t) for t in want_tags]
                R.check(kernel.jsonable(res) == want, "map:results", lambda: f"{ctx()}: map -> {res} want {want}", f"map:results:{mode}")
                R.outcome(mode, len(res))
            loaded |= judge_opens(R, mode, log, keyof, loaded, {(0, order[i]) for i in pos}, set(), ctx)
        else:
            tr = Identity() if mode == "transform:identity" else _Mark()
            rad = RADIUS if mode == "transform:identity" else MARK
            with watch(sc.dir) as log:
                ok, q = R.impl("PopulationTransform", lambda: PopulationTransform(tr)(p))
            loaded |= judge_opens(R, mode, log, keyof, loaded, {(0, order[i]) for i in pos}, set(), ctx)
            if ok:
                with watch(sc.dir) as log:
                    for acc in accesses(n):
                        want, _ = expected(acc, pos, lambda i: list(want_tag(0, order[i], rad)))
                        obs = kernel.jsonable(do_access(q, acc))
                        R.trans()
                        R.check(obs == kernel.jsonable(want), "transform:results", lambda: f"{ctx()}: transformed population {acc} -> {obs} want {want}",
                                f"transform:results:{acc[0]}" if want != ["IndexError"] else "index:out-of-range:transformed")
                    R.outcome(mode, n)
                R.check(log == [], "open:reload", lambda: f"{ctx()}: reading the transformed population opened {log}", "open:reload:transformed")
        # afterwards the source population serves every tree without reading again
        with watch(sc.dir) as log:
            obs = kernel.jsonable(do_access(p, ["iter"]))
        R.check(obs == ["trees", [list(want_tag(0, f)) for f in order]], "result:iter", lambda: f"{ctx()}: source population afterwards {obs}", "result:base:iter-after-map")
        judge_opens(R, "iter-after:" + mode.split(":")[0], log, keyof, loaded, {(0, f) for f in order}, set(), ctx)


# --------------------------------------------------------------------------- spaces


def spaces(tier, seed):
    quick = tier == "quick"
    out = []

    # history BFS
    hist_files = 4 if quick else 5
    depth = 3 if quick else 4

    def gen_history():
        for sub in S.subsets(range(hist_files)):
            for v in VARIANTS:
                yield [list(sub), v, depth, tier]

    out.append(Space.of("history", gen_history, check_history, case_timeout=900.0,
                        bounds={"universe": list(UNIVERSE[:hist_files]), "layouts": 2 ** hist_files, "constructors": list(VARIANTS), "bfs_depth": depth,
                                "events_on_largest_layout": len(history_events(hist_files, tier))}))

    # index / slice mapping on a fully read population
    is_files = 5 if quick else 7
    steps = [None, 1, 2, -1, -2] if quick else [None, 1, 2, 3, -1, -2, -3]

    def gen_index_slice():
        for sub in S.subsets(range(is_files)):
            yield [list(sub), steps]

    out.append(Space.of("index-slice", gen_index_slice, check_index_slice,
                        bounds={"universe": list(UNIVERSE[:is_files]), "layouts": 2 ** is_files, "slice_bounds": "None and [-n-2, n+2]", "steps": steps}))

    # chains
    n_max = 6 if quick else 8      # in-memory members
    n_file = 4 if quick else 6     # file-backed members
    ikinds = ("list", "tuple", "gen")

    def gen_chain():
        yield [[], "list", "list"]
        yield [[], "list", "gen"]
        for total in range(0, n_max + 1):
            for k in range(1, 5):
                for parts in S.compositions(total, k):
                    for mk in MEMBER_KINDS:
                        if mk == "nested" and k < 2:
                            continue
                        if mk != "list" and total > n_file:
                            continue
                        for ik in ikinds:
                            if quick and mk != "list" and ik == "tuple":
                                continue
                            yield [list(parts), mk, ik]

    out.append(Space.of("chains", gen_chain, check_chain,
                        bounds={"max_total_in_memory_members": n_max, "max_total_file_backed_members": n_file, "max_parts": 4, "member_kinds": list(MEMBER_KINDS),
                                "given_as": list(ikinds) if not quick else "list, tuple, gen (in-memory); list, gen (file-backed)",
                                "indices": "[-N-1, N] ascending on the bare chain and descending on Population(chain)"}))

    # populations
    pu = [0, 1, 4, 2] if quick else [0, 1, 4, 2, 3]
    tu = [0, 4] if quick else [0, 1, 4]

    def gen_populations():
        subs = [list(x) for x in S.subsets(pu)]
        for a in subs:  # one root
            for mode in MODES:
                for form in ("list", "tuple", "gen") + (("ctor-list", "ctor-gen") if mode == "plain" else ()):
                    yield [[a], mode, form, 0]
                yield [[a], mode, "eswc-list", 0]
        for a in subs:
            for b in subs:
                # the same directories holding .eswc files (and same-named .swc decoys), through Populations.from_eswc
                yield [[a, b], "intersect", "eswc-list", 0]
                yield [[a, b], "intersect", "eswc-gen", 1]
                yield [[a, b], "plain", "eswc-list", 1]
                yield [[a, b], "check_same", "eswc-gen", 0]
                yield [[a, b], "intersect", "list", 0]
                yield [[a, b], "intersect", "gen", 0]
                for rev in (0, 1):
                    yield [[a, b], "plain", "list", rev]
                    yield [[a, b], "check_same", "list", rev]
                yield [[a, b], "plain", "gen", 1]
                yield [[a, b], "plain", "ctor-gen", 0]
                yield [[a, b], "check_same", "gen", 0]
                if not quick:
                    yield [[a, b], "plain", "ctor-list", 1]
                    yield [[a, b], "intersect", "tuple", 1]
        for a in subs:  # root spellings
            for sp in (1, 3):
                yield [[a], "plain", "list", 0, sp]
            for b in subs:
                for sp in (1, 2, 3, 4):
                    yield [[a, b], "intersect", "list", 0, sp]
                    if not quick or sp in (2, 3):
                        yield [[a, b], "plain", "list", 0, sp]
        subs3 = [list(x) for x in S.subsets(tu)]
        for a in subs3:
            for b in subs3:
                for c in subs3:
                    for mode in MODES:
                        yield [[a, b, c], mode, "list", 0]
                        if mode != "intersect":
                            yield [[a, b, c], mode, "gen", 1]
                    yield [[a, b, c], "plain", "ctor-gen", 1]

    out.append(Space.of("populations", gen_populations, check_populations,
                        bounds={"pair_universe": [UNIVERSE[f] for f in pu], "triple_universe": [UNIVERSE[f] for f in tu], "modes": list(MODES),
                                "arguments_as": ["list", "tuple", "gen", "ctor-list", "ctor-gen", "eswc-list (Populations.from_eswc)", "eswc-gen"], "access_orders": ["rows-first", "chain-first"],
                                "creation_order": "second root's files created in the same / the reverse order",
                                "root_spellings": ROOT_SPELLINGS}))

    # two populations alive at once
    tf = [0, 2] if quick else [0, 2, 1]

    def gen_two():
        subs = [list(x) for x in S.subsets(tf)]
        for a in subs:
            for vq in ("from_swc", "deprecated"):
                yield [a, a, "same-dir", vq, depth, tier]
        for a in subs:
            for b in subs:
                for vq in ("from_swc", "lazy-gen"):
                    yield [a, b, "other-dir", vq, depth, tier]

    out.append(Space.of("two-populations", gen_two, check_two, case_timeout=900.0,
                        bounds={"universe": [UNIVERSE[f] for f in tf], "relations": ["same-dir", "other-dir"], "bfs_depth": depth,
                                "events": "per population: population and every distinct slice x every access; chains across both populations (3 orders, wrapped / bare) x every access"}))

    # size sweeps
    n_pop, n_mem = (16, 48) if quick else (64, 200)

    big = [31, 32, 33, 63, 64, 65, 127, 128, 129, 255, 256, 257, 258, 300] + ([] if quick else [511, 512, 513, 1023, 1024, 1025, 1500])

    def gen_sizes():
        for n in list(range(0, n_pop + 1)) + [b for b in big if b > n_pop]:
            yield ["pop", n]
        for k in range(1, n_mem + 1):
            for pat in SIZE_PATTERNS:
                yield ["chain", k, pat]

    out.append(Space.of("sizes", gen_sizes, check_sizes,
                        bounds={"population_sizes": f"every n in 0..{n_pop} (flat directory) and {[b for b in big if b > n_pop]}: every index from both ends, a full second pass, slices", "chain_members": f"every k in 1..{n_mem} x size patterns {list(SIZE_PATTERNS)}",
                                "indices": "every index in [-N-1, N]"}))

    # map / transform
    if quick:
        layouts = [[0], [0, 1, 2], [0, 1, 2, 3]]
    else:
        layouts = [list(x) for x in S.subsets(range(4))]

    def gen_map():
        for li, lay in enumerate(layouts):
            for mode in MAP_MODES:
                if mode == "map:default" and li != len(layouts) - 1:
                    continue
                yield [lay, mode]

    out.append(Space.of("map-transform", gen_map, check_map, case_timeout=300.0,
                        bounds={"layouts": layouts, "modes": list(MAP_MODES), "pool": "real ProcessPoolExecutor; default worker count on one layout only"}))
    return out
