"""C20 — image stacks survive save/load; rasterised trees match their geometry.

Part 1 (save/load): every stack shape (X, Y, Z) in S^3 x channel layout {3-D input, C=1, C=3} x source
    dtype x format {tif zlib, tif uncompressed, nrrd, npy} x `save_tiff(dtype=...)` conversion x read
    dtype (two spellings: scalar class, np.dtype instance) x input kind (ndarray / ImageStack).  The value
    pattern is a ramp with pairwise distinct values, so any axis permutation, flip or offset changes it.
    Oracle: an interval model of the documented conversions (float -> uint: v * max within one level;
    uint -> float: v / max; same kind: value unchanged).
Part 2 (raster): every sorted tree up to the tier bound on compact generic geometry, and a grid of single
    edges (radii x length x direction, including edges whose end spheres are nested, internally tangent,
    or coincide), x resolutions x {default bounding box, explicit ranges}; *every voxel* of every stack is
    compared with the closed-form round-cone inside test; transform_and_save + read_imgs must reproduce
    the same stack.
"""

from __future__ import annotations

import itertools
import math
import os
import shutil
import tempfile

import numpy as np

from mc import build, ref, spaces as S
from mc.kernel import Space

PROPERTY = "C20"
RULE = (
    "save/load: shapes {1,2,3}^3 (thorough {1,2,3,4}^3) x {3-D, C=1, C=3} x source dtype {uint8,uint16,float32,float64} x "
    "format {tif-zlib, tif-raw, nrrd, npy} x save_tiff dtype= menu x read dtype menu (narrowing uint16->uint8 excluded) x dtype "
    "spelling {class, np.dtype} x input kind {ndarray, ImageStack} x value pattern {ramp with pairwise distinct values, scale end points 0/1/max and neighbours}. "
    "raster: every ST(n) n<=4 (thorough 6) on a compact tie-free geometry bank, plus single edges radii {0.3,0.6,1.2,2.0}^2 x length "
    "{0,0.5,0.9,1.4,3} x 4 directions; x resolutions {1,0.5,0.25,(1,0.5,0.25),(0.25,1,0.5),2} x {bounding box, explicit ranges}; "
    "every voxel judged; unsorted numberings LT(n) n<=4 (5) included. Histories: every ordered pair (thorough: triple) of 9 save/load "
    "configurations saved in a row and read back, every ordered pair (triple) of 8 trees through one transform object, and every "
    "(tree, node, move / radius edit, edit route) rasterised before and after the in-place edit; every file is read twice. "
    "Distinct = distinct case tuple; non-trivial = more than one voxel resp. at least one edge."
)
ASSUMPTIONS = [
    "float->uint conversion may truncate or round: the result must lie within one level of v*max; uint->float within 4 eps32 (relative) of v/max; "
    "float64->float32 within 2 eps32 relative; otherwise exact",
    "nrrd / npy files are written with pynrrd / numpy in (X,Y,Z[,C]) order (the library has no writer for them)",
    "round cone = union of the balls B(a + t(b-a), ra + t(rb-ra)), t in [0,1]; inside test solved in closed form (convex in t) and "
    "cross-checked by ternary search on a subsample of voxels",
    "voxels whose centre is within 1e-3 of a surface are skipped and counted; cases where a bounding-box face (coordinate +- radius) is "
    "within 1e-4 of an integer, or the box is not a multiple of the resolution, are excluded by the reference",
]

import logging

logging.getLogger("tifffile").setLevel(logging.CRITICAL)  # 'shaped series axes do not match shape' is expected for one-frame files

UMAX = {"uint8": 255.0, "uint16": 65535.0}
EPS32 = 2.0**-23


def _is_uint(d):
    return d in UMAX


# =================================================================== part 1: save / load


def ramp(shape, dtype, pattern="ramp"):
    n = int(np.prod(shape))
    i = np.arange(n, dtype=np.float64).reshape(shape)
    if pattern == "extremes":  # end points of the scale and their neighbours, position dependent
        if dtype in UMAX:
            m = int(UMAX[dtype])
            menu = np.array([m, 0, m - 1, 1, m // 2, m // 2 + 1], dtype=np.float64)
        else:
            menu = np.array([1.0, 0.0, 254.0 / 255.0, 1.0 / 255.0, 0.5, 1.0 / 65535.0], dtype=np.float64)
        return menu[(i.astype(np.int64) * 5 + i.astype(np.int64) // 6) % 6].astype(dtype)
    if pattern == "wide":  # float data that is NOT confined to [0, 1]: raw intensities, negatives (only used where no integer type is involved)
        menu = np.array([4095.0, -1.0, 2.5, 0.25, -0.001, 1.0, 65536.0, 1.0000001], dtype=np.float64)
        return (menu[i.astype(np.int64) % 8] + 8.0 * (i.astype(np.int64) // 8)).astype(dtype)
    if dtype == "uint8":
        return (i + 2).astype(np.uint8)  # n <= 192: distinct, never 0 or 1
    if dtype == "uint16":
        return (257 * i + 3).astype(np.uint16)  # spans beyond 8 bits
    return ((i + 1) / (n + 1)).astype(dtype)  # in (0, 1), distinct


SAVE_DTYPES = {
    "uint8": (None, "float32", "float64", "uint16"),
    "uint16": (None, "float32", "float64"),
    "float32": (None, "uint8", "uint16", "float64", "float32"),
    "float64": (None, "uint8", "uint16", "float32", "float64"),
}
READ_DTYPES = {
    "uint8": ("default", "uint8", "uint16", "float32", "float64"),
    "uint16": ("default", "uint16", "float32", "float64"),
    "float32": ("default", "float32", "float64", "uint8", "uint16"),
    "float64": ("default", "float32", "float64", "uint8", "uint16"),
}


def convert_model(ideal, tol, rel, src, dst):
    """Documented conversion src dtype -> dst dtype on (ideal value, abs tolerance, rel tolerance)."""
    if src == dst:
        return ideal, tol, rel
    if _is_uint(src) and not _is_uint(dst):
        return ideal / UMAX[src], tol / UMAX[src], rel + 4 * EPS32
    if not _is_uint(src) and _is_uint(dst):
        return ideal * UMAX[dst], tol * UMAX[dst] + 1.0, 0.0 + rel
    if not _is_uint(src) and not _is_uint(dst):
        return ideal, tol, rel + (2 * EPS32 if dst == "float32" else 0.0)
    return ideal, tol, rel  # uint widening: value unchanged


def io_cases(sizes, thorough):
    for X, Y, Z in itertools.product(sizes, repeat=3):
        for C in (0, 1, 3):  # 0 = 3-D input
            shape = [X, Y, Z] if C == 0 else [X, Y, Z, C]
            for src in ("uint8", "uint16", "float32", "float64"):
                for fmt in ("tif-zlib", "tif-raw", "nrrd", "npy"):
                    saves = SAVE_DTYPES[src] if fmt == "tif-zlib" else ((None,) + SAVE_DTYPES[src][1:2] if fmt == "tif-raw" else (None,))
                    for sv in saves:
                        stored = sv or src
                        for rd in READ_DTYPES[stored]:
                            spells = ("class",) if rd == "default" else ("class", "instance")
                            for sp in spells:
                                kinds = ("ndarray", "stack") if fmt == "tif-zlib" and sv is None else ("ndarray",)
                                for kind in kinds:
                                    yield (shape, src, fmt, sv, rd, sp, kind, "ramp")
                                    if fmt != "tif-raw":
                                        yield (shape, src, fmt, sv, rd, sp, kind, "extremes")
                                    if not _is_uint(src) and not _is_uint(stored) and not _is_uint("float32" if rd == "default" else rd):
                                        yield (shape, src, fmt, sv, rd, sp, kind, "wide")


def io_model(cfg):
    """cfg = (shape, src, fmt, sv, rd, sp, kind, pattern) -> input array and the interval model of what a read returns."""
    shape, src, fmt, sv, rd, sp, kind, pattern = cfg
    shape = tuple(int(v) for v in shape)
    a = ramp(shape, src, pattern)
    want_shape = shape if len(shape) == 4 else shape + (1,)
    ideal = a.astype(np.float64).reshape(want_shape)
    tol, rel = 0.0, 0.0
    stored = src
    if sv is not None:
        ideal, tol, rel = convert_model(ideal, tol, rel, src, sv)
        stored = sv
    rdt = "float32" if rd == "default" else rd
    ideal, tol, rel = convert_model(ideal, tol, rel, stored, rdt)
    return {"a": a, "want_shape": want_shape, "ideal": ideal, "tol": tol, "rel": rel, "stored": stored, "rdt": rdt,
            "ext": {"tif-zlib": "tif", "tif-raw": "tif", "nrrd": "nrrd", "npy": "npy"}[fmt]}


def io_save(R, cfg, M, fn):
    from swcgeom.images.io import NDArrayImageStack, save_tiff

    shape, src, fmt, sv, rd, sp, kind, pattern = cfg
    a = M["a"]
    a0 = a.copy()
    if M["ext"] == "tif":
        data = a if kind == "ndarray" else NDArrayImageStack(a)
        kw = {}
        if sv is not None:
            kw["dtype"] = getattr(np, sv)
        if fmt == "tif-raw":
            kw["compression"] = False
        ok, _ = R.impl("save_tiff", lambda: save_tiff(data, fn, **kw), klass=f"raises:save_tiff:{src}->{sv}")
        if not ok:
            return False
    elif M["ext"] == "nrrd":
        import nrrd

        nrrd.write(fn, a)
    else:
        np.save(fn, a)
    R.check(np.array_equal(a, a0) and a.dtype == a0.dtype, "save:input-modified", lambda: f"{cfg}")
    return True


def io_judge(R, cfg, M, got, what=""):
    shape, src, fmt, sv, rd, sp, kind, pattern = cfg
    want_shape, ideal, tol, rel, stored, rdt, ext = M["want_shape"], M["ideal"], M["tol"], M["rel"], M["stored"], M["rdt"], M["ext"]
    got = np.asarray(got)
    if not R.check(tuple(got.shape) == want_shape, "read:shape", lambda: f"{what}{cfg}: got shape {got.shape}, want {want_shape}", f"read:shape:{ext}"):
        return False
    R.check(got.dtype == np.dtype(rdt), "read:dtype", lambda: f"{what}{cfg}: got dtype {got.dtype}, asked for {rdt}", f"read:dtype:{stored}->{rdt}")
    g = got.astype(np.float64)
    bound = tol + rel * np.abs(ideal)
    bad = np.abs(g - ideal) > bound
    kk = f"read:values:{ext}:" + ("same" if stored == rdt and sv is None else f"{src}->{sv or src}->{rdt}")
    return R.check(not bool(bad.any()), "read:values",
                   lambda: f"{what}{cfg}: {int(bad.sum())} of {bad.size} voxels differ; first at {tuple(int(v) for v in np.argwhere(bad)[0])}: "
                   f"got {g[tuple(np.argwhere(bad)[0])]!r}, want {ideal[tuple(np.argwhere(bad)[0])]!r} +- {float(np.max(bound)):.3g}", kk)


def io_read(R, cfg, M, fn, what=""):
    """read_imgs + get_full, judged; returns (stack, array) or None."""
    from swcgeom.images.io import read_imgs

    shape, src, fmt, sv, rd, sp, kind, pattern = cfg
    stored, rdt = M["stored"], M["rdt"]
    kw = {}
    if rd != "default":
        kw["dtype"] = getattr(np, rd) if sp == "class" else np.dtype(rd)
    ok, st = R.impl("read_imgs", lambda: read_imgs(fn, **kw),
                    klass=None if stored == rdt else f"raises:read_imgs:{'float' if not _is_uint(stored) else 'uint'}->{'uint' if _is_uint(rdt) else 'float'}")
    if not ok:
        return None
    ok, got = R.impl("get_full", st.get_full)
    if not ok:
        return None
    if not io_judge(R, cfg, M, got, what):
        return None
    return st, np.asarray(got)


def check_io(case, R):
    cfg = tuple(case)
    shape, src, fmt, sv, rd, sp, kind, pattern = cfg
    M = io_model(cfg)
    R.state(tuple(shape), src, fmt, sv, pattern)
    if int(np.prod(shape)) == 1:
        R.trivial()
    want_shape = M["want_shape"]
    R.outcome(src, sv, M["rdt"], len(shape), tuple(int(v == 1) for v in want_shape))
    d = tempfile.mkdtemp(prefix="c20io")
    try:
        fn = os.path.join(d, "stack." + M["ext"])
        if not io_save(R, cfg, M, fn):
            return
        res = io_read(R, cfg, M, fn)
        if res is None:
            return
        st, got = res
        R.retain("get_full", lambda g=got: g)
        R.check(tuple(st.shape) == want_shape, "read:shape-property", lambda: f"{case}: .shape {st.shape}, want {want_shape}")
        # element access agrees with the full array
        idx = tuple(v - 1 for v in want_shape)
        ok, one = R.impl("getitem", lambda: st[idx])
        if ok:
            R.check(float(one) == float(got[idx]), "read:getitem", lambda: f"{case}: stack{idx} = {one!r}, full array has {got[idx]!r}")
        # reading the same file a second time gives the same answer and leaves the first answer alone
        first = got.copy()
        res2 = io_read(R, cfg, M, fn, "second read of ")
        if res2 is not None:
            R.check(np.array_equal(res2[1], first) and np.array_equal(got, first), "read:twice",
                    lambda: f"{case}: a second read_imgs of the same file differs from, or changed, the first result")
    finally:
        shutil.rmtree(d, ignore_errors=True)


# configurations for call histories: different shapes, dtypes, formats, conversions
HISTORY_CFGS = (
    ([2, 3, 1], "uint8", "tif-zlib", None, "default", "class", "ndarray", "ramp"),
    ([2, 3, 1], "uint8", "tif-zlib", None, "uint8", "class", "ndarray", "extremes"),
    ([3, 2, 2, 3], "float32", "tif-zlib", None, "default", "class", "ndarray", "ramp"),
    ([3, 2, 2, 3], "float32", "tif-raw", None, "uint8", "instance", "ndarray", "ramp"),
    ([1, 1, 1], "float64", "tif-zlib", "uint16", "default", "class", "stack", "ramp"),
    ([1, 2, 3, 1], "uint16", "tif-zlib", "float32", "float64", "class", "ndarray", "ramp"),
    ([2, 3, 1], "float32", "nrrd", None, "uint8", "class", "ndarray", "ramp"),
    ([3, 2, 2, 3], "uint8", "npy", None, "default", "class", "ndarray", "ramp"),
    ([2, 2, 2], "float32", "npy", None, "float32", "instance", "ndarray", "extremes"),
)


def check_io_history(case, R):
    """Several stacks saved in a row, then read back in every order position: each read is judged against its own
    model, and every array returned earlier is re-inspected after the later saves / reads."""
    seq = [tuple(HISTORY_CFGS[int(i)]) for i in case]
    R.state(tuple(case))
    R.outcome(tuple(case))
    d = tempfile.mkdtemp(prefix="c20hist")
    try:
        files = []
        for k, cfg in enumerate(seq):
            M = io_model(cfg)
            fn = os.path.join(d, f"s{k}." + M["ext"])
            if not io_save(R, cfg, M, fn):
                return
            files.append((cfg, M, fn))
        live = []
        for k, (cfg, M, fn) in enumerate(files + files[:1]):
            res = io_read(R, cfg, M, fn, f"history {list(case)} read #{k}: ")
            if res is not None:
                live.append((cfg, M, res[1], res[1].copy()))
        for cfg, M, arr, first in live:
            R.check(np.array_equal(arr, first), "read:result-changed-by-later-calls", lambda: f"history {list(case)}: array read for {cfg} changed afterwards")
            io_judge(R, cfg, M, arr, f"history {list(case)} re-inspected: ")
    finally:
        shutil.rmtree(d, ignore_errors=True)


# ---- histories that overwrite files: the read of a path returns what was LAST saved there

OVERWRITE_CFGS = {
    "tif": (([2, 3, 1], "uint8", "tif-zlib", None, "default", "class", "ndarray", "ramp"),
            ([2, 3, 1], "uint8", "tif-zlib", None, "default", "class", "ndarray", "extremes"),
            ([3, 2, 2, 3], "float32", "tif-raw", None, "default", "class", "ndarray", "ramp")),
    "npy": (([2, 3, 1], "uint8", "npy", None, "default", "class", "ndarray", "ramp"),
            ([2, 3, 1], "uint8", "npy", None, "default", "class", "ndarray", "extremes"),
            ([3, 2, 2, 3], "float32", "npy", None, "float32", "class", "ndarray", "ramp")),
    "nrrd": (([2, 3, 1], "float32", "nrrd", None, "default", "class", "ndarray", "ramp"),
             ([2, 3, 1], "float32", "nrrd", None, "default", "class", "ndarray", "extremes"),
             ([3, 2, 2], "uint8", "nrrd", None, "default", "class", "ndarray", "ramp")),
}
OVERWRITE_EVENTS = [("save", c, p) for c in range(3) for p in range(2)] + [("read", None, p) for p in range(2)]


def overwrite_cases(depth):
    """Every event sequence up to `depth` over {save cfg c to path p, read path p} (2 paths, 3 stacks per format) that starts with
    a save, ends with a read and never reads a path nothing was saved to.  Sequences are NOT merged by file content: what the
    library remembers from earlier reads is exactly what is being explored."""
    for ext in OVERWRITE_CFGS:
        for L in range(2, depth + 1):
            for seq in itertools.product(range(len(OVERWRITE_EVENTS)), repeat=L):
                if OVERWRITE_EVENTS[seq[0]][0] != "save" or OVERWRITE_EVENTS[seq[-1]][0] != "read":
                    continue
                saved, ok, reads = set(), True, 0
                for e in seq:
                    kind, c, p = OVERWRITE_EVENTS[e]
                    if kind == "save":
                        saved.add(p)
                    elif p not in saved:
                        ok = False
                        break
                    else:
                        reads += 1
                if ok:
                    yield [ext, list(seq)]


def check_overwrite(case, R):
    ext, seq = case[0], [int(e) for e in case[1]]
    cfgs = OVERWRITE_CFGS[ext]
    R.state(ext, tuple(seq))
    d = tempfile.mkdtemp(prefix="c20ow")
    try:
        paths = [os.path.join(d, f"p{k}." + ext) for k in range(2)]
        last = {}
        live = []
        for pos, e in enumerate(seq):
            kind, c, p = OVERWRITE_EVENTS[e]
            if kind == "save":
                cfg = tuple(cfgs[c])
                M = io_model(cfg)
                if not io_save(R, cfg, M, paths[p]):
                    return
                last[p] = (cfg, M)
            else:
                cfg, M = last[p]
                res = io_read(R, cfg, M, paths[p], f"overwrite history {ext} {[OVERWRITE_EVENTS[x] for x in seq[:pos + 1]]}: ")
                if res is None:
                    return
                live.append((res[1], res[1].copy(), cfg, M))
        for arr, first, cfg, M in live:
            R.check(np.array_equal(arr, first), "read:result-changed-by-later-calls", lambda: f"overwrite history {case}: an array read earlier changed afterwards")
        R.outcome(ext, tuple(OVERWRITE_EVENTS[e][1] for e in seq if OVERWRITE_EVENTS[e][0] == "save"), sum(1 for e in seq if OVERWRITE_EVENTS[e][0] == "read"))
    finally:
        shutil.rmtree(d, ignore_errors=True)


# =================================================================== part 2: raster


def margin_np(P, a, b, ra, rb):
    """min over t in [0,1] of |P - a - t(b-a)| - (ra + t(rb-ra)), vectorised over rows of P (float64)."""
    a, b = np.asarray(a, dtype=np.float64), np.asarray(b, dtype=np.float64)
    d = b - a
    L = float(np.sqrt((d * d).sum()))
    w = P - a
    if L == 0.0:
        return np.sqrt((w * w).sum(1)) - max(ra, rb)
    u = d / L
    s = w @ u
    rho = np.sqrt(np.maximum((w * w).sum(1) - s * s, 0.0))
    k = (rb - ra) / L

    def g(uu):
        return np.sqrt((s - uu) ** 2 + rho**2) - ra - k * uu

    out = np.minimum(g(0.0), g(L))
    out = np.minimum(out, g(np.clip(s, 0.0, L)))
    if abs(k) < 1.0:
        out = np.minimum(out, g(np.clip(s + k * rho / math.sqrt(1.0 - k * k), 0.0, L)))
    return out


def margin_scalar(p, a, b, ra, rb):
    """Independent evaluation by ternary search (the distance function is convex in t)."""
    d = [b[i] - a[i] for i in range(3)]

    def f(t):
        return math.dist(p, [a[i] + t * d[i] for i in range(3)]) - (ra + t * (rb - ra))

    lo, hi = 0.0, 1.0
    for _ in range(100):
        m1, m2 = lo + (hi - lo) / 3, hi - (hi - lo) / 3
        if f(m1) < f(m2):
            hi = m2
        else:
            lo = m1
    return min(f(lo), f(0.0), f(1.0))


RESOLUTIONS = (1, 0.5, 0.25, (1, 0.5, 0.25), (0.25, 1, 0.5), 2, 3, 0.75, (1, 1, 3), (3, 0.75, 1.5))

_CBANKS: dict = {}


def compact_bank(k):
    """6 points in a box of side ~4 with generic 2-decimal coordinates; no pair of spheres nested or close to nested,
    pairwise distances >= 0.8, distinct radii; validated while it is built."""
    if k in _CBANKS:
        return _CBANKS[k]
    g = build._lcg(4242 + 31 * k)
    pts = []
    while len(pts) < 6:
        q = tuple(build.f32(round(0.13 + next(g) * 3.7, 2)) for _ in range(3))
        r = build.f32(round(0.2 + next(g) * 0.8, 2))
        ok = True
        for q2, r2 in pts:
            dd = ref.dist(q, q2)
            if dd < 0.8 or abs(r - r2) > dd - 0.2 or abs(r - r2) < 0.02:
                ok = False
        for c in range(3):
            for v in (q[c] - r, q[c] + r):
                if abs(v - round(v)) < 0.02:
                    ok = False
        if ok:
            pts.append((q, r))
    _CBANKS[k] = pts
    return pts


EDGE_R = (0.3, 0.6, 1.2, 2.0)
EDGE_L = (0.0, 0.5, 0.9, 1.4, 3.0)
EDGE_DIR = ((1.0, 0.0, 0.0), (0.0, 0.0, -1.0), (1 / math.sqrt(2), 1 / math.sqrt(2), 0.0), (0.36, 0.48, 0.8))
EDGE_ORIGIN = (0.31, 0.17, -0.42)
LINE_DIR = ((1.0, 0.0, 0.0), (0.0, 0.5, 0.5), (0.5, -0.5, 0.25))
LINE_PERP = ((0.0, 1.0, 0.0), (1.0, 0.0, 0.0), (0.5, 0.5, 0.0))
LINE_R = (0.3, 0.6, 1.1)


def raster_geometry(case):
    """-> parent list, xyz (float32 values), r (float32 values), label"""
    if case[0] == "tree":
        p = [int(v) for v in case[1]]
        bk = compact_bank(int(case[2]))
        n = len(p)
        return p, [bk[i][0] for i in range(n)], [bk[i][1] for i in range(n)]
    if case[0] == "line":
        # nodes EXACTLY on one straight line (dyadic steps along a dyadic direction): chains and a chain with a side twig at a collinear
        # point; radii in every pattern - equal runs followed by a change are where 'merge the straight run into one solid' goes wrong
        _, shape, radii, steps, di = case[:5]
        dv = LINE_DIR[int(di)]
        pos, t_ = [], 0.0
        for k_ in range(len(radii) if shape == "chain" else len(radii) - 1):
            pos.append(tuple(build.f32(EDGE_ORIGIN[c] + t_ * dv[c]) for c in range(3)))
            t_ += float(steps[k_]) if k_ < len(steps) else 0.0
        p = [-1] + list(range(len(pos) - 1))
        if shape == "twig":  # a side twig leaving the middle of the line at right angles
            wv = LINE_PERP[int(di)]
            pos.append(tuple(build.f32(pos[1][c] + 1.5 * wv[c]) for c in range(3)))
            p.append(1)
        return p, pos, [build.f32(v) for v in radii]
    _, ra, rb, L, di = case[:5]
    dv = EDGE_DIR[int(di)]
    a = tuple(build.f32(c) for c in EDGE_ORIGIN)
    b = tuple(build.f32(EDGE_ORIGIN[c] + L * dv[c]) for c in range(3))
    return [-1, 0], [a, b], [build.f32(ra), build.f32(rb)]


def edge_class(xyz, r, edges):
    cls = "regular"
    for i, j in edges:
        L = ref.dist(xyz[i], xyz[j])
        dr = abs(r[i] - r[j])
        if L == 0.0:
            return "coincident-nodes"
        if dr > L + 1e-6:
            cls = "nested-end-spheres"
        elif dr > L - 1e-6 and cls == "regular":
            cls = "internally-tangent-end-spheres"
    return cls


def raster_box(R, xyz, r, res3, ranged):
    """Reference bounding box and voxel counts, or None when the reference declares the case a tie."""
    lo, hi = [], []
    for c in range(3):
        mn = min(q[c] - rr for q, rr in zip(xyz, r))
        mx = max(q[c] + rr for q, rr in zip(xyz, r))
        if abs(mn - round(mn)) < 1e-4 or abs(mx - round(mx)) < 1e-4:
            R.skip("bounding-box-face-on-integer")
            return None
        lo.append(math.floor(mn))
        hi.append(math.ceil(mx))
    if ranged == 2:
        # a thin block through the middle of the tree (block-wise rendering): one unit thick across the longest axis, so that edges
        # cross it with both end nodes outside
        c_ = max(range(3), key=lambda c: hi[c] - lo[c])
        mid = (lo[c_] + hi[c_]) // 2
        lo[c_], hi[c_] = mid, mid + 1
    elif ranged:
        lo = [v - 1 for v in lo]
        hi = [v + 2 for v in hi]
    counts, upper = Counts(), []
    for c in range(3):
        q = (hi[c] - lo[c]) / res3[c]
        if abs(q - round(q)) <= 1e-9:
            counts.append(int(round(q)))
            upper.append(int(round(q)))
            continue
        # the box is not a whole number of voxels along this axis: every voxel whose CENTRE lies inside the box must be there
        # (fewer would not cover the box); a last partial voxel whose centre lies outside may or may not be present
        k = q - 0.5
        if abs(k - round(k)) <= 1e-9:
            R.skip("voxel-centre-on-box-face")
            return None
        if k < 0:
            # no voxel centre falls inside the box along this axis (resolution coarser than twice the extent): what "covering" means
            # for a stack without voxels is not defined by the statement - not asserted
            R.skip("box-thinner-than-half-a-voxel")
            return None
        counts.append(int(math.floor(k)) + 1)
        upper.append(int(math.ceil(q)))
    counts.upper = upper
    return lo, hi, counts


class Counts(list):
    """Voxel counts per axis (x, y, z): the centres strictly inside the box; `.upper` = the largest admissible count."""

    upper: list = []


def judge_raster(R, label, p, xyz, r, res3, box, img):
    """Shape and every voxel of a (Z, X, Y) stack against the closed-form union of round cones."""
    lo, hi, counts = box
    edges = ref.edges(p)
    cls = edge_class(xyz, r, edges)
    want_shape = (counts[2], counts[0], counts[1])
    upper = getattr(counts, "upper", None) or list(counts)
    max_shape = (upper[2], upper[0], upper[1])
    img = np.asarray(img)
    if not R.check(img.ndim == 3 and all(a <= b <= c for a, b, c in zip(want_shape, img.shape, max_shape)), "raster:shape",
                   lambda: f"{label}: stack shape {img.shape}, want (Z,X,Y) = {want_shape}" + ("" if max_shape == want_shape else f" (up to {max_shape})")
                   + f" for box {lo}..{hi} at resolution {res3}: every voxel whose centre lies in the box"):
        return False
    counts = [img.shape[1], img.shape[2], img.shape[0]]  # judge every voxel that is there
    cx = [lo[c] + res3[c] / 2 + np.arange(counts[c]) * res3[c] for c in range(3)]
    Zg, Xg, Yg = np.meshgrid(cx[2], cx[0], cx[1], indexing="ij")
    P = np.stack([Xg.ravel(), Yg.ravel(), Zg.ravel()], axis=1)
    m = np.full(len(P), np.inf)  # no parent-child pair: the union of cones is empty
    for i, j in edges:
        m = np.minimum(m, margin_np(P, xyz[i], xyz[j], r[i], r[j]))
    lit = (img != 0).ravel()
    near = np.abs(m) < 1e-3
    R.skip("voxel-near-surface", int(near.sum()))
    wrong = (lit != (m < 0)) & ~near
    R.outcome(cls, len(p), int(lit.sum()) > 0, int((~lit).sum()) > 0, tuple(res3))
    R.note("voxels", len(P))
    R.note("voxels-lit", int(lit.sum()))
    good = True
    if bool(wrong.any()):
        k0 = int(np.argmax(wrong))
        R.fail("raster:lit",
               f"{label}: {int(wrong.sum())} of {len(P)} voxels wrong ({cls}); e.g. centre {tuple(float(v) for v in P[k0])} "
               f"margin {float(m[k0]):+.4f} lit={bool(lit[k0])}; nodes {list(zip(xyz, r))}", f"raster:lit:{cls}")
        good = False
    # oracle cross-check on a subsample (harness self-check, raises on disagreement)
    if edges:
        for k0 in range(0, len(P), max(1, len(P) // 12)):
            ms = min(margin_scalar([float(v) for v in P[k0]], xyz[i], xyz[j], r[i], r[j]) for i, j in edges)
            if abs(ms - float(m[k0])) > 1e-7:
                raise AssertionError(f"harness bug: closed-form margin {float(m[k0])!r} vs ternary search {ms!r} at {P[k0]} for {label}")
    vals = set(np.unique(img).tolist())
    good &= R.check(img.dtype == np.uint8 and vals <= {0, 255}, "raster:values", lambda: f"{label}: dtype {img.dtype}, values {sorted(vals)[:6]}")
    return good


def _res3(res):
    return ([float(v) for v in res] if isinstance(res, (list, tuple)) else [float(res)] * 3), (tuple(res) if isinstance(res, (list, tuple)) else res)


def check_raster(case, R):
    from swcgeom.images.io import read_imgs
    from swcgeom.transforms import ToImageStack

    p, xyz, r = raster_geometry(case)
    res = case[-2]
    ranged = int(case[-1])
    edges = ref.edges(p)
    if not edges:
        R.trivial()
    res3, res_arg = _res3(res)
    cls = edge_class(xyz, r, edges)
    R.state(case[:-2])
    box = raster_box(R, xyz, r, res3, ranged)
    if box is None:
        R.trivial()
        return
    lo, hi, counts = box

    t = build.make_tree(p, xyz=xyz, r=r)
    snap = build.snapshot(t)
    tr = ToImageStack(res_arg)
    if ranged:
        fn_call = lambda: np.stack(list(tr.transform(t, verbose=False, ranges=(np.array(lo, dtype=np.float64), np.array(hi, dtype=np.float64)))), axis=0)  # noqa: E731
    else:
        fn_call = lambda: tr(t)  # noqa: E731
    ok, img = R.impl("ToImageStack", fn_call, klass=f"raises:ToImageStack:{cls}")
    if not ok:
        return
    img = np.asarray(img)
    R.retain("ToImageStack", lambda g=img: g)
    if not judge_raster(R, f"{case}", p, xyz, r, res3, box, img) and img.shape != (counts[2], counts[0], counts[1]):
        return
    R.check(build.snapshot(t) == snap, "input-modified", lambda: f"{case}")

    # ---- transform_and_save + read_imgs reproduces the stack as (X, Y, Z, 1)
    if not ranged:
        d = tempfile.mkdtemp(prefix="c20ra")
        try:
            fn = os.path.join(d, "tree.tif")
            ok, _ = R.impl("transform_and_save", lambda: tr.transform_and_save(fn, t, verbose=False))
            if ok:
                for dt, scale in ((np.uint8, 1.0), (None, 1 / 255.0)):
                    kw = {} if dt is None else {"dtype": dt}
                    ok2, back = R.impl("read_imgs(saved raster)", lambda: read_imgs(fn, **kw).get_full())
                    if ok2:
                        want = np.transpose(img, (1, 2, 0))[..., None].astype(np.float64) * scale
                        back = np.asarray(back)
                        R.check(back.shape == want.shape and bool(np.all(np.abs(back.astype(np.float64) - want) <= 1e-6)), "raster:save-load",
                                lambda: f"{case}: saved raster read back with shape {back.shape}, want {want.shape} (X,Y,Z,1) and equal voxels")
        finally:
            shutil.rmtree(d, ignore_errors=True)


# ------------------------------------------------------------------ raster call histories

# small trees for histories: (parent list, bank) / single edges incl. a nested one and a one-voxel-thick one
HIST_TREES = (
    ("tree", [-1], 0),
    ("tree", [-1, 0], 1),
    ("tree", [-1, 0, 0], 2),
    ("tree", [-1, 2, 0], 0),  # unsorted numbering
    ("tree", [-1, 0, 1, 1], 3),
    ("edge", 2.0, 0.3, 0.9, 3),  # nested end spheres
    ("edge", 0.3, 0.3, 3.0, 0),  # one voxel thick at resolution 1
    ("edge", 0.6, 1.2, 1.4, 2),
)
HIST_RES = (1, 0.5, (1, 0.5, 0.25))
RASTER_EDITS = ("move", "radius", "move-root")
EDIT_HOWS = ("handle", "column", "copy-then-handle")


def check_raster_history(case, R):
    """One ToImageStack object applied to a sequence of trees (the first one again at the end): every stack is judged
    when returned and re-inspected after the later calls."""
    from swcgeom.transforms import ToImageStack

    idxs, res = [int(i) for i in case[0]], case[1]
    res3, res_arg = _res3(res)
    R.state(tuple(idxs), res3)
    tr = ToImageStack(res_arg)
    built = {}
    live = []
    for k, i in enumerate(idxs + idxs[:1]):
        ht = HIST_TREES[i]
        p, xyz, r = raster_geometry(tuple(ht) + (res, 0))
        if i not in built:
            built[i] = build.make_tree(p, xyz=xyz, r=r)
        box = raster_box(R, xyz, r, res3, False)
        if box is None:
            continue
        ok, img = R.impl("ToImageStack", lambda: tr(built[i]), klass=f"raises:ToImageStack:history")
        if not ok:
            continue
        img = np.asarray(img)
        if judge_raster(R, f"history {case} call #{k} on {ht}", p, xyz, r, res3, box, img):
            live.append((k, ht, p, xyz, r, box, img, img.copy()))
    for k, ht, p, xyz, r, box, img, first in live:
        R.check(np.array_equal(img, first), "raster:result-changed-by-later-calls", lambda: f"history {case}: stack of call #{k} ({ht}) changed afterwards")


def check_raster_edit(case, R):
    """Rasterise, edit the tree in place (move a node, change a radius), rasterise again with the same transform: the
    second stack must describe the edited tree; with 'copy-then-handle' the original must still give the old stack."""
    from swcgeom.transforms import ToImageStack

    i_tree, res, edit, node, how = int(case[0]), case[1], case[2], int(case[3]), case[4]
    ht = HIST_TREES[i_tree]
    p, xyz, r = raster_geometry(tuple(ht) + (res, 0))
    n = len(p)
    res3, res_arg = _res3(res)
    R.state(i_tree, res3, edit, node)
    xyz2, r2 = [tuple(q) for q in xyz], list(r)
    if edit == "radius":
        r2[node] = build.f32(r[node] * 0.5 + 0.17)
    else:
        shift = (0.6, -0.35, 0.45)
        xyz2[node] = tuple(build.f32(xyz[node][c] + shift[c]) for c in range(3))
    tr = ToImageStack(res_arg)
    t = build.make_tree(p, xyz=xyz, r=r)
    box1 = raster_box(R, xyz, r, res3, False)
    ok, img1 = R.impl("ToImageStack", lambda: tr(t))
    if ok and box1 is not None:
        judge_raster(R, f"edit {case} before", p, xyz, r, res3, box1, img1)
    target = t.copy() if how == "copy-then-handle" else t
    if how == "column":
        if edit == "radius":
            target.r()[node] = r2[node]
        else:
            for c, col in enumerate((target.x(), target.y(), target.z())):
                col[node] = xyz2[node][c]
    else:
        nd = target.node(node)
        if edit == "radius":
            nd.r = r2[node]
        else:
            nd.x, nd.y, nd.z = xyz2[node]
    # what the object now holds (the edit itself is C09's business; here it only has to have happened)
    now_xyz = [tuple(float(v) for v in row) for row in zip(target.x().tolist(), target.y().tolist(), target.z().tolist())]
    now_r = [float(v) for v in target.r().tolist()]
    if now_xyz != [tuple(float(v) for v in q) for q in xyz2] or now_r != [float(v) for v in r2]:
        R.skip("edit-not-applied-by-this-route")
        return
    box2 = raster_box(R, xyz2, r2, res3, False)
    ok, img2 = R.impl("ToImageStack", lambda: tr(target))
    if ok and box2 is not None:
        judge_raster(R, f"edit {case} after the edit", p, xyz2, r2, res3, box2, img2)
    if how == "copy-then-handle" and box1 is not None:
        ok, img3 = R.impl("ToImageStack", lambda: tr(t))
        if ok:
            judge_raster(R, f"edit {case} original after editing its copy", p, xyz, r, res3, box1, img3)


def raster_history_cases(depth):
    n = len(HIST_TREES)
    for res in HIST_RES:
        for seq in itertools.product(range(n), repeat=depth):
            if len(set(seq)) == 1 and depth > 1:
                continue
            yield (list(seq), list(res) if isinstance(res, tuple) else res)


def raster_edit_cases():
    for i, ht in enumerate(HIST_TREES):
        n = len(ht[1]) if ht[0] == "tree" else 2
        for res in HIST_RES:
            for edit in RASTER_EDITS:
                nodes = [0] if edit == "move-root" else list(range(n))
                for node in nodes:
                    for how in EDIT_HOWS:
                        yield (i, list(res) if isinstance(res, tuple) else res, edit, node, how)


def raster_cases(st_hi, banks, with_edges, resolutions, lt_hi=4):
    def tables():
        for n in range(1, st_hi + 1):
            yield from S.sorted_trees(n)
        for n in range(3, lt_hi + 1):  # unsorted but well-formed numberings
            for p in S.labelled_trees(n):
                if not ref.is_sorted(p):
                    yield p

    for p in tables():
        if True:
            for b in banks:
                for res in resolutions:
                    for ranged in (0, 1, 2):
                        if ranged == 2 and (len(p) < 2 or res not in (1, 0.5)):
                            continue
                        yield ("tree", list(p), b, res if not isinstance(res, tuple) else list(res), ranged)
    if with_edges:
        import itertools as _it

        for res in resolutions[:2]:
            rr = res if not isinstance(res, tuple) else list(res)
            for di in range(len(LINE_DIR)):
                for radii in _it.product(LINE_R, repeat=3):
                    for steps in ((2, 2), (2, 3)):
                        yield ("line", "chain", list(radii), list(steps), di, rr, 0)
                for radii in _it.product(LINE_R, repeat=4):
                    if di == 0 or radii[0] == radii[1] or radii[1] == radii[2]:
                        yield ("line", "chain", list(radii), [2, 2, 2], di, rr, 0)
                    yield ("line", "twig", list(radii), [2, 2], di, rr, 0)
        for ra in EDGE_R:
            for rb in EDGE_R:
                for L in EDGE_L:
                    for di in range(len(EDGE_DIR)):
                        if L == 0.0 and di > 0:
                            continue
                        for res in resolutions:
                            yield ("edge", ra, rb, L, di, res if not isinstance(res, tuple) else list(res), 0)
                        if L >= 3.0:
                            yield ("edge", ra, rb, L, di, 0.5, 2)  # a one-unit block across the middle of a long edge




# ------------------------------------------------------------------ the same histories, each in a FRESH interpreter

_FRESH_CODE = """
import sys, json, warnings
sys.path[:0] = [sys.argv[1], sys.argv[2]]
warnings.simplefilter("ignore")
from mc import kernel
from mc.props import %(mod)s as M
seq = json.loads(sys.argv[3])
R = kernel.Recorder("fresh", 0)
R._begin(0, seq)
M.%(fn)s(seq, R)
print("RESULT" + json.dumps({k: {"count": v["count"], "kind": v["example"]["kind"], "detail": v["example"]["detail"]} for k, v in R.viol.items()}))
"""


def check_fresh(case, R):
    """State that is decided by the FIRST call of a process (lazily initialised module state) is invisible to a worker
    that has already executed other cases: run the sequence in a new interpreter and import its verdicts."""
    import json
    import subprocess
    import sys

    repo = os.environ.get("VERIF_REPO", "/repo")
    root = os.path.dirname(os.path.dirname(os.path.dirname(os.path.abspath(__file__))))
    R.state(tuple(case))
    R.outcome(tuple(case))
    R.trans()
    r = subprocess.run([sys.executable, "-c", _FRESH_CODE % {"mod": 'c20', "fn": 'check_io_history'}, repo, root, json.dumps(list(case))],
                       capture_output=True, text=True, timeout=110, env=dict(os.environ, PYTHONDONTWRITEBYTECODE="1"))
    line = next((ln for ln in r.stdout.splitlines() if ln.startswith("RESULT")), None)
    if line is None:
        raise RuntimeError(f"fresh interpreter failed for {case}: exit {r.returncode}: {r.stderr[-600:]}")
    for klass, v in json.loads(line[6:]).items():
        for _ in range(v["count"]):
            R.fail(v["kind"], f"in a fresh process, sequence {list(case)}: " + v["detail"], "fresh-process:" + klass)


FRESH_CFGS = (0, 2, 5, 6, 7)  # indices into HISTORY_CFGS


# =================================================================== spaces


def spaces(tier, seed):
    if tier == "quick":
        sizes, st_hi, lt_hi, banks, hist_depth = (1, 2, 3), 4, 4, (seed % 4,), 2
    else:
        sizes, st_hi, lt_hi, banks, hist_depth = (1, 2, 3, 4), 6, 5, (0, 1, 2, 3), 3

    ow_depth = 4 if tier == "quick" else 5

    def io_hist():
        for seq in itertools.product(range(len(HISTORY_CFGS)), repeat=hist_depth):
            yield list(seq)

    return [
        Space.of("save-load", lambda: io_cases(sizes, tier == "thorough"), check_io,
                 bounds={"axis_sizes": list(sizes), "channels": ["3-D input", 1, 3], "dtypes": list(SAVE_DTYPES),
                         "formats": ["tif-zlib", "tif-raw", "nrrd", "npy"], "save_dtype": {k: [str(v) for v in vs] for k, vs in SAVE_DTYPES.items()},
                         "read_dtype": {k: list(vs) for k, vs in READ_DTYPES.items()}, "spellings": ["class", "np.dtype"],
                         "patterns": ["ramp", "extremes (not for tif-raw)", "wide (float data outside [0, 1]; only where no integer type is involved)"], "each file": "read twice"}),
        Space.of("save-load-history", io_hist, check_io_history,
                 bounds={"configurations": len(HISTORY_CFGS), "sequence_length": hist_depth,
                         "history": "save all, then read all in order and the first again; earlier arrays re-inspected"}),
        Space.of("save-load-overwrite", lambda: overwrite_cases(ow_depth), check_overwrite,
                 bounds={"formats": list(OVERWRITE_CFGS), "paths": 2, "stacks_per_format": 3, "events": [list(map(str, e)) for e in OVERWRITE_EVENTS],
                         "sequence_length": f"2..{ow_depth}", "oracle": "a read returns the stack last saved to that path (shape and values)"}),
        Space.of("save-load-fresh-process", lambda: (list(q) for q in itertools.permutations(FRESH_CFGS, 2 if tier == "quick" else 3)), check_fresh,
                 bounds={"configurations": [list(HISTORY_CFGS[i]) for i in FRESH_CFGS], "sequence_length": 2 if tier == "quick" else 3,
                         "history": "every ordered sequence of distinct configurations, each in a new interpreter"}),
        Space.of("raster", lambda: raster_cases(st_hi, banks, True, RESOLUTIONS, lt_hi), check_raster,
                 bounds={"ST_max_nodes": st_hi, "LT_unsorted_max_nodes": lt_hi, "banks": list(banks), "edge_radii": list(EDGE_R), "edge_lengths": list(EDGE_L),
                         "edge_directions": [list(v) for v in EDGE_DIR], "straight_lines": {"radii": list(LINE_R), "directions": [list(v) for v in LINE_DIR],
                         "shapes": "3- and 4-node chains exactly on a line (every radius pattern), 3 on a line + a perpendicular twig at the middle node"}, "resolutions": [list(v) if isinstance(v, tuple) else v for v in RESOLUTIONS],
                         "ranges": ["bounding box", "explicit (box grown by 1 below, 2 above)"]}),
        Space.of("raster-history", lambda: raster_history_cases(hist_depth), check_raster_history,
                 bounds={"trees": len(HIST_TREES), "resolutions": [list(v) if isinstance(v, tuple) else v for v in HIST_RES],
                         "sequence_length": hist_depth, "history": "one transform object, every ordered sequence, first tree again at the end"}),
        Space.of("raster-edit", raster_edit_cases, check_raster_edit,
                 bounds={"trees": len(HIST_TREES), "edits": list(RASTER_EDITS), "routes": list(EDIT_HOWS), "nodes": "every node",
                         "resolutions": [list(v) if isinstance(v, tuple) else v for v in HIST_RES]}),
    ]
