"""C20 — image stacks survive save/load; rasterised trees match their geometry.

Part 1 (save/load): every stack shape (X, Y, Z) in S^3 x channel layout {3-D input, C=1, C=3} x source
    dtype x format {tif zlib, tif uncompressed, nrrd, npy} x `save_tiff(dtype=...)` conversion x read
    dtype (two spellings: scalar class, np.dtype instance) x input kind (ndarray / ImageStack).  The value
    pattern is a ramp with pairwise distinct values, so any axis permutation, flip or offset changes it.
    Oracle: an interval model of the documented conversions (float -> uint: v * max within one level;
    uint -> float: v / max; same kind: value unchanged).
Part 2 (raster): every sorted tree up to the tier bound on compact generic geometry, and a grid of single
    edges (radii x length x direction, including edges whose end spheres are nested, internally tangent,
    or coincide), x resolutions x {default bounding box, explicit ranges}; *every voxel* of every stack is
    compared with the closed-form round-cone inside test; transform_and_save + read_imgs must reproduce
    the same stack.
"""

from __future__ import annotations

import itertools
import math
import os
import shutil
import tempfile

import numpy as np

from mc import build, ref, spaces as S
from mc.kernel import Space

PROPERTY = "C20"
RULE = (
    "save/load: shapes {1,2,3}^3 (thorough {1,2,3,4}^3) x {3-D, C=1, C=3} x source dtype {uint8,uint16,float32,float64} x "
    "format {tif-zlib, tif-raw, nrrd, npy} x save_tiff dtype= menu x read dtype menu (narrowing uint16->uint8 excluded) x dtype "
    "spelling {class, np.dtype} x input kind {ndarray, ImageStack} x value pattern {ramp with pairwise distinct values, scale end points 0/1/max and neighbours}. "
    "raster: every ST(n) n<=4 (thorough 6) on a compact tie-free geometry bank, plus single edges radii {0.3,0.6,1.2,2.0}^2 x length "
    "{0,0.5,0.9,1.4,3} x 4 directions; x resolutions {1,0.5,0.25,(1,0.5,0.25),(0.25,1,0.5),2} x {bounding box, explicit ranges}; "
    "every voxel judged. Distinct = distinct case tuple; non-trivial = more than one voxel resp. at least one edge."
)
ASSUMPTIONS = [
    "float->uint conversion may truncate or round: the result must lie within one level of v*max; uint->float within 4 eps32 (relative) of v/max; "
    "float64->float32 within 2 eps32 relative; otherwise exact",
    "nrrd / npy files are written with pynrrd / numpy in (X,Y,Z[,C]) order (the library has no writer for them)",
    "round cone = union of the balls B(a + t(b-a), ra + t(rb-ra)), t in [0,1]; inside test solved in closed form (convex in t) and "
    "cross-checked by ternary search on a subsample of voxels",
    "voxels whose centre is within 1e-3 of a surface are skipped and counted; cases where a bounding-box face (coordinate +- radius) is "
    "within 1e-4 of an integer, or the box is not a multiple of the resolution, are excluded by the reference",
]

import logging

logging.getLogger("tifffile").setLevel(logging.CRITICAL)  # 'shaped series axes do not match shape' is expected for one-frame files

UMAX = {"uint8": 255.0, "uint16": 65535.0}
EPS32 = 2.0**-23


def _is_uint(d):
    return d in UMAX


# =================================================================== part 1: save / load


def ramp(shape, dtype, pattern="ramp"):
    n = int(np.prod(shape))
    i = np.arange(n, dtype=np.float64).reshape(shape)
    if pattern == "extremes":  # end points of the scale and their neighbours, position dependent
        if dtype in UMAX:
            m = int(UMAX[dtype])
            menu = np.array([m, 0, m - 1, 1, m // 2, m // 2 + 1], dtype=np.float64)
        else:
            menu = np.array([1.0, 0.0, 254.0 / 255.0, 1.0 / 255.0, 0.5, 1.0 / 65535.0], dtype=np.float64)
        return menu[(i.astype(np.int64) * 5 + i.astype(np.int64) // 6) % 6].astype(dtype)
    if dtype == "uint8":
        return (i + 2).astype(np.uint8)  # n <= 192: distinct, never 0 or 1
    if dtype == "uint16":
        return (257 * i + 3).astype(np.uint16)  # spans beyond 8 bits
    return ((i + 1) / (n + 1)).astype(dtype)  # in (0, 1), distinct


SAVE_DTYPES = {
    "uint8": (None, "float32", "float64", "uint16"),
    "uint16": (None, "float32", "float64"),
    "float32": (None, "uint8", "uint16", "float64"),
    "float64": (None, "uint8", "uint16", "float32"),
}
READ_DTYPES = {
    "uint8": ("default", "uint8", "uint16", "float32", "float64"),
    "uint16": ("default", "uint16", "float32", "float64"),
    "float32": ("default", "float32", "float64", "uint8", "uint16"),
    "float64": ("default", "float32", "float64", "uint8", "uint16"),
}


def convert_model(ideal, tol, rel, src, dst):
    """Documented conversion src dtype -> dst dtype on (ideal value, abs tolerance, rel tolerance)."""
    if src == dst:
        return ideal, tol, rel
    if _is_uint(src) and not _is_uint(dst):
        return ideal / UMAX[src], tol / UMAX[src], rel + 4 * EPS32
    if not _is_uint(src) and _is_uint(dst):
        return ideal * UMAX[dst], tol * UMAX[dst] + 1.0, 0.0 + rel
    if not _is_uint(src) and not _is_uint(dst):
        return ideal, tol, rel + (2 * EPS32 if dst == "float32" else 0.0)
    return ideal, tol, rel  # uint widening: value unchanged


def io_cases(sizes, thorough):
    for X, Y, Z in itertools.product(sizes, repeat=3):
        for C in (0, 1, 3):  # 0 = 3-D input
            shape = [X, Y, Z] if C == 0 else [X, Y, Z, C]
            for src in ("uint8", "uint16", "float32", "float64"):
                for fmt in ("tif-zlib", "tif-raw", "nrrd", "npy"):
                    saves = SAVE_DTYPES[src] if fmt == "tif-zlib" else ((None,) + SAVE_DTYPES[src][1:2] if fmt == "tif-raw" else (None,))
                    for sv in saves:
                        stored = sv or src
                        for rd in READ_DTYPES[stored]:
                            spells = ("class",) if rd == "default" else ("class", "instance")
                            for sp in spells:
                                kinds = ("ndarray", "stack") if fmt == "tif-zlib" and sv is None else ("ndarray",)
                                for kind in kinds:
                                    yield (shape, src, fmt, sv, rd, sp, kind, "ramp")
                                    if fmt != "tif-raw":
                                        yield (shape, src, fmt, sv, rd, sp, kind, "extremes")


def check_io(case, R):
    from swcgeom.images.io import NDArrayImageStack, read_imgs, save_tiff

    shape, src, fmt, sv, rd, sp, kind, pattern = case
    shape = tuple(int(v) for v in shape)
    a = ramp(shape, src, pattern)
    R.state(shape, src, fmt, sv, pattern)
    if int(np.prod(shape)) == 1:
        R.trivial()
    want_shape = shape if len(shape) == 4 else shape + (1,)
    ideal = a.astype(np.float64).reshape(want_shape)
    tol, rel = 0.0, 0.0
    stored = src
    if sv is not None:
        ideal, tol, rel = convert_model(ideal, tol, rel, src, sv)
        stored = sv
    rdt = "float32" if rd == "default" else rd
    ideal, tol, rel = convert_model(ideal, tol, rel, stored, rdt)
    R.outcome(src, sv, rdt, len(shape), tuple(int(v == 1) for v in want_shape))

    d = tempfile.mkdtemp(prefix="c20io")
    try:
        a0 = a.copy()
        ext = {"tif-zlib": "tif", "tif-raw": "tif", "nrrd": "nrrd", "npy": "npy"}[fmt]
        fn = os.path.join(d, "stack." + ext)
        if ext == "tif":
            data = a if kind == "ndarray" else NDArrayImageStack(a)
            kw = {}
            if sv is not None:
                kw["dtype"] = getattr(np, sv)
            if fmt == "tif-raw":
                kw["compression"] = False
            ok, _ = R.impl("save_tiff", lambda: save_tiff(data, fn, **kw), klass=f"raises:save_tiff:{src}->{sv}")
            if not ok:
                return
        elif ext == "nrrd":
            import nrrd

            nrrd.write(fn, a)
        else:
            np.save(fn, a)
        R.check(np.array_equal(a, a0) and a.dtype == a0.dtype, "save:input-modified", lambda: f"{case}")

        kw = {}
        if rd != "default":
            kw["dtype"] = getattr(np, rd) if sp == "class" else np.dtype(rd)
        conv = f"{stored}->{rdt}"
        ok, st = R.impl("read_imgs", lambda: read_imgs(fn, **kw), klass=None if stored == rdt else f"raises:read_imgs:{'float' if not _is_uint(stored) else 'uint'}->{'uint' if _is_uint(rdt) else 'float'}")
        if not ok:
            return
        ok, got = R.impl("get_full", st.get_full)
        if not ok:
            return
        got = np.asarray(got)
        if not R.check(tuple(got.shape) == want_shape, "read:shape", lambda: f"{case}: got shape {got.shape}, want {want_shape}", f"read:shape:{ext}"):
            return
        R.check(tuple(st.shape) == want_shape, "read:shape-property", lambda: f"{case}: .shape {st.shape}, want {want_shape}")
        R.check(got.dtype == np.dtype(rdt), "read:dtype", lambda: f"{case}: got dtype {got.dtype}, asked for {rdt}", f"read:dtype:{conv}")
        g = got.astype(np.float64)
        err = np.abs(g - ideal)
        bound = tol + rel * np.abs(ideal)
        bad = err > bound
        kk = f"read:values:{ext}:" + ("same" if stored == rdt and sv is None else f"{src}->{sv or src}->{rdt}")
        R.check(not bool(bad.any()), "read:values",
                lambda: f"{case}: {int(bad.sum())} of {bad.size} voxels differ; first at {tuple(int(v) for v in np.argwhere(bad)[0])}: "
                f"got {g[tuple(np.argwhere(bad)[0])]!r}, want {ideal[tuple(np.argwhere(bad)[0])]!r} +- {float(np.max(bound)):.3g}", kk)
        # element access agrees with the full array
        idx = tuple(v - 1 for v in want_shape)
        ok, one = R.impl("getitem", lambda: st[idx])
        if ok:
            R.check(float(one) == float(got[idx]), "read:getitem", lambda: f"{case}: stack{idx} = {one!r}, full array has {got[idx]!r}")
    finally:
        shutil.rmtree(d, ignore_errors=True)


# =================================================================== part 2: raster


def margin_np(P, a, b, ra, rb):
    """min over t in [0,1] of |P - a - t(b-a)| - (ra + t(rb-ra)), vectorised over rows of P (float64)."""
    a, b = np.asarray(a, dtype=np.float64), np.asarray(b, dtype=np.float64)
    d = b - a
    L = float(np.sqrt((d * d).sum()))
    w = P - a
    if L == 0.0:
        return np.sqrt((w * w).sum(1)) - max(ra, rb)
    u = d / L
    s = w @ u
    rho = np.sqrt(np.maximum((w * w).sum(1) - s * s, 0.0))
    k = (rb - ra) / L

    def g(uu):
        return np.sqrt((s - uu) ** 2 + rho**2) - ra - k * uu

    out = np.minimum(g(0.0), g(L))
    out = np.minimum(out, g(np.clip(s, 0.0, L)))
    if abs(k) < 1.0:
        out = np.minimum(out, g(np.clip(s + k * rho / math.sqrt(1.0 - k * k), 0.0, L)))
    return out


def margin_scalar(p, a, b, ra, rb):
    """Independent evaluation by ternary search (the distance function is convex in t)."""
    d = [b[i] - a[i] for i in range(3)]

    def f(t):
        return math.dist(p, [a[i] + t * d[i] for i in range(3)]) - (ra + t * (rb - ra))

    lo, hi = 0.0, 1.0
    for _ in range(100):
        m1, m2 = lo + (hi - lo) / 3, hi - (hi - lo) / 3
        if f(m1) < f(m2):
            hi = m2
        else:
            lo = m1
    return min(f(lo), f(0.0), f(1.0))


RESOLUTIONS = (1, 0.5, 0.25, (1, 0.5, 0.25), (0.25, 1, 0.5), 2)

_CBANKS: dict = {}


def compact_bank(k):
    """6 points in a box of side ~4 with generic 2-decimal coordinates; no pair of spheres nested or close to nested,
    pairwise distances >= 0.8, distinct radii; validated while it is built."""
    if k in _CBANKS:
        return _CBANKS[k]
    g = build._lcg(4242 + 31 * k)
    pts = []
    while len(pts) < 6:
        q = tuple(build.f32(round(0.13 + next(g) * 3.7, 2)) for _ in range(3))
        r = build.f32(round(0.2 + next(g) * 0.8, 2))
        ok = True
        for q2, r2 in pts:
            dd = ref.dist(q, q2)
            if dd < 0.8 or abs(r - r2) > dd - 0.2 or abs(r - r2) < 0.02:
                ok = False
        for c in range(3):
            for v in (q[c] - r, q[c] + r):
                if abs(v - round(v)) < 0.02:
                    ok = False
        if ok:
            pts.append((q, r))
    _CBANKS[k] = pts
    return pts


EDGE_R = (0.3, 0.6, 1.2, 2.0)
EDGE_L = (0.0, 0.5, 0.9, 1.4, 3.0)
EDGE_DIR = ((1.0, 0.0, 0.0), (0.0, 0.0, -1.0), (1 / math.sqrt(2), 1 / math.sqrt(2), 0.0), (0.36, 0.48, 0.8))
EDGE_ORIGIN = (0.31, 0.17, -0.42)


def raster_geometry(case):
    """-> parent list, xyz (float32 values), r (float32 values), label"""
    if case[0] == "tree":
        p = [int(v) for v in case[1]]
        bk = compact_bank(int(case[2]))
        n = len(p)
        return p, [bk[i][0] for i in range(n)], [bk[i][1] for i in range(n)]
    _, ra, rb, L, di = case[:5]
    dv = EDGE_DIR[int(di)]
    a = tuple(build.f32(c) for c in EDGE_ORIGIN)
    b = tuple(build.f32(EDGE_ORIGIN[c] + L * dv[c]) for c in range(3))
    return [-1, 0], [a, b], [build.f32(ra), build.f32(rb)]


def edge_class(xyz, r, edges):
    cls = "regular"
    for i, j in edges:
        L = ref.dist(xyz[i], xyz[j])
        dr = abs(r[i] - r[j])
        if L == 0.0:
            return "coincident-nodes"
        if dr > L + 1e-6:
            cls = "nested-end-spheres"
        elif dr > L - 1e-6 and cls == "regular":
            cls = "internally-tangent-end-spheres"
    return cls


def check_raster(case, R):
    from swcgeom.images.io import read_imgs
    from swcgeom.transforms import ToImageStack

    p, xyz, r = raster_geometry(case)
    res = case[-2]
    ranged = bool(case[-1])
    n = len(p)
    edges = ref.edges(p)
    if not edges:
        R.trivial()
    res3 = [float(v) for v in res] if isinstance(res, (list, tuple)) else [float(res)] * 3
    res_arg = tuple(res) if isinstance(res, (list, tuple)) else res
    cls = edge_class(xyz, r, edges)
    R.state(case[:-2])

    # ---- reference bounding box (floor/ceil of coordinate -+ radius), ties excluded
    lo, hi = [], []
    for c in range(3):
        mn = min(q[c] - rr for q, rr in zip(xyz, r))
        mx = max(q[c] + rr for q, rr in zip(xyz, r))
        if abs(mn - round(mn)) < 1e-4 or abs(mx - round(mx)) < 1e-4:
            R.skip("bounding-box-face-on-integer")
            R.trivial()
            return
        lo.append(math.floor(mn))
        hi.append(math.ceil(mx))
    if ranged:
        lo = [v - 1 for v in lo]
        hi = [v + 2 for v in hi]
    counts = []
    for c in range(3):
        q = (hi[c] - lo[c]) / res3[c]
        if abs(q - round(q)) > 1e-9:
            R.skip("box-not-multiple-of-resolution")
            R.trivial()
            return
        counts.append(int(round(q)))
    want_shape = (counts[2], counts[0], counts[1])

    t = build.make_tree(p, xyz=xyz, r=r)
    snap = build.snapshot(t)
    tr = ToImageStack(res_arg)
    if ranged:
        fn_call = lambda: np.stack(list(tr.transform(t, verbose=False, ranges=(np.array(lo, dtype=np.float64), np.array(hi, dtype=np.float64)))), axis=0)  # noqa: E731
    else:
        fn_call = lambda: tr(t)  # noqa: E731
    ok, img = R.impl("ToImageStack", fn_call, klass=f"raises:ToImageStack:{cls}")
    if not ok:
        return
    img = np.asarray(img)
    if not R.check(img.ndim == 3 and tuple(img.shape) == want_shape, "raster:shape",
                   lambda: f"{case}: stack shape {img.shape}, want (Z,X,Y) = {want_shape} for box {lo}..{hi} at resolution {res3}"):
        return

    # ---- every voxel
    cx = [lo[c] + res3[c] / 2 + np.arange(counts[c]) * res3[c] for c in range(3)]
    Zg, Xg, Yg = np.meshgrid(cx[2], cx[0], cx[1], indexing="ij")
    P = np.stack([Xg.ravel(), Yg.ravel(), Zg.ravel()], axis=1)
    if edges:
        m = np.full(len(P), np.inf)
        for i, j in edges:
            m = np.minimum(m, margin_np(P, xyz[i], xyz[j], r[i], r[j]))
    else:
        m = np.full(len(P), np.inf)  # no parent-child pair: the union of cones is empty
    lit = (img != 0).ravel()
    near = np.abs(m) < 1e-3
    R.skip("voxel-near-surface", int(near.sum()))
    wrong = (lit != (m < 0)) & ~near
    R.outcome(cls, n, int(lit.sum()) > 0, int((~lit).sum()) > 0, tuple(res3), ranged)
    R.note("voxels", len(P))
    R.note("voxels-lit", int(lit.sum()))
    if bool(wrong.any()):
        k0 = int(np.argmax(wrong))
        R.fail("raster:lit",
               f"{case}: {int(wrong.sum())} of {len(P)} voxels wrong ({cls}); e.g. centre {tuple(float(v) for v in P[k0])} "
               f"margin {float(m[k0]):+.4f} lit={bool(lit[k0])}; nodes {list(zip(xyz, r))}", f"raster:lit:{cls}")
    # oracle cross-check on a subsample (harness self-check, raises on disagreement)
    if edges:
        for k0 in range(0, len(P), max(1, len(P) // 12)):
            ms = min(margin_scalar([float(v) for v in P[k0]], xyz[i], xyz[j], r[i], r[j]) for i, j in edges)
            if abs(ms - float(m[k0])) > 1e-7:
                raise AssertionError(f"harness bug: closed-form margin {float(m[k0])!r} vs ternary search {ms!r} at {P[k0]} for {case}")
    vals = set(np.unique(img).tolist())
    R.check(img.dtype == np.uint8 and vals <= {0, 255}, "raster:values", lambda: f"{case}: dtype {img.dtype}, values {sorted(vals)[:6]}")
    R.check(build.snapshot(t) == snap, "input-modified", lambda: f"{case}")

    # ---- transform_and_save + read_imgs reproduces the stack as (X, Y, Z, 1)
    if not ranged:
        d = tempfile.mkdtemp(prefix="c20ra")
        try:
            fn = os.path.join(d, "tree.tif")
            ok, _ = R.impl("transform_and_save", lambda: tr.transform_and_save(fn, t, verbose=False))
            if ok:
                for dt, scale in ((np.uint8, 1.0), (None, 1 / 255.0)):
                    kw = {} if dt is None else {"dtype": dt}
                    ok2, back = R.impl("read_imgs(saved raster)", lambda: read_imgs(fn, **kw).get_full())
                    if ok2:
                        want = np.transpose(img, (1, 2, 0))[..., None].astype(np.float64) * scale
                        back = np.asarray(back)
                        R.check(back.shape == want.shape and bool(np.all(np.abs(back.astype(np.float64) - want) <= 1e-6)), "raster:save-load",
                                lambda: f"{case}: saved raster read back with shape {back.shape}, want {want.shape} (X,Y,Z,1) and equal voxels")
        finally:
            shutil.rmtree(d, ignore_errors=True)


def raster_cases(st_hi, banks, with_edges, resolutions):
    for n in range(1, st_hi + 1):
        for p in S.sorted_trees(n):
            for b in banks:
                for res in resolutions:
                    for ranged in (0, 1):
                        yield ("tree", list(p), b, res if not isinstance(res, tuple) else list(res), ranged)
    if with_edges:
        for ra in EDGE_R:
            for rb in EDGE_R:
                for L in EDGE_L:
                    for di in range(len(EDGE_DIR)):
                        if L == 0.0 and di > 0:
                            continue
                        for res in resolutions:
                            yield ("edge", ra, rb, L, di, res if not isinstance(res, tuple) else list(res), 0)


# =================================================================== spaces


def spaces(tier, seed):
    if tier == "quick":
        sizes, st_hi, banks = (1, 2, 3), 4, (seed % 4,)
    else:
        sizes, st_hi, banks = (1, 2, 3, 4), 6, (0, 1, 2, 3)
    return [
        Space.of("save-load", lambda: io_cases(sizes, tier == "thorough"), check_io,
                 bounds={"axis_sizes": list(sizes), "channels": ["3-D input", 1, 3], "dtypes": list(SAVE_DTYPES),
                         "formats": ["tif-zlib", "tif-raw", "nrrd", "npy"], "save_dtype": {k: [str(v) for v in vs] for k, vs in SAVE_DTYPES.items()},
                         "read_dtype": {k: list(vs) for k, vs in READ_DTYPES.items()}, "spellings": ["class", "np.dtype"], "patterns": ["ramp", "extremes (not for tif-raw)"]}),
        Space.of("raster", lambda: raster_cases(st_hi, banks, True, RESOLUTIONS), check_raster,
                 bounds={"ST_max_nodes": st_hi, "banks": list(banks), "edge_radii": list(EDGE_R), "edge_lengths": list(EDGE_L),
                         "edge_directions": [list(v) for v in EDGE_DIR], "resolutions": [list(v) if isinstance(v, tuple) else v for v in RESOLUTIONS],
                         "ranges": ["bounding box", "explicit (box grown by 1 below, 2 above)"]}),
    ]
