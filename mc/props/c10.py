"""C10 — morphometric features equal their textbook definitions.

Every observable the statement names is computed by the real library on every tree of a finite,
completely enumerated space and compared with the float64 definitions in `mc/reffeat.py`.

Conventions (each restated next to its use in reffeat.py):
  * tortuosity          = straight-line distance / length along the path (Path.tortuosity docstring); 1 for zero length
  * LMeasure.branch_order      = furcations among the node and its ancestors (root included)
  * NodeFeatures.get_branch_order = depth of a critical node in the branch tree
    (CutByFurcationOrder's third convention belongs to C06)
  * Sholl count at r    = segments with one end at radial distance <= r and the other > r, radii about the root
  * integer `steps` = k = the k radii j*rmax/(k+1)
  * tilt                = smaller of the vertex angles (previous point, bifurcation, daughter); remote variants use critical nodes
  * torque              = angle between consecutive bifurcation planes, fixed only up to t <-> 180-t (daughter order)
"""

from __future__ import annotations

import itertools
import math

import numpy as np

from mc import build, ref, reffeat as RF, spaces as S
from mc.kernel import Space

PROPERTY = "C10"
RULE = (
    "trees-generic: every sorted tree ST(n) and every unsorted labelled tree LT(n) up to the tier bound with tie-free generic "
    "geometry (bank VERIF_SEED%4), the smaller ST(n) also with the bank shrunk by 1/32 (path lengths < 1); trees-lattice: every ST(n) x every assignment of parent-relative displacements from a 5-element "
    "integer menu (zero = zero-length edge; equal choices of siblings = coincident siblings; repeated/opposite = collinear, folded "
    "back); binary-trees: every binary sorted tree BT(n) above the ST bound. Per tree: Tree.length, every Branch/Path object "
    "(length, tortuosity, straight-line distance), Node/Tip/Furcation/Path/Branch feature classes, Sholl at every mid-gap radius "
    "+ one below min + one above max via intersect/get(list)/get(array)/front end, integer steps {1,2,5,20} and the default, "
    "every L-Measure item of the statement at every node / branch / bifurcation, and the extract_feature front end for all 13 "
    "feature names in single, tuple, list and dict form. populations: every ordered pair and triple of 6 trees of different sizes "
    "x all feature names (zero-padded rows; shared Sholl radii). query-edit-query: every ST(n) up to the bound x every admissible single "
    "re-parenting and every single node move, applied in place through a node handle / the column array / on a copy after all queries "
    "were warmed: full oracle before and after (and on the untouched original). call-histories: all ordered A,B and A,B,A sequences over "
    "6 trees (same shape other coordinates, same coordinates other shape, unsorted, one node), answers retained across later calls. "
    "every-size: chain, star, heap, caterpillar of EVERY size 1..bound (fast-path thresholds). "
    "Non-trivial = tree with >= 2 nodes; distinct = (parent table, geometry[, edit])."
)
ASSUMPTIONS = [
    "coordinates are exactly representable in float32 (bank values are float32-rounded, lattice values are small integers), so the "
    "float64 reference sees the numbers the library stores; the library evaluates in float32: every +,-,*,/,sqrt has relative error "
    "<= 2^-24 = 6e-8, a sum of <= 8 segment lengths therefore < 1e-6 relative; lengths/distances/ratios are compared with "
    "|a-b| <= 2e-5*max(1,|b|) (20x margin)",
    "angles (degrees): float32 evaluation of cos has absolute error <= 4e-7 (bound used: 1e-6); d(theta) <= eps_c/max(sin theta, "
    "sqrt(eps_c)/2) rad plus 2e-5*(1+theta) for the float32 arccos/degree conversion",
    "a Sholl radius within 1e-5*(1+2*max|coordinate|) of some node's radial distance (10x the float32 error of translate+norm) is a "
    "specification tie (skipped); mid-gap radii are >= 5e-3 (1.5e-4 on the shrunk bank) from every node by construction of the banks "
    "(pairwise distances differ by >= 0.01) and >= 0.025 on the lattice - asserted at run time with a 4x margin; at an exact tie "
    "(lattice, integer radial distance) only the convention-free bound 'between the counts at r-0.01 and r+0.01' is asserted",
    "undefined values (contraction of a zero-length branch, an angle with a zero vector, torque when the previous critical node is "
    "not a bifurcation) must raise or be non-finite; no particular value is required",
    "Sholl of a one-node tree (no segment) is not asserted (the library raises ValueError('invalid tree')); n_bifs is asserted on "
    "binary trees only (a trifurcation is a furcation but not literally a bifurcation)",
    "order of per-branch / per-path / per-tip arrays is not asserted (sorted multisets); node_radial_distance is by node id; "
    "node_branch_order is by BranchTree node id (nodes identified by their unique coordinates on generic geometry, multiset otherwise)",
]

TOL = 2e-5
EPS_COS = 1e-6
FEATURES = [
    "length", "sholl", "node_count", "node_radial_distance", "node_branch_order", "furcation_count",
    "furcation_radial_distance", "tip_count", "tip_radial_distance", "branch_length", "branch_tortuosity",
    "path_length", "path_tortuosity",
]
STEP_COUNTS = (1, 2, 5, 20)

SMALL = 1.0 / 32
LAT_ROOT = (1.0, 2.0, 3.0)
LAT_DISP = [(0, 0, 0), (1, 0, 0), (0, 1, 0), (-1, 0, 0), (1, 1, 1)]


def close(a, b, tol=TOL):
    a, b = float(a), float(b)
    return math.isfinite(a) and abs(a - b) <= tol * max(1.0, abs(b))


def close_list(got, want, tol=TOL):
    return len(got) == len(want) and all(close(a, b, tol) for a, b in zip(got, want))


def close_multiset(got, want, tol=TOL):
    return close_list(sorted(float(v) for v in got), sorted(want), tol)


def angle_tol(theta_deg):
    s = abs(math.sin(math.radians(theta_deg)))
    return math.degrees(EPS_COS / max(s, math.sqrt(EPS_COS) / 2)) + 2e-5 * (1 + theta_deg)


def angle_close(got, want):
    got = float(got)
    return math.isfinite(got) and abs(got - want) <= angle_tol(want)


def flt(a):
    return [float(v) for v in np.asarray(a).ravel().tolist()]


def geometry(case):
    kind, p = case[0], case[1]
    n = len(p)
    if kind == "gen":
        return build.generic_geometry(n, int(case[2]))
    if kind == "gens":  # the same bank shrunk by 2^-5 (exact in float32): multi-segment paths shorter than 1
        xyz, r = build.generic_geometry(n, int(case[2]))
        return [tuple(c * SMALL for c in q) for q in xyz], [v * SMALL for v in r]
    if kind in ("genu", "genU"):  # another length unit: the bank x 2^-10 (mm for um) / x 2^10 - exact in float32; angles and counts are scale-free
        f_ = 2.0 ** -10 if kind == "genu" else 2.0 ** 10
        xyz, r = build.generic_geometry(n, int(case[2]))
        return [tuple(c * f_ for c in q) for q in xyz], [v * f_ for v in r]
    disp = case[2]
    xyz = [LAT_ROOT] * n
    for i in sorted(range(n), key=lambda i: ref.depth(p, i)):
        if p[i] == -1:
            continue
        d, q = LAT_DISP[disp[i - 1]], xyz[p[i]]
        xyz[i] = (q[0] + d[0], q[1] + d[1], q[2] + d[2])
    return xyz, [1.0 - 0.125 * (i % 4) for i in range(n)]


# ------------------------------------------------------------------ reference feature table


def ref_features(p, xyz):
    """name -> (mode, values); mode 'ordered' (by node id / single value) or 'multiset'."""
    n = len(p)
    rd = RF.radial(p, xyz)
    tips, fur = ref.tips(p), ref.furcations(p)
    brs, pts = RF.branches(p), RF.paths(p)
    depth = RF.branch_order_depth(p)
    return {
        "length": ("ordered", [RF.tree_length(p, xyz)]),
        "node_count": ("ordered", [float(n)]),
        "tip_count": ("ordered", [float(len(tips))]),
        "furcation_count": ("ordered", [float(len(fur))]),
        "node_radial_distance": ("ordered", rd),
        "tip_radial_distance": ("multiset", [rd[i] for i in tips]),
        "furcation_radial_distance": ("multiset", [rd[i] for i in fur]),
        "node_branch_order": ("multiset", [float(v) for v in depth.values()]),
        "branch_length": ("multiset", [RF.polyline_length(b, xyz) for b in brs]),
        "branch_tortuosity": ("multiset", [RF.tortuosity(b, xyz) for b in brs]),
        "path_length": ("multiset", [RF.polyline_length(q, xyz) for q in pts]),
        "path_tortuosity": ("multiset", [RF.tortuosity(q, xyz) for q in pts]),
    }


def judge_feature(R, where, name, got, table, p, extra=""):
    mode, want = table[name]
    got = flt(got)
    ok = close_list(got, want) if mode == "ordered" else close_multiset(got, want)
    R.check(ok, f"feature:{name}", lambda: f"{where} p={p}{extra}: got {got} want ({mode}) {want}", f"feature:{name}@{where}")
    return ok


# ------------------------------------------------------------------ one tree


def check_tree(case, R):
    kind, p = case[0], [int(v) for v in case[1]]
    case = (kind, p, [int(v) for v in case[2]] if kind == "lat" else int(case[2]))
    n = len(p)
    gxyz, grad = geometry(case)
    t = build.make_tree(p, xyz=gxyz, r=grad)
    R.state(kind, p, build.tags_xyz(t))
    if n < 2:
        R.trivial()
    ctx = f"{kind} p={p}" + (f" xyz={build.tags_xyz(t)}" if kind == "lat" else f" bank={case[2]}")
    R.outcome(*oracle(R, t, p, kind, ctx))


def oracle(R, t, p, kind, ctx, lm=None, long_radii=False):
    """The complete definitional oracle on the tree object t, whose CURRENT content is parent list p and the
    coordinates its columns hold.  Returns a summary of what was observed (for the outcome count)."""
    from swcgeom.analysis import Sholl, extract_feature
    from swcgeom.analysis.features import BranchFeatures, FurcationFeatures, NodeFeatures, PathFeatures, TipFeatures
    from swcgeom.analysis.lmeasure import LMeasure
    from swcgeom.core import BranchTree

    n = len(p)
    xyz = build.tags_xyz(t)
    snap = build.snapshot(t)
    unique_pts = len(set(xyz)) == n
    ch = ref.children(p)
    margin = tie_margin(xyz)
    table = ref_features(p, xyz)
    L = table["length"][1][0]
    rd = table["node_radial_distance"][1]

    # ---- A. tree length = sum of parent-child distances = sum of branch lengths
    ok, v = R.impl("Tree.length", t.length)
    if ok:
        R.check(close(v, L), "length", lambda: f"{ctx}: Tree.length {v} want {L}", "length:Tree.length")

    # ---- B. branch and path objects, keyed by their node sequence
    lm = LMeasure() if lm is None else lm  # histories hand in ONE LMeasure object used for every tree of the sequence
    ref_br = {tuple(b) for b in RF.branches(p)}
    ok, brs = R.impl("get_branches", t.get_branches)
    if ok:
        keys = [tuple(int(i) for i in b.origin_id().tolist()) for b in brs]
        R.check(sorted(keys) == sorted(ref_br), "branches:decomposition", lambda: f"{ctx}: got {sorted(keys)} want {sorted(ref_br)}")
        total = 0.0
        for key, b in zip(keys, brs):
            if key not in ref_br:
                continue
            wl, wt, ws = RF.polyline_length(key, xyz), RF.tortuosity(key, xyz), RF.straight(key, xyz)
            for nm, fn, want in (("Branch.length", b.length, wl), ("Branch.tortuosity", b.tortuosity, wt),
                                 ("Branch.straight_line_distance", b.straight_line_distance, ws),
                                 ("LMeasure.branch_pathlength", lambda b=b: lm.branch_pathlength(b), wl)):
                ok2, v = R.impl(nm, fn)
                if ok2:
                    R.check(close(v, want), "branch:" + nm, lambda: f"{ctx} branch {key}: {nm} = {v} want {want}", nm)
                    if nm == "Branch.length":
                        total += float(v)
            ok2, v = R.impl("LMeasure.fragmentation", lm.fragmentation, b)
            if ok2:
                R.check(int(v) == len(key) - 1 and float(v) == int(v), "lmeasure:fragmentation",
                        lambda: f"{ctx} branch {key}: fragmentation {v} want {len(key) - 1} compartments")
            wc = RF.contraction(key, xyz)
            if wc is None:
                ok2, v = R.attempt(lm.contraction, b)
                R.note("undefined:contraction")
                R.check((not ok2) or not math.isfinite(float(v)), "lmeasure:contraction-undefined",
                        lambda: f"{ctx} branch {key} has zero length: contraction is undefined but {v} was returned")
            else:
                ok2, v = R.impl("LMeasure.contraction", lm.contraction, b)
                if ok2:
                    R.check(close(v, wc), "lmeasure:contraction", lambda: f"{ctx} branch {key}: contraction {v} want {wc}")
        if sorted(keys) == sorted(ref_br):
            R.check(close(total, L), "length:sum-of-branches", lambda: f"{ctx}: sum of branch lengths {total} != tree length {L}")

    ref_pt = {tuple(q) for q in RF.paths(p)}
    ok, pts = R.impl("get_paths", t.get_paths)
    if ok:
        keys = [tuple(int(i) for i in q.origin_id().tolist()) for q in pts]
        R.check(sorted(keys) == sorted(ref_pt), "paths:decomposition", lambda: f"{ctx}: got {sorted(keys)} want {sorted(ref_pt)}")
        for key, q in zip(keys, pts):
            if key not in ref_pt:
                continue
            for nm, fn, want in (("Path.length", q.length, RF.polyline_length(key, xyz)), ("Path.tortuosity", q.tortuosity, RF.tortuosity(key, xyz)),
                                 ("Path.straight_line_distance", q.straight_line_distance, RF.straight(key, xyz))):
                ok2, v = R.impl(nm, fn)
                if ok2:
                    R.check(close(v, want), "path:" + nm, lambda: f"{ctx} path {key}: {nm} = {v} want {want}", nm)

    # ---- C. feature classes
    nf = NodeFeatures(t)
    api = {
        "node_count": nf.get_count,
        "node_radial_distance": nf.get_radial_distance,
        "tip_count": TipFeatures(nf).get_count,
        "tip_radial_distance": TipFeatures.from_tree(t).get_radial_distance,
        "furcation_count": FurcationFeatures(nf).get_count,
        "furcation_radial_distance": FurcationFeatures.from_tree(t).get_radial_distance,
        "branch_length": BranchFeatures(t).get_length,
        "branch_tortuosity": BranchFeatures(t).get_tortuosity,
        "path_length": PathFeatures(t).get_length,
        "path_tortuosity": PathFeatures(t).get_tortuosity,
    }
    for name, fn in api.items():
        ok, v = R.impl("features." + name, fn)
        if ok:
            judge_feature(R, "class", name, v, table, p, f" xyz={xyz}" if kind == "lat" else "")
    for nm, fn, want in (("PathFeatures.get_count", PathFeatures(t).get_count, len(ref_pt)), ("BranchFeatures.get_count", BranchFeatures(t).get_count, len(ref_br))):
        ok, v = R.impl(nm, fn)
        if ok:
            R.check(int(v) == want, "feature:count", lambda: f"{ctx}: {nm} = {v} want {want}", nm)
    for i in range(n):
        ok, v = R.impl("Node.radial_distance", t.node(i).radial_distance)
        if ok:
            R.check(close(v, rd[i]), "node:radial_distance", lambda: f"{ctx} node {i}: {v} want {rd[i]}")

    # node branch order: by branch-tree node (identified by coordinates) when points are unique
    depth = RF.branch_order_depth(p)
    ok, bo = R.impl("NodeFeatures.get_branch_order", NodeFeatures(t).get_branch_order)
    bo_keyed = None
    if ok:
        got = [int(v) for v in np.asarray(bo).tolist()]
        R.check(sorted(got) == sorted(depth.values()), "feature:node_branch_order",
                lambda: f"{ctx}: branch orders {got} want (multiset) {sorted(depth.values())} for critical nodes {sorted(depth)}", "feature:node_branch_order@class")
        if unique_pts:
            ok2, bt = R.impl("BranchTree.from_tree", BranchTree.from_tree, t)
            if ok2 and len(bt) == len(got):
                tag2orig = {q: i for i, q in enumerate(xyz)}
                orig = [tag2orig.get(q) for q in build.tags_xyz(bt)]
                if all(o in depth for o in orig):
                    bo_keyed = [depth[o] for o in orig]
                    R.check(got == bo_keyed, "feature:node_branch_order", lambda: f"{ctx}: order by branch-tree node {got} want {bo_keyed} (nodes {orig})",
                            "feature:node_branch_order@class:keyed")

    # ---- D. Sholl
    sholl_obs = ()
    radii = RF.sholl_midgap_radii(p, xyz)
    if kind in ("gen", "gens", "lat"):  # banks are built so that this cannot happen: a tie here is a harness bug
        assert not any(RF.sholl_tie(p, xyz, r, 4 * margin) for r in radii), "harness: mid-gap radius ties with a node"
    else:
        keep = [r for r in radii if not RF.sholl_tie(p, xyz, r, 4 * margin)]
        R.skip("sholl-node-on-sphere", len(radii) - len(keep))
        radii = keep
    want_counts = [RF.sholl_count(p, xyz, r) for r in radii]
    if n >= 2:
        ok, sh = R.impl("Sholl", Sholl, t)
        if ok:
            got = []
            for r in radii:
                ok2, v = R.impl("Sholl.intersect", sh.intersect, r)
                got.append(int(v) if ok2 else None)
            R.check(got == want_counts, "sholl:intersect", lambda: f"{ctx}: radii {radii} got {got} want {want_counts}; radial distances {rd}")
            for nm, arg in (("list", list(radii)), ("array", np.array(radii)), ("f32array", np.array(radii, dtype=np.float32))):
                ok2, v = R.impl("Sholl.get", sh.get, arg)
                if ok2:
                    g = [int(x) for x in np.asarray(v).tolist()]
                    R.check(g == want_counts and all(float(x) == int(x) for x in flt(v)), "sholl:get", lambda: f"{ctx}: get({nm} {radii}) = {g} want {want_counts}", f"sholl:get:{nm}")
            # the requested radii in other orders, with repeats and with radii beyond the tree in front: one count per request, in request order
            m = len(radii)
            orders = {"descending": list(range(m - 1, -1, -1)), "outermost-first": [m - 1] + list(range(m - 1)),
                      "interleaved": [i for pair in zip(range(m - 1, -1, -1), range(m)) for i in pair][:m] if m > 1 else [0],
                      "repeated": [i for i in range(m) for _ in (0, 1)]}
            for onm, perm in orders.items():
                req = [radii[i] for i in perm]
                ok2, v = R.impl("Sholl.get", sh.get, list(req))
                if ok2:
                    g = [int(x) for x in np.asarray(v).tolist()]
                    R.check(g == [want_counts[i] for i in perm], "sholl:get", lambda: f"{ctx}: get({req}) = {g} want {[want_counts[i] for i in perm]}",
                            f"sholl:get:order:{onm}")
            sholl_obs = tuple(want_counts)
            # the deprecated constructor spelling Sholl(tree, step=s): intersect(r) is still the count at r
            if radii:
                import warnings as _w

                with _w.catch_warnings():
                    _w.simplefilter("ignore")
                    ok2, sh2 = R.impl("Sholl(step=)", lambda: Sholl(t, step=radii[0]))
                if ok2:
                    got2 = []
                    for r in radii:
                        ok3, v = R.impl("Sholl(step=).intersect", sh2.intersect, r)
                        got2.append(int(v) if ok3 else None)
                    R.check(got2 == want_counts, "sholl:intersect", lambda: f"{ctx}: Sholl(tree, step={radii[0]}).intersect at {radii} got {got2} want {want_counts}",
                            "sholl:intersect:deprecated-step-constructor")
            if kind == "lat":
                # A node exactly on the sphere (lattice: integer radial distances are exact in float32 and float64).  The definition
                # leaves the convention open, but every reading counts each path between its one-sided limits: the count at r
                # must lie between the counts just inside and just outside (no double counting, no dropping of a crossing path).
                for d in sorted({x for x in rd if x == int(x)}):
                    lo, hi = RF.sholl_count(p, xyz, d - 0.01), RF.sholl_count(p, xyz, d + 0.01)
                    lo, hi = min(lo, hi), max(lo, hi)
                    for nm, fn in (("intersect", lambda: sh.intersect(d)), ("get", lambda: sh.get([d])[0])):
                        ok2, v = R.impl("Sholl." + nm + "(tie)", fn)
                        if ok2:
                            R.note("sholl-tie-radius")
                            R.check(lo <= int(v) <= hi, "sholl:tie-range", lambda: f"{ctx}: a node lies exactly on the sphere r={d}: count {int(v)} is outside "
                                    f"[{lo}, {hi}] = counts just inside/outside; radial distances {rd}", f"sholl:tie-range:{nm}")
            rmax = max(rd)
            for k in STEP_COUNTS + (None,):
                kk = 20 if k is None else k
                if rmax == 0.0:
                    R.skip("sholl-steps-on-zero-extent")
                    continue
                ok2, v = R.impl("Sholl.get(steps)", (lambda: sh.get()) if k is None else (lambda: sh.get(k)))
                if ok2:
                    judge_steps(R, ctx, p, xyz, kk, flt(v), "Sholl.get" + ("()" if k is None else "(int)"))
    else:
        okk, _ = R.attempt(Sholl, t)
        R.note("sholl-one-node-" + ("ok" if okk else "raises"))

    # ---- E. L-Measure
    for nm, fn, want in (("n_stems", lm.n_stems, len(ch[0])), ("n_tips", lm.n_tips, len(ref.tips(p))), ("n_branch", lm.n_branch, len(ref_br))) + (
            (("n_bifs", lm.n_bifs, len(ref.furcations(p))),) if RF.is_binary(p) else ()):
        ok, v = R.impl("LMeasure." + nm, fn, t)
        if ok:
            R.check(int(v) == want and float(v) == int(v), "lmeasure:" + nm, lambda: f"{ctx}: {nm} = {v} want {want}")
    for i in range(n):
        nd = t.node(i)
        for nm, fn, want, exact in (("euc_distance", lm.euc_distance, rd[i], False), ("path_distance", lm.path_distance, RF.path_distance(p, xyz, i), False),
                                    ("branch_order", lm.branch_order, RF.branch_order_lmeasure(p, i), True), ("terminal_degree", lm.terminal_degree, RF.terminal_degree(p, i), True)):
            ok, v = R.impl("LMeasure." + nm, fn, nd)
            if ok:
                good = (float(v) == want) if exact else close(v, want)
                R.check(good, "lmeasure:" + nm, lambda: f"{ctx} node {i}: {nm} = {v} want {want}")
        if len(ch[i]) == 2:
            check_bifurcation(R, lm, t, ctx, p, xyz, i)

    # ---- F. front end: same numbers under every spelling of the request
    ok, fe = R.impl("extract_feature", extract_feature, t)
    if ok:
        singles = {}
        for name in FEATURES:
            if name == "sholl":
                if n < 2:
                    continue
                ok2, v = R.impl("front.get(sholl,steps=radii)", fe.get, "sholl", steps=list(radii))
                if ok2:
                    g = flt(v)
                    R.check(g == [float(c) for c in want_counts], "front:sholl", lambda: f"{ctx}: get('sholl', steps={radii}) = {g} want {want_counts}")
                rev = list(reversed(radii))
                ok2, v = R.impl("front.get(sholl,steps=radii reversed)", fe.get, "sholl", steps=rev)
                if ok2:
                    R.check(flt(v) == [float(c) for c in reversed(want_counts)], "front:sholl",
                            lambda: f"{ctx}: get('sholl', steps={rev}) = {flt(v)} want {list(reversed(want_counts))}", "front:sholl:descending")
                ok2, v = R.impl("front.get((sholl,{steps}))", fe.get, ("sholl", {"steps": list(radii)}))
                if ok2:
                    R.check(flt(v) == [float(c) for c in want_counts], "front:sholl", lambda: f"{ctx}: get(('sholl', {{steps}})) = {flt(v)} want {want_counts}", "front:sholl:tuple")
                if long_radii and radii:
                    # the same extractor asked for two LONG profiles (thousands of radii, as for a fine Sholl curve) that agree at both
                    # ends and differ only in the middle, as arrays and as lists: one count per requested radius, each time
                    m_ = len(radii)
                    for size in (1001, 1500):
                        idx_a = [j % m_ for j in range(size)]
                        idx_b = idx_a[:5] + [(j * 7 + 3) % m_ for j in range(size - 10)] + idx_a[-5:]
                        for tag, idx_ in (("first", idx_a), ("second", idx_b)):
                            req = np.array([radii[j] for j in idx_])
                            wantv = [float(want_counts[j]) for j in idx_]
                            for what_, fn_ in (("front.get(sholl, long array)", lambda: fe.get("sholl", steps=req)),
                                               ("Sholl.get(long array)", lambda: Sholl(t).get(req))):
                                ok2, v = R.impl(what_, fn_)
                                if ok2:
                                    R.check(flt(v) == wantv, "sholl:long-profile", lambda: f"{ctx}: {what_}, {size} radii, {tag} request: "
                                            f"{sum(1 for a_, b_ in zip(flt(v), wantv) if a_ != b_)} of {size} counts wrong (lengths {len(flt(v))}/{size})",
                                            f"sholl:long-profile:{what_.split('(')[0]}:{tag}")
                if max(rd) > 0.0:
                    for k in (None, 2, 5):
                        ok2, v = R.impl("front.get(sholl)", (lambda: fe.get("sholl")) if k is None else (lambda: fe.get("sholl", steps=k)))
                        if ok2:
                            judge_steps(R, ctx, p, xyz, 20 if k is None else k, flt(v), "front.get(sholl" + (")" if k is None else ",int)"))
                continue
            ok2, v = R.impl(f"front.get({name})", fe.get, name)
            if not ok2:
                continue
            singles[name] = flt(v)
            if name == "node_branch_order":
                R.check(sorted(singles[name]) == sorted(float(x) for x in depth.values()), "feature:node_branch_order",
                        lambda: f"{ctx}: front end {singles[name]} want (multiset) {sorted(depth.values())}", "feature:node_branch_order@front")
                if bo_keyed is not None:
                    R.check(singles[name] == [float(x) for x in bo_keyed], "feature:node_branch_order", lambda: f"{ctx}: front end {singles[name]} want {bo_keyed}",
                            "feature:node_branch_order@front:keyed")
            else:
                judge_feature(R, "front", name, v, table, p, f" xyz={xyz}" if kind == "lat" else "")
        names = [f for f in FEATURES if f in singles]
        ok2, lst = R.impl("front.get(list)", fe.get, list(names))
        if ok2:
            R.check(len(lst) == len(names) and all(flt(a) == singles[f] for a, f in zip(lst, names)), "front:list-form",
                    lambda: f"{ctx}: get(list) differs from the single requests: {[flt(a) for a in lst]} vs {[singles[f] for f in names]}")
        ok2, dct = R.impl("front.get(dict)", fe.get, {f: {} for f in names})
        if ok2:
            R.check(sorted(dct) == sorted(names) and all(flt(dct[f]) == singles[f] for f in names), "front:dict-form",
                    lambda: f"{ctx}: get(dict) differs from the single requests")
        ok2, v = R.impl("front.get(tuple)", fe.get, ("length", {}))
        if ok2 and "length" in singles:
            R.check(flt(v) == singles["length"], "front:tuple-form", lambda: f"{ctx}: get(('length', {{}})) = {flt(v)}")
        # the caller owns what it was given: scribbling over a returned array must not change the next answer
        for name in names:
            ok2, a = R.impl(f"front.get({name})", fe.get, name)
            if ok2 and isinstance(a, np.ndarray) and a.flags.writeable and a.size:
                a += 7
                ok3, b = R.impl(f"front.get({name}) again", fe.get, name)
                if ok3:
                    R.check(flt(b) == singles[name], "front:result-aliases-state", lambda: f"{ctx}: after the caller edited the array returned for {name}, "
                            f"the next get gives {flt(b)} instead of {singles[name]}", f"front:result-aliases-state:{name}")
        if hasattr(R, "retain"):  # answers already handed out must not change because of later library calls
            for name in ("node_radial_distance", "branch_length", "path_tortuosity"):
                if name in singles:
                    ok2, a = R.impl(f"front.get({name})", fe.get, name)
                    if ok2:
                        R.retain(f"front.get({name})", lambda a=a: a)

    R.check(build.snapshot(t) == snap, "input-modified", lambda: f"{ctx}: the tree was modified by feature evaluation")
    return len(ref.tips(p)), len(ref.furcations(p)), len(ref_br), sholl_obs, round(L, 3)


def tie_margin(xyz):
    """Bound on the float32 error of a radial distance about the root (translate + norm: a few ulp of the largest
    coordinate difference) with a 10x margin; radii closer than this to a node are specification ties."""
    ext = max(abs(c) for q in xyz for c in q)
    return 1e-5 * (1 + 2 * ext)


def judge_steps(R, ctx, p, xyz, k, got, what):
    """Integer step count k: exactly k counts, at the radii j*rmax/(k+1)."""
    margin = tie_margin(xyz)
    want_r = RF.sholl_step_radii(p, xyz, k)
    if not R.check(len(got) == k, "sholl:steps-length", lambda: f"{ctx}: {what} with {k} steps returned {len(got)} counts {got}; want one per radius {want_r}",
                   f"sholl:steps-length:{what}"):
        return
    for j, r in enumerate(want_r):
        if RF.sholl_tie(p, xyz, r, margin):
            R.skip("sholl-node-on-sphere")
            continue
        w = RF.sholl_count(p, xyz, r)
        R.check(got[j] == float(w), "sholl:steps-count", lambda: f"{ctx}: {what} with {k} steps: count #{j} (radius {r}) = {got[j]} want {w}; all {got}",
                f"sholl:steps-count:{what}")


def check_bifurcation(R, lm, t, ctx, p, xyz, b):
    nd = t.node(b)
    ok, v = R.impl("LMeasure.partition_asymmetry", lm.partition_asymmetry, nd)
    if ok:
        want = RF.partition_asymmetry(p, b)
        R.check(close(v, want, 1e-9), "lmeasure:partition_asymmetry", lambda: f"{ctx} bifurcation {b}: {v} want {want}")
    items = [("bif_ampl_local", RF.bif_ampl(p, xyz, b, False), True), ("bif_ampl_remote", RF.bif_ampl(p, xyz, b, True), True)]
    if p[b] != -1:
        items += [("bif_tilt_local", RF.bif_tilt(p, xyz, b, False), True), ("bif_tilt_remote", RF.bif_tilt(p, xyz, b, True), True),
                  ("bif_torque_local", RF.bif_torque(p, xyz, b, False), False), ("bif_torque_remote", RF.bif_torque(p, xyz, b, True), False)]
    for nm, want, single in items:
        fn = getattr(lm, nm)
        if want is None:
            ok, v = R.attempt(fn, nd)
            R.note("undefined:" + nm)
            fin = False
            if ok:
                try:
                    fin = math.isfinite(float(v))
                except (TypeError, ValueError):
                    fin = False
            R.check(not fin, f"lmeasure:{nm}-undefined", lambda: f"{ctx} bifurcation {b}: {nm} is undefined here (zero vector / no previous bifurcation) but {v} was returned")
            continue
        R.note("defined:" + nm)
        ok, v = R.impl("LMeasure." + nm, fn, nd)
        if not ok:
            continue
        if single:
            R.check(angle_close(v, want), "lmeasure:" + nm, lambda: f"{ctx} bifurcation {b}: {nm} = {float(v)} want {want} (+-{angle_tol(want):.2g})")
        else:
            R.check(angle_close(v, want[0]) or angle_close(v, want[1]), "lmeasure:" + nm,
                    lambda: f"{ctx} bifurcation {b}: {nm} = {float(v)} want {want[0]} or {want[1]}")


# ------------------------------------------------------------------ histories: query, edit in place, query again


def check_edit(case, R):
    """Every query API is warmed on the tree as built (and judged); then one node is re-parented or moved IN PLACE
    (through a node handle, through the column array, or on a copy) and the complete oracle must hold for the
    CURRENT content of every object involved: caches keyed by object identity / never invalidated show up here."""
    p, bank_k, edit = [int(v) for v in case[1]], int(case[2]), list(case[3])
    n = len(p)
    t = build.make_tree(p, bank_k=bank_k)
    R.state(p, bank_k, edit)
    ctx = f"edit {edit} of p={p} bank={bank_k}"
    oracle(R, t, p, "gen", ctx + " [as built]")
    if edit[0] == "rp":
        obj, q, other, op = build.apply_reparent(t, p, (int(edit[1]), int(edit[2]), edit[3]))
        moved = None
    else:
        i, how = int(edit[1]), edit[2]
        moved = (i, build.bank(bank_k, 12)[n][0])  # an unused point of the same tie-free bank
        obj, q, other, op = t, list(p), None, None
        if how == "copy-then-handle":
            obj, other, op = t.copy(), t, list(p)
        for k, col in enumerate("xyz"):
            if how == "column":
                obj.get_ndata(col)[i] = moved[1][k]
            else:
                setattr(obj.node(i), col, moved[1][k])
    want_xyz = build.generic_geometry(n, bank_k)[0]
    new_xyz = [moved[1] if moved and i == moved[0] else want_xyz[i] for i in range(n)]
    visible = [int(v) for v in obj.pid().tolist()] == q and build.tags_xyz(obj) == new_xyz
    if not R.check(visible, "edit-not-visible", lambda: f"{ctx}: the edit is not visible in the object's own columns (C09's subject)"):
        return
    out = oracle(R, obj, q, "gen", ctx + " [after the edit]")
    if other is not None:
        oracle(R, other, op, "gen", ctx + " [the original, after its copy was edited]")
    R.outcome(q, out)


HIST_TREES = [
    ((-1, 0, 0, 1, 1), 0),
    ((-1, 0, 0, 1, 1), 1),       # same numbering and shape, other coordinates
    ((-1, 0, 1, 1, 2), 0),       # same size and coordinates, other shape
    ((-1, 2, 0), 0),             # smaller, unsorted numbering
    ((-1, 0, 0, 1, 1, 2, 2), 2),
    ((-1,), 3),
]


def check_history(case, R):
    """The analysis entry points used on tree A, then B, (then A again - the same object): every answer is judged
    when returned, some are retained and re-inspected after the later calls."""
    sel = [int(v) for v in case[1]]
    R.state(sel)
    from swcgeom.analysis.lmeasure import LMeasure

    objs, outs = {}, []
    shared_lm = LMeasure()  # one measuring object for the whole sequence (how LMeasure is used over a data set)
    for pos, k in enumerate(sel):
        p, bank_k = HIST_TREES[k]
        if k not in objs:
            objs[k] = build.make_tree(list(p), bank_k=bank_k)
        outs.append(oracle(R, objs[k], list(p), "gen", f"history {sel} step {pos} (tree {k}: p={list(p)} bank={bank_k}), one LMeasure object for all steps",
                           lm=shared_lm, long_radii=(pos == len(sel) - 1)))
    R.outcome(sel, outs)


# ------------------------------------------------------------------ every size (thresholds / fast paths)

SHAPES = ("chain", "star", "heap", "caterpillar")


def shape(name, n):
    if name == "chain":
        return [-1] + list(range(n - 1))
    if name == "star":
        return [-1] + [0] * (n - 1)
    if name == "heap":
        return [-1] + [(i - 1) // 2 for i in range(1, n)]
    return [-1] + [i - 1 if i % 2 else i - 2 for i in range(1, n)]


def lcg_points(n, seed):
    g = build._lcg(seed)
    return [tuple(build.f32(round((next(g) - 0.5) * 20, 2)) for _ in range(3)) for _ in range(n)]


def check_size(case, R):
    name, n, bank_k = case[1], int(case[2]), int(case[3])
    p = shape(name, n)
    xyz = lcg_points(n, 77 + bank_k)
    t = build.make_tree(p, xyz=xyz, r=[0.5] * n)
    R.state(name, n, bank_k)
    if n < 2:
        R.trivial()
    R.outcome(name, n, oracle(R, t, p, "lcg", f"{name} tree with {n} nodes (points lcg({77 + bank_k}))"))


# ------------------------------------------------------------------ populations

POP_TREES = [
    ((-1,), 2),
    ((-1, 0), 0),
    ((-1, 0, 0), 1),
    ((-1, 2, 0, 2), 2),  # unsorted numbering of (-1, 0, 1, 1)
    ((-1, 0, 0, 1, 1), 3),
    ((-1, 0, 1, 1, 2, 2), 0),
    ((-1, 0, 0, 1, 1, 2, 2), 1),
]
POP_RADII = [0.75, 2.25, 4.5, 6.25, 8.5, 11.0, 14.5, 19.0, 40.0]


def check_population(case, R):
    from swcgeom.analysis import Sholl, extract_feature
    from swcgeom.core import Population

    sel = [int(v) for v in case[1]]
    specs = [POP_TREES[i] for i in sel]
    trees = [build.make_tree(list(p), bank_k=k) for p, k in specs]
    ps = [list(p) for p, _ in specs]
    xyzs = [build.tags_xyz(t) for t in trees]
    tables = [ref_features(p, x) for p, x in zip(ps, xyzs)]
    R.state(sel)
    ctx = f"population of trees {sel} (sizes {[len(p) for p in ps]})"
    ok, fe = R.impl("extract_feature(Population)", lambda: extract_feature(Population(trees)))
    if not ok:
        return
    widths = []
    for name in FEATURES:
        if name == "sholl":
            continue
        ok, v = R.impl(f"population.get({name})", fe.get, name)
        if not ok:
            continue
        v = np.asarray(v)
        want_w = max(len(tb[name][1]) for tb in tables)
        widths.append(want_w)
        if not R.check(v.ndim == 2 and v.shape == (len(trees), want_w), "population:shape",
                       lambda: f"{ctx}: {name} has shape {v.shape}, want ({len(trees)}, {want_w})", f"population:shape:{name}"):
            continue
        for i, tb in enumerate(tables):
            mode, want = tb[name]
            row = flt(v[i])
            head, tail = row[: len(want)], row[len(want):]
            good = close_list(head, want) if mode == "ordered" else close_multiset(head, want)
            R.check(good, "population:row", lambda: f"{ctx}: {name} row {i} = {row}; its first {len(want)} entries should be tree {sel[i]}'s ({mode}) {want}",
                    f"population:row:{name}")
            R.check(all(x == 0.0 for x in tail), "population:padding", lambda: f"{ctx}: {name} row {i} = {row}; entries after {len(want)} must be zero padding",
                    f"population:padding:{name}")
            ok2, single = R.impl("extract_feature(tree)", lambda i=i: extract_feature(trees[i]).get(name))
            if ok2:
                R.check(head == flt(single), "population:row-vs-single", lambda: f"{ctx}: {name} row {i} = {row} but the single-tree front end gives {flt(single)}",
                        f"population:row-vs-single:{name}")
    # Sholl: one shared radius grid for every tree of the population
    for what, kw, radii in (("list", {"steps": list(POP_RADII)}, POP_RADII), ("default", {}, None), ("int", {"steps": 5}, None)):
        if any(len(p) < 2 for p in ps):
            # Sholl of a one-node tree is not asserted (see ASSUMPTIONS); the population request then raises as well
            R.attempt(lambda: fe.get("sholl", **kw))
            R.note("population-sholl-with-one-node-tree")
            continue
        if radii is None:
            k = kw.get("steps", 20)
            rmax = max(max(tb["node_radial_distance"][1]) for tb in tables)
            radii = [j * rmax / (k + 1) for j in range(1, k + 1)]
        ok, v = R.impl(f"population.get(sholl,{what})", lambda: fe.get("sholl", **kw))
        if not ok:
            continue
        v = np.asarray(v)
        if not R.check(v.shape == (len(trees), len(radii)), "population:sholl-shape", lambda: f"{ctx}: sholl({what}) has shape {v.shape}, want ({len(trees)}, {len(radii)})",
                       f"population:sholl-shape:{what}"):
            continue
        for i, (p, x) in enumerate(zip(ps, xyzs)):
            row = flt(v[i])
            for j, r in enumerate(radii):
                if RF.sholl_tie(p, x, r, tie_margin(x)):
                    R.skip("sholl-node-on-sphere")
                    continue
                w = RF.sholl_count(p, x, r)
                R.check(row[j] == float(w), "population:sholl", lambda: f"{ctx}: sholl({what}) row {i} radius {r}: {row[j]} want {w}; row {row}", f"population:sholl:{what}")
    R.outcome(sel, tuple(widths))
    _ = Sholl


# ------------------------------------------------------------------ spaces


def spaces(tier, seed):
    bank_k = seed % 4
    st_hi, lt_hi, bt_hi = (7, 5, 8) if tier == "quick" else (8, 7, 9)
    lat_full, lat_small = (4, 5) if tier == "quick" else (5, 6)
    small_hi = 6 if tier == "quick" else 7

    def gen_generic():
        for n in range(1, st_hi + 1):
            for p in S.sorted_trees(n):
                yield ("gen", p, bank_k)
                if n <= small_hi:
                    yield ("gens", p, bank_k)
                    yield ("genu", p, bank_k)
                    yield ("genU", p, bank_k)
        for n in range(3, lt_hi + 1):
            for p in S.labelled_trees(n):
                if not ref.is_sorted(p):
                    yield ("gen", p, bank_k)

    def gen_binary():
        for n in range(st_hi + 1, bt_hi + 1):
            for p in S.binary_sorted_trees(n):
                yield ("gen", p, bank_k)
                if n == st_hi + 1:
                    yield ("genu", p, bank_k)

    def gen_lattice():
        for n in range(1, lat_small + 1):
            menu = range(len(LAT_DISP)) if n <= lat_full else range(3)
            for p in S.sorted_trees(n):
                for disp in itertools.product(menu, repeat=n - 1):
                    yield ("lat", p, disp)

    def gen_pop():
        idx = range(len(POP_TREES))
        for k in (2, 3):
            for sel in itertools.permutations(idx, k):
                yield ("pop", sel)
        if tier == "thorough":
            for sel in itertools.permutations(idx, 4):
                yield ("pop", sel)
        yield ("pop", (1,))
        yield ("pop", (4, 4))

    ed_hi = 5 if tier == "quick" else 6
    size_hi = 48 if tier == "quick" else 160

    def gen_edit():
        for n in range(2, ed_hi + 1):
            for p in S.sorted_trees(n):
                for (i, j) in build.reparent_edits(p):
                    for how in build.EDIT_HOWS:
                        yield ("edit", p, bank_k, ("rp", i, j, how))
                for i in range(n):
                    for how in build.EDIT_HOWS:
                        yield ("edit", p, bank_k, ("mv", i, how))

    def gen_hist():
        idx = range(len(HIST_TREES))
        for a, b in itertools.permutations(idx, 2):
            yield ("hist", (a, b))
            yield ("hist", (a, b, a))
        if tier == "thorough":
            for a, b, c in itertools.permutations(idx, 3):
                yield ("hist", (a, b, c))

    def gen_size():
        for n in range(1, size_hi + 1):
            for name in SHAPES:
                if n < 3 and name != "chain":
                    continue
                yield ("size", name, n, bank_k)

    return [
        Space.of("query-edit-query", gen_edit, check_edit,
                 bounds={"ST_max_nodes": ed_hi, "edits": "every single re-parenting that keeps the tree well-formed; every node moved to an unused bank point",
                         "how": list(build.EDIT_HOWS), "bank": bank_k}),
        Space.of("call-histories", gen_hist, check_history,
                 bounds={"trees": [list(p) for p, _ in HIST_TREES], "sequences": "all ordered pairs A,B and A,B,A (thorough: all ordered triples)"}),
        Space.of("every-size", gen_size, check_size, bounds={"shapes": list(SHAPES), "nodes": [1, size_hi], "every_n": True, "points": "lcg, not tie-free: ties skipped"}),
        Space.of("trees-generic", gen_generic, check_tree,
                 bounds={"ST_max_nodes": st_hi, "ST_max_nodes_shrunk_bank(x1/32)": small_hi, "LT_unsorted_max_nodes": lt_hi, "bank": bank_k, "sholl_radii": "all mid-gaps, one below, one above", "steps": list(STEP_COUNTS) + ["default"]}),
        Space.of("binary-trees", gen_binary, check_tree, bounds={"BT_nodes": [st_hi + 1, bt_hi], "bank": bank_k}),
        Space.of("trees-lattice", gen_lattice, check_tree,
                 bounds={"ST_max_nodes_full_menu": lat_full, "ST_max_nodes_menu_0..2": lat_small, "displacement_menu": LAT_DISP, "root": LAT_ROOT}),
        Space.of("populations", gen_pop, check_population,
                 bounds={"trees": [list(p) for p, _ in POP_TREES], "ordered_selections": "all pairs and triples (thorough: quadruples) of distinct trees, one singleton, one repeated pair", "radii": POP_RADII}),
    ]
