"""C06 — subtree extraction and pruning keep exactly the specified nodes."""

from __future__ import annotations

import itertools

import numpy as np

from mc import build, ref, spaces as S
from mc.kernel import Space

PROPERTY = "C06"
RULE = (
    "sorted trees ST(n) and labelled trees LT(n) up to the tier bound; per tree: every start node (get_subtree with list/dict/no "
    "mapping, Node.subtree), every removal subset of non-root nodes (to_subtree), cut_tree with the complete family of "
    "'remove iff id in S' callbacks in enter and leave mode plus depth/height threshold callbacks that use the propagated values, "
    "CutByType for every type assignment in {1,2,3}^n x 3 types, CutByFurcationOrder(1..3), CutShortTipBranch over all edge-length "
    "vectors in {1,2}^(n-1) x 5 thresholds, get_neurites/get_dendrites over all type assignments of the root's children. "
    "Oracle: survivor set, columns (incl. an extra one), parent relation, root, ids, new-to-old mapping. Non-trivial = >= 2 nodes."
)
ASSUMPTIONS = [
    "nodes are identified by a unique extra column 'tag' and, independently, by unique coordinates",
    "results where the rule keeps no node (root removed / no node of the type) are outside the statement: counted as skipped",
    "thresholds never equal a sum of edge lengths (lengths in {1,2}, thresholds in {0.5,...,4.5})",
]

AXES = [(1, 0, 0), (0, 1, 0), (0, 0, 1), (-1, 0, 0), (0, -1, 0), (0, 0, -1)]


def mk(p, types=None, lengths=None):
    n = len(p)
    if lengths is None:
        t = build.make_tree(p, types=types, extra={"tag": np.arange(n, dtype=np.float64) + 500})
    else:
        xyz = [(0.0, 0.0, 0.0)] * n
        order = sorted(range(n), key=lambda i: ref.depth(p, i))
        for i in order:
            if p[i] == -1:
                continue
            a = AXES[i % 6]
            q = xyz[p[i]]
            L = lengths[i - 1]
            xyz[i] = (q[0] + a[0] * L, q[1] + a[1] * L, q[2] + a[2] * L)
        t = build.make_tree(p, xyz=xyz, r=[0.5 + 0.25 * i for i in range(n)], types=types, extra={"tag": np.arange(n, dtype=np.float64) + 500})
    return t


def judge(R, what, p, t, out, survivors, top, mapping=None, klass=None):
    """out: result tree; survivors: set of original positions; top: original position of the new root."""
    klass = klass or what
    n = len(p)
    ctx = lambda: f"{what} p={p}: result ids={out.id().tolist()} pids={out.pid().tolist()} tags={out.get_ndata('tag').tolist() if 'tag' in out.keys() else None} want survivors={sorted(survivors)}"  # noqa: E731
    if not R.check("tag" in out.keys(), "columns-lost", ctx, f"{klass}:columns"):
        return False
    tag = [float(v) for v in out.get_ndata("tag").tolist()]
    orig = [int(v - 500) if v - 500 == int(v - 500) and 0 <= v - 500 < n else -1 for v in tag]
    if not R.check(sorted(orig) == sorted(survivors), "wrong-survivors", ctx, f"{klass}:survivors"):
        return False
    m = len(orig)
    ids = [int(i) for i in out.id().tolist()]
    pids = [int(i) for i in out.pid().tolist()]
    if not R.check(ids == list(range(m)), "ids-not-0..m-1", ctx, f"{klass}:ids"):
        return False
    for k in t.keys():
        if k in ("id", "pid"):
            continue
        if not R.check(k in out.keys(), "columns-lost", lambda: ctx() + f" column {k}", f"{klass}:columns"):
            return False
        src, dst = t.get_ndata(k).tolist(), out.get_ndata(k).tolist()
        for j, o in enumerate(orig):
            if dst[j] != src[o]:
                R.fail("attribute-changed", ctx() + f" column {k} of node {o}: {dst[j]} != {src[o]}", f"{klass}:attrs")
                return False
    for j, o in enumerate(orig):
        if o == top:
            if not R.check(pids[j] == -1, "root-has-parent", ctx, f"{klass}:root"):
                return False
        else:
            got = orig[pids[j]] if 0 <= pids[j] < m else None
            if not R.check(got == p[o], "parent-relation-changed", lambda: ctx() + f" node {o}: parent {got} != {p[o]}", f"{klass}:parents"):
                return False
    if mapping is not None:
        if isinstance(mapping, dict):
            mp = [mapping.get(j) for j in range(m)]
            extra_keys = len(mapping) != m
        else:
            mp = list(mapping)
            extra_keys = len(mapping) != m
        mp = [int(v) if v is not None else None for v in mp]
        R.check(not extra_keys and mp == orig, "mapping-wrong", lambda: ctx() + f" mapping={mapping} want {orig}", f"{klass}:mapping")
    return True


def check_subtree(case, R):
    from swcgeom.core import get_subtree

    p = list(case[0])
    n = len(p)
    if n < 2:
        R.trivial()
    R.state(p)
    t = mk(p)
    snap = build.snapshot(t)
    for k in range(n):
        want = set(ref.descendants_or_self(p, k))
        R.outcome(len(want))
        for kind in ("none", "list", "dict", "node", "npint"):
            mapping = None
            if kind == "none":
                ok, out = R.impl("get_subtree", get_subtree, t, k)
            elif kind == "npint":
                ok, out = R.impl("get_subtree", get_subtree, t, np.int32(k))
            elif kind == "list":
                mapping = [99, 98]
                ok, out = R.impl("get_subtree", lambda: get_subtree(t, k, out_mapping=mapping))
            elif kind == "dict":
                mapping = {77: 1}
                ok, out = R.impl("get_subtree", lambda: get_subtree(t, k, out_mapping=mapping))
            else:
                mapping = []
                ok, out = R.impl("Node.subtree", lambda: t.node(k).subtree(out_mapping=mapping))
            if ok:
                judge(R, f"get_subtree({k},{kind})", p, t, out, want, k, mapping, klass=f"get_subtree:{kind}")
    R.check(build.snapshot(t) == snap, "input-modified", f"get_subtree p={p}", "get_subtree:input-modified")


class _Abort(Exception):
    """Raised by a user callback to abort a cut."""


def check_removal(case, R):
    from swcgeom.core import cut_tree, to_subtree

    p = list(case[0])
    n = len(p)
    if n < 2:
        R.trivial()
    R.state(p)
    t = mk(p)
    snap = build.snapshot(t)
    ch = ref.children(p)
    for rem in S.subsets(range(1, n)):
        removed = ref.closure_removed(p, rem)
        want = set(range(n)) - removed
        R.outcome(len(want))
        for form in ("list", "tuple-rev", "np", "gen"):
            arg = {"list": list(rem), "tuple-rev": tuple(reversed(rem)), "np": np.array(rem, dtype=np.int64), "gen": (i for i in rem)}[form]
            mapping = []
            ok, out = R.impl("to_subtree", lambda: to_subtree(t, arg, out_mapping=mapping))
            if ok:
                judge(R, f"to_subtree({list(rem)},{form})", p, t, out, want, 0, mapping, klass="to_subtree")
        # a cut aborted by an exception from the user's callback (at every possible call) is an event like any other: the
        # judged calls below follow it and must not be affected by whatever the aborted run left behind
        if len(rem) <= 1:
            for k in range(n):
                for mode in ("enter", "leave"):
                    cnt = [0]

                    def cb(nd, v, k=k, cnt=cnt):
                        cnt[0] += 1
                        if cnt[0] > k:
                            raise _Abort()
                        return None, int(nd.id) in rem

                    R.attempt(lambda: cut_tree(t, **{mode: cb}))
            R.check(build.snapshot(t) == snap, "input-modified", f"aborted cut_tree p={p}", "cut_tree:aborted:input-modified")
        # cut_tree, enter mode: remove iff id in S; value = term embedding the parent's value
        log = []

        def enter(nd, pv):
            term = ("E", int(nd.id), pv)
            log.append((int(nd.id), pv, term))
            return term, int(nd.id) in rem

        ok, out = R.impl("cut_tree(enter)", lambda: cut_tree(t, enter=enter))
        if ok:
            judge(R, f"cut_tree(enter in {list(rem)})", p, t, out, want, 0, klass="cut_tree:enter")
            terms = {i: term for i, _, term in log}
            for i, pv, term in log:
                good = (pv is None) if p[i] == -1 else (pv is terms.get(p[i]))
                R.check(good, "callback-value", f"cut_tree enter p={p} S={list(rem)} node {i} received {pv!r}", "cut_tree:enter:value")
            called = sorted(i for i, _, _ in log)
            must = sorted(i for i in range(n) if not any(a in removed for a in ref.ancestors(p, i)))
            R.check(len(called) == len(set(called)) and set(must) <= set(called), "callback-not-called",
                    f"cut_tree enter p={p} S={list(rem)} called for {called}, needed {must}", "cut_tree:enter:calls")
        # callbacks that KEEP the node handles they are given (hand the node down / up as the propagated value and look at it later):
        # remove a node iff its PARENT's id is in S (enter), iff one of its CHILDREN's ids is in S (leave)
        if len(rem) <= 2:
            def enter_keep(nd, parent_nd):
                return nd, (parent_nd is not None and int(parent_nd.id) in rem)

            want_k = set(range(n)) - ref.closure_removed(p, [i for i in range(n) if p[i] != -1 and p[i] in rem])
            ok, out = R.impl("cut_tree(enter, node handles kept)", lambda: cut_tree(t, enter=enter_keep))
            if ok:
                judge(R, f"cut_tree(enter: remove iff the parent handle's id in {list(rem)})", p, t, out, want_k, 0, klass="cut_tree:enter:kept-handles")

            def leave_keep(nd, child_nds):
                return nd, any(int(c.id) in rem for c in child_nds)

            want_k2 = set(range(n)) - ref.closure_removed(p, [i for i in range(1, n) if any(c in rem for c in ch[i])])
            if not any(c in rem for c in ch[0]):
                ok, out = R.impl("cut_tree(leave, node handles kept)", lambda: cut_tree(t, leave=leave_keep))
                if ok:
                    judge(R, f"cut_tree(leave: remove iff a child handle's id in {list(rem)})", p, t, out, want_k2, 0, klass="cut_tree:leave:kept-handles")
        # leave mode
        log2 = []

        def leave(nd, cv):
            term = ("L", int(nd.id), tuple(cv))
            log2.append((int(nd.id), list(cv), term))
            return term, int(nd.id) in rem

        ok, out = R.impl("cut_tree(leave)", lambda: cut_tree(t, leave=leave))
        if ok:
            judge(R, f"cut_tree(leave in {list(rem)})", p, t, out, want, 0, klass="cut_tree:leave")
            terms = {i: term for i, _, term in log2}
            R.check(sorted(terms) == list(range(n)) and len(log2) == n, "callback-not-called", f"cut_tree leave p={p}: called for {sorted(i for i, _, _ in log2)}", "cut_tree:leave:calls")
            for i, cv, term in log2:
                R.check(sorted(map(id, cv)) == sorted(id(terms[c]) for c in ch[i] if c in terms), "callback-value",
                        f"cut_tree leave p={p} node {i} received values of {[v[1] if isinstance(v, tuple) else v for v in cv]}, children {ch[i]}", "cut_tree:leave:value")
    # threshold callbacks using the propagated values
    height = [0] * n
    for i in sorted(range(n), key=lambda i: -ref.depth(p, i)):
        height[i] = 1 + max((height[c] for c in ch[i]), default=-1)
    for D in range(1, max(ref.depth(p, i) for i in range(n)) + 2):
        ok, out = R.impl("cut_tree(depth)", lambda: cut_tree(t, enter=lambda nd, pd: ((0 if pd is None else pd + 1), (0 if pd is None else pd + 1) >= D)))
        if ok:
            judge(R, f"cut_tree(depth>={D})", p, t, out, {i for i in range(n) if ref.depth(p, i) < D}, 0, klass="cut_tree:depth")
    for H in range(0, height[0]):
        def lv(nd, cv):
            h = 1 + max(cv, default=-1)
            return h, h <= H

        ok, out = R.impl("cut_tree(height)", lambda: cut_tree(t, leave=lv))
        if ok:
            judge(R, f"cut_tree(height<={H})", p, t, out, {i for i in range(n) if height[i] > H}, 0, klass="cut_tree:height")
    ok, out = R.impl("cut_tree()", cut_tree, t)
    if ok:
        judge(R, "cut_tree()", p, t, out, set(range(n)), 0, klass="cut_tree:none")
    R.check(build.snapshot(t) == snap, "input-modified", f"to_subtree/cut_tree p={p}", "cut:input-modified")


def check_types(case, R):
    from swcgeom.transforms import CutAxonTree, CutByType, CutDendriteTree

    p, types = list(case[0]), list(case[1])
    n = len(p)
    R.state(p, types)
    t = mk(p, types=types)
    snap = build.snapshot(t)
    for ty in (1, 2, 3):
        keep = set()
        for i in range(n):
            if types[i] == ty:
                keep.add(i)
                keep.update(ref.ancestors(p, i))
        R.outcome(len(keep))
        ops = [("CutByType", lambda: CutByType(ty)(t))]

        def reassigned(ty=ty):
            tr = CutByType(1 + ty % 3)  # built for another type, applied once, then its public parameter is re-assigned
            R.attempt(tr, t)
            tr.type = ty
            return tr(t)

        ops.append(("CutByType[type assigned after construction]", reassigned))
        if ty == 2:
            ops.append(("CutAxonTree", lambda: CutAxonTree()(t)))
        if ty == 3:
            ops.append(("CutDendriteTree", lambda: CutDendriteTree()(t)))
        for nm, fn in ops:
            if not keep:
                R.skip("nothing-kept")
                R.attempt(fn)
                continue
            ok, out = R.impl(nm, fn)
            if ok:
                judge(R, f"{nm}({ty}) types={types}", p, t, out, keep, 0, klass=nm)
    R.check(build.snapshot(t) == snap, "input-modified", f"CutByType p={p}", "CutByType:input-modified")


def check_order(case, R):
    from swcgeom.transforms import CutByFurcationOrder

    p = list(case[0])
    n = len(p)
    if n < 2:
        R.trivial()
    R.state(p)
    t = mk(p)
    snap = build.snapshot(t)
    for m in (1, 2, 3, 4):
        keep = {i for i in range(n) if ref.furcation_level(p, i) < m}
        R.outcome(len(keep), m)
        tr = CutByFurcationOrder(m + 1)
        R.attempt(tr, t)
        tr.max_furcation_order = m  # the public parameter re-assigned after construction (and after a first use)
        for rep in range(2):  # the same transform object applied twice must answer the same
            ok, out = R.impl("CutByFurcationOrder", tr, t)
            if ok:
                judge(R, f"CutByFurcationOrder({m})#{rep}", p, t, out, keep, 0, klass="CutByFurcationOrder")
    R.check(build.snapshot(t) == snap, "input-modified", f"CutByFurcationOrder p={p}", "CutByFurcationOrder:input-modified")


def short_tip_rule(p, lengths, thre):
    """Nodes removed: terminal branches hanging off a node with >= 2 children whose length <= thre (single pass)."""
    ch = ref.children(p)
    removed = set()
    for br in ref.branches(p):
        s, e = br[0], br[-1]
        if len(ch[s]) >= 2 and len(ch[e]) == 0:
            L = sum(lengths[i - 1] for i in br[1:])
            if L <= thre:
                removed.update(br[1:])
    return removed


def check_short(case, R):
    from swcgeom.transforms import CutShortTipBranch

    p, lengths = list(case[0]), list(case[1])
    n = len(p)
    R.state(p, lengths)
    t = mk(p, lengths=lengths)
    snap = build.snapshot(t)
    lengths2 = [3 - v for v in lengths]  # 1 <-> 2: a second tree with different short branches
    t2 = mk(p, lengths=lengths2)
    for thre in (0.5, 1.5, 2.5, 3.5, 4.5):
        seen = []
        tr = CutShortTipBranch(thre, callback=lambda br: seen.append(tuple(int(i) for i in br.origin_id().tolist())))
        # the same transform object is applied to t, to another tree, and to t again: no state may leak between calls
        for rep, (tt, ll) in enumerate(((t, lengths), (t2, lengths2), (t, lengths))):
            removed = short_tip_rule(p, ll, thre)
            keep = set(range(n)) - removed
            R.outcome(len(keep))
            seen.clear()
            ok, out = R.impl("CutShortTipBranch", tr, tt)
            if ok:
                judge(R, f"CutShortTipBranch({thre})#{rep} lengths={ll}", p, tt, out, keep, 0, klass="CutShortTipBranch")
                want_br = sorted(tuple(br) for br in ref.branches(p) if set(br[1:]) <= removed and br[1] in removed)
                R.check(sorted(seen) == want_br, "callback-branches", f"CutShortTipBranch({thre}) p={p} lengths={ll}: callback saw {sorted(seen)} want {want_br}",
                        "CutShortTipBranch:callback")
    # the user's callback aborts the run with an exception at its k-th call (every k); the same transform object is then applied
    # to another tree and to this one again, quietly, and judged in full: nothing of the aborted run may survive in the object
    for thre in (1.5, 2.5, 4.5):
        n_short = len([br for br in ref.branches(p) if set(br[1:]) <= short_tip_rule(p, lengths, thre) and br[1] in short_tip_rule(p, lengths, thre)])
        for k in range(n_short):
            state = {"left": k, "armed": True}
            seen = []

            def cb(br, state=state, seen=seen):
                if state["armed"]:
                    if state["left"] == 0:
                        raise _Abort()
                    state["left"] -= 1
                seen.append(tuple(int(i) for i in br.origin_id().tolist()))

            tr = CutShortTipBranch(thre, callback=cb)
            okk, res = R.attempt(tr, t)
            R.check(not okk and isinstance(res, _Abort), "aborted-run-did-not-propagate", f"CutShortTipBranch({thre}) p={p} lengths={lengths}: the callback raised at its "
                    f"call {k + 1} but the run {'returned' if okk else 'raised ' + type(res).__name__}", "CutShortTipBranch:aborted:exception-lost")
            state["armed"] = False
            for rep, (tt, ll) in enumerate(((t2, lengths2), (t, lengths))):
                removed = short_tip_rule(p, ll, thre)
                keep = set(range(n)) - removed
                del seen[:]
                ok, out = R.impl("CutShortTipBranch(after an aborted run)", tr, tt)
                if ok:
                    judge(R, f"CutShortTipBranch({thre}) reused after a run aborted at callback {k + 1}, #{rep} lengths={ll}", p, tt, out, keep, 0, klass="CutShortTipBranch:after-abort")
                    want_br = sorted(tuple(br) for br in ref.branches(p) if set(br[1:]) <= removed and br[1] in removed)
                    R.check(sorted(seen) == want_br, "callback-branches", f"CutShortTipBranch({thre}) after an aborted run p={p} lengths={ll}: callback saw {sorted(seen)} want {want_br}",
                            "CutShortTipBranch:after-abort:callback")
    R.check(build.snapshot(t) == snap, "input-modified", f"CutShortTipBranch p={p}", "CutShortTipBranch:input-modified")


def check_neurites(case, R):
    p, ctypes = list(case[0]), list(case[1])
    n = len(p)
    ch = ref.children(p)
    types = [1] + [3] * (n - 1)
    for c, ty in zip(ch[0], ctypes):
        types[c] = ty
    R.state(p, ctypes)
    t = mk(p, types=types)
    snap = build.snapshot(t)
    ok, outs = R.impl("get_neurites", lambda: list(t.get_neurites()))
    if ok:
        R.check(len(outs) == len(ch[0]), "neurite-count", f"p={p}: {len(outs)} neurites for {len(ch[0])} root children", "get_neurites:count")
        starts = sorted(ch[0])
        got = sorted(int(o.get_ndata("tag")[0] - 500) for o in outs if len(o) and "tag" in o.keys())
        if R.check(got == starts, "neurite-roots", f"p={p}: neurites rooted at {got} want {starts}", "get_neurites:roots"):
            for o in outs:
                k = int(o.get_ndata("tag")[0] - 500)
                judge(R, f"get_neurites[{k}]", p, t, o, set(ref.descendants_or_self(p, k)), k, klass="get_neurites")
    ok, outs = R.impl("get_dendrites", lambda: list(t.get_dendrites()))
    if ok:
        starts = sorted(c for c in ch[0] if types[c] in (3, 4))
        got = sorted(int(o.get_ndata("tag")[0] - 500) for o in outs if len(o) and "tag" in o.keys())
        R.outcome(len(starts))
        if R.check(got == starts, "dendrite-roots", f"p={p} child types={ctypes}: dendrites rooted at {got} want {starts}", "get_dendrites:roots"):
            for o in outs:
                k = int(o.get_ndata("tag")[0] - 500)
                judge(R, f"get_dendrites[{k}]", p, t, o, set(ref.descendants_or_self(p, k)), k, klass="get_dendrites")
    R.check(build.snapshot(t) == snap, "input-modified", f"get_neurites p={p}", "get_neurites:input-modified")


def check_removal_sizes(case, R):
    """Deep trees of EVERY size in a range (a propagation that reaches only so many levels, or a size-dependent strategy, fails in a
    band of sizes): remove one node near the base / in the middle / near the tip and judge the survivors; also get_subtree there."""
    from mc.props.c04 import big_tree
    from swcgeom.core import cut_tree, get_subtree, to_subtree

    kind, n = case[0], int(case[1])
    p = big_tree(kind, n) if n > 2 else ([-1] + [0] * (n - 1))
    R.state(kind, n)
    # plain tagged geometry (the tie-free bank is only built for a dozen points)
    t = build.make_tree(p, xyz=[(float(i), 0.5 * i, -0.25 * i) for i in range(n)], r=[0.5 + 0.25 * (i % 7) for i in range(n)],
                        extra={"tag": np.arange(n, dtype=np.float64) + 500})
    snap = build.snapshot(t)
    spots = sorted({1, max(1, n // 2), max(1, n - 2)} & set(range(1, n)))
    for k in spots:
        removed = ref.closure_removed(p, [k])
        want = set(range(n)) - removed
        mapping = []
        ok, out = R.impl("to_subtree", lambda: to_subtree(t, [k], out_mapping=mapping))
        if ok:
            judge(R, f"to_subtree([{k}]) on {kind} of {n}", p, t, out, want, 0, mapping, klass="to_subtree:size-sweep")
        ok, out = R.impl("cut_tree(leave)", lambda: cut_tree(t, leave=lambda nd, cv: (None, int(nd.id) == k)))
        if ok:
            judge(R, f"cut_tree(leave: id == {k}) on {kind} of {n}", p, t, out, want, 0, klass="cut_tree:leave:size-sweep")
        ok, out = R.impl("get_subtree", get_subtree, t, k)
        if ok:
            judge(R, f"get_subtree({k}) on {kind} of {n}", p, t, out, set(ref.descendants_or_self(p, k)), k, klass="get_subtree:size-sweep")
    R.check(build.snapshot(t) == snap, "input-modified", f"size sweep {kind} {n}", "cut:input-modified")
    R.outcome(kind, n // 16)


def spaces(tier, seed):
    q = tier == "quick"
    st_hi = 7 if q else 8
    lt_hi = 6 if q else 7
    ty_hi = 5 if q else 7
    sh_hi = 6 if q else 7

    def trees(st, lt):
        for n in range(1, st + 1):
            for p in S.sorted_trees(n):
                yield (p,)
        for n in range(3, lt + 1):
            for p in S.labelled_trees(n):
                if not ref.is_sorted(p):
                    yield (p,)

    def gen_types():
        for n in range(1, ty_hi + 1):
            for p in S.sorted_trees(n):
                for ty in itertools.product((1, 2, 3), repeat=n):
                    yield (p, ty)

    def gen_short():
        for n in range(2, sh_hi + 1):
            for p in S.sorted_trees(n):
                for ls in itertools.product((1, 2), repeat=n - 1):
                    yield (p, ls)
        for p in S.labelled_trees(4):
            if not ref.is_sorted(p):
                for ls in itertools.product((1, 2), repeat=3):
                    yield (p, ls)

    def gen_neur():
        for n in range(2, (6 if q else 7) + 1):
            for p in S.sorted_trees(n):
                k = len(ref.children(p)[0])
                for ct in itertools.product((1, 2, 3, 4), repeat=k):
                    yield (p, ct)

    size_hi = 150 if q else 400

    def gen_sizes():
        for n in range(2, size_hi + 1):
            for kind in ("chain", "revchain", "comb", "broom"):
                yield (kind, n)

    out = [
        Space.of("removal-size-sweep", gen_sizes, check_removal_sizes,
                 bounds={"sizes": f"every n in 2..{size_hi}", "shapes": ["chain", "chain numbered from the far end", "comb", "broom"],
                         "removed": "one node near the base, in the middle, near the tip"}),
        Space.of("get_subtree", lambda: trees(st_hi, lt_hi), check_subtree, bounds={"ST_max": st_hi, "LT_max": lt_hi, "starts": "all", "mapping_kinds": 5}),
        Space.of("removal-sets-and-callbacks", lambda: trees(st_hi, lt_hi - 1 if q else lt_hi), check_removal,
                 bounds={"ST_max": st_hi, "LT_max": lt_hi - 1 if q else lt_hi, "removal_sets": "all subsets of non-root nodes", "callback_family": "id in S (enter, leave), depth>=D, height<=H"}),
        Space.of("cut-by-type", gen_types, check_types, bounds={"ST_max": ty_hi, "types": "{1,2,3}^n x {1,2,3}"}),
        Space.of("cut-by-furcation-order", lambda: trees(st_hi + 1, lt_hi), check_order, bounds={"ST_max": st_hi + 1, "LT_max": lt_hi, "orders": [1, 2, 3, 4]}),
        Space.of("cut-short-tip-branch", gen_short, check_short, bounds={"ST_max": sh_hi, "edge_lengths": "{1,2}^(n-1)", "thresholds": [0.5, 1.5, 2.5, 3.5, 4.5]}),
        Space.of("neurites-dendrites", gen_neur, check_neurites, bounds={"ST_max": 6 if q else 7, "root_child_types": "{1,2,3,4}^k"}),
    ]
    for sp in out:  # every tree returned by an operation is re-inspected after the later operations of this and the next cases
        sp.auto_retain = True
    return out
