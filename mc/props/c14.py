"""C14 — tree volume = volume of the union of node spheres and connecting frusta.

Part A (collinear layouts, every accuracy level 1..9 and the names low/middle/high):
    chains and roots with two arms on opposite sides, radii and spacings from finite alphabets,
    kept iff the *reference* predicate of the statement's precondition holds
    (refvol.admissible), in several orientations.  Oracle for levels >= 3: the exact volume of
    the body of revolution whose profile is the maximum of the part profiles (refvol).
Part B (levels 1 and 2 on every tree): all sorted / labelled trees up to the tier bound with generic
    and with lattice geometry (zero-length edges included).  Oracle: plain sums.

Owned nondeterminism: `np.random.rand` (find_unit_vector_on_plane) answers from a fixed menu of
legal answers (the first one parallel to the axis where such an answer exists, which drives the
retry loop); `np.random.uniform` (Monte-Carlo sampler of the (F_i n F_j) \\ S term at levels >= 5)
answers a deterministic lattice of the box it was asked for, plus points on the plane through the
root; `VolMCObject.n_samples` (public legacy attribute) bounds the number of samples.
"""

from __future__ import annotations

import itertools
import math

import numpy as np

from mc import build, ref, refvol as RV, spaces as S
from mc.kernel import Space

PROPERTY = "C14"
RULE = (
    "collinear: every chain (2..N nodes) and every root with two opposite arms of 1..2 nodes, radii in {0.5,1,1.5}^n x "
    "spacings in {1.5,2,3,4}^(n-1), kept iff compartments >= both end radii and non-adjacent parts do not touch "
    "(reference predicate, tangency = touching), x orientations x accuracy {1..9, low, middle, high, default} (largest size of the tier: {1,2,3,4,5,9,default}) "
    "x RNG answer menu (all 6 answers for n<=3, one default answer otherwise); general: every sorted tree ST(n) and unsorted "
    "labelled tree LT(n) up to the tier bound x generic banks and a lattice geometry with zero-length edges at levels 1 and 2. "
    "Distinct = distinct (shape, radii, spacings, orientation, rng answer) resp. (parent table, geometry); non-trivial = at least one edge."
)
ASSUMPTIONS = [
    "coaxial bodies of revolution: V(union) = pi * integral of max rho(z)^2 dz, evaluated exactly piecewise and cross-checked by adaptive Simpson (1e-7)",
    "reference positions are the float32-stored coordinates projected on the axis in float64; the off-axis residue (<= 1e-6) is ignored",
    "tolerance rel 2e-5 for levels >= 3: the implementation computes every term in float32 (numpy weak-scalar promotion: ~20 flops, "
    "<= 30 eps32 per term relative to the term scale) and sum |terms| <= 5 x union (alternate spheres are disjoint, frusta are disjoint), "
    "so |error| <= 150 eps32 ~ 9e-6 of the union; rel 5e-6 for levels 1, 2 (positive terms only, <= 12 eps32 per term + n eps32 accumulation)",
    "Monte-Carlo term: for arms on opposite sides the sampled region (F_i n F_j) \\ S has no interior, so every legal sample set "
    "gives 0 hits; cases where a sample lies within 1e-5 of the circle where the three surfaces meet are excluded by the reference",
    "np.random.rand answers are restricted to legal values in [0,1)^3",
]

RADII = (0.5, 1.0, 1.5)
SPACINGS = (1.5, 2.0, 3.0, 4.0)
ORIENT = (
    (1.0, 0.0, 0.0),
    (1 / math.sqrt(3),) * 3,
    (0.36, 0.48, 0.8),
    (-0.6, 0.0, 0.8),
    (0.0, -1.0, 0.0),
)
ORIGIN = (0.5, -1.0, 2.0)
ACC_ALL = (1, 2, 3, 4, 5, 6, 7, 8, 9, "low", "middle", "high")
ACC_BIG = (1, 2, 3, 4, 5, 9)  # "middle" is still exercised as the default accuracy
NAMES = {"low": 3, "middle": 5, "high": 8}
# legal answers of np.random.rand(3) (values in [0,1)); slot 0 is replaced by a vector parallel to the axis when legal
RAND_MENU = (
    (0.25, 0.25, 0.25),
    (0.9, 0.1, 0.3),
    (0.05, 0.7, 0.2),
    (0.4, 0.45, 0.95),
    (0.0, 0.0, 0.6),
    (0.7, 0.0, 0.0),
)
REL3, REL12 = 2e-5, 5e-6


# ------------------------------------------------------------------ layouts


def layout(shape, spacings):
    """shape = ('chain', n) | ('arms', a, b)  ->  parent list, axial positions."""
    if shape[0] == "chain":
        n = shape[1]
        p = [-1] + list(range(n - 1))
        zs = [0.0]
        for d in spacings:
            zs.append(zs[-1] + d)
        return p, zs
    a, b = shape[1], shape[2]
    p, zs = [-1], [0.0]
    for k in range(a):
        p.append(0 if k == 0 else len(p) - 1)
        zs.append((zs[-1] if k else 0.0) + spacings[k])
    for k in range(b):
        p.append(0 if k == 0 else len(p) - 1)
        zs.append((zs[-1] if k else 0.0) - spacings[a + k])
    return p, zs


def shapes_up_to(nmax):
    out = []
    for n in range(2, nmax + 1):
        out.append(("chain", n))
        for a in (1, 2):
            for b in (1, 2):
                if 1 + a + b == n:
                    out.append(("arms", a, b))
    return out


def collinear_cases(nmax, n_orient, full_rng_upto, default_k, sp_for=None, big_from=5):
    for shape in shapes_up_to(nmax):
        n = shape[1] if shape[0] == "chain" else 1 + shape[1] + shape[2]
        sps = SPACINGS if sp_for is None else sp_for(n)
        for rs in itertools.product(RADII, repeat=n):
            for ds in itertools.product(sps, repeat=n - 1):
                p, zs = layout(shape, ds)
                ok, _ = RV.admissible(zs, rs, ref.edges(p))
                if not ok:
                    continue
                for o in range(n_orient(n) if callable(n_orient) else n_orient):
                    ks = range(len(RAND_MENU)) if n <= full_rng_upto else (default_k,)
                    for k in ks:
                        yield (list(shape), list(rs), list(ds), o, k, "big" if n >= big_from else "all")


# ------------------------------------------------------------------ owned RNG


class OwnedRNG:
    """Replace np.random.rand / np.random.uniform by deterministic legal answers during a case."""

    def __init__(self, axis, k, plane_pts):
        menu = list(RAND_MENU)
        if all(c >= 0 for c in axis):
            menu[0] = tuple(0.5 * c for c in axis)  # parallel to the axis: drives the retry loop
        elif all(c <= 0 for c in axis):
            menu[0] = tuple(-0.5 * c for c in axis)
        self.menu = menu[k:] + menu[:k]
        self.i = 0
        self.plane_pts = plane_pts
        self.samples: list[np.ndarray] = []
        self.rand_calls = 0
        self.on_plane = 0

    def rand(self, *shape):
        assert shape == (3,), f"unexpected np.random.rand{shape}"
        v = self.menu[self.i % len(self.menu)]
        self.i += 1
        self.rand_calls += 1
        return np.array(v, dtype=np.float64)

    def reset(self):
        """Same answers again (two calls that must agree exactly see the same environment)."""
        self.i = 0

    def uniform(self, low=0.0, high=1.0, size=None):
        lo, hi = np.asarray(low, dtype=np.float64), np.asarray(high, dtype=np.float64)
        assert size is not None and len(size) == 2 and size[1] == 3, f"unexpected np.random.uniform size {size}"
        n = size[0]
        # legal answers lie in [lo, hi): the plane points that fall into the box, then a generic lattice
        extra = [q for q in self.plane_pts if all(lo[c] <= q[c] < hi[c] for c in range(3))][: n // 2]
        k = 1
        while (k + 1) ** 3 <= n - len(extra):
            k += 1
        fr = [(i + 0.37) / k for i in range(k)]
        g = np.array(list(itertools.product(fr, fr, fr)), dtype=np.float64)
        lat = lo + g * (hi - lo)
        pts = np.concatenate([np.array(extra, dtype=np.float64).reshape(-1, 3), lat], axis=0)
        if len(pts) < n:
            pts = np.concatenate([pts, np.resize(lat, (n - len(pts), 3))], axis=0)
        self.samples.append(pts.astype(np.float32).astype(np.float64))
        self.on_plane += len(extra)
        return pts

    def __enter__(self):
        from swcgeom.utils.volumetric_object import VolMCObject

        self._old = (np.random.rand, np.random.uniform, VolMCObject.n_samples)
        np.random.rand = self.rand
        np.random.uniform = self.uniform
        return self

    def __exit__(self, *a):
        from swcgeom.utils.volumetric_object import VolMCObject

        np.random.rand, np.random.uniform, VolMCObject.n_samples = self._old
        return False


def _bucket(e):
    for b in ("1e-7", "1e-6", "5e-6", "2e-5", "1e-4", "1e-3", "1e-2"):
        if e <= float(b):
            return b
    return "inf"


def _perp_basis(axis):
    a = np.array(axis, dtype=np.float64)
    h = np.array([0.0, 0.0, 1.0]) if abs(a[2]) < 0.9 else np.array([1.0, 0.0, 0.0])
    u = np.cross(a, h)
    u /= np.linalg.norm(u)
    v = np.cross(a, u)
    return u, v


# ------------------------------------------------------------------ part A


def check_collinear(case, R):
    from swcgeom.analysis import get_volume
    from swcgeom.analysis.feature_extractor import extract_feature
    from swcgeom.utils.volumetric_object import VolMCObject

    shape, rs, ds, o, k = tuple(case[0]), [float(x) for x in case[1]], [float(x) for x in case[2]], int(case[3]), int(case[4])
    axis = ORIENT[o]
    p, zs_nom = layout(shape, ds)
    n = len(p)
    edges = ref.edges(p)
    xyz = [tuple(build.f32(ORIGIN[c] + z * axis[c]) for c in range(3)) for z in zs_nom]
    r32 = [build.f32(r) for r in rs]
    # what the implementation sees: stored coordinates projected on the axis
    zs = [sum((q[c] - xyz[0][c]) * axis[c] for c in range(3)) for q in xyz]
    ok, why = RV.admissible(zs, r32, edges)
    if not ok:  # cannot happen for generated cases (alphabet values are exact in float32 up to 1e-7); be explicit
        R.skip("precondition:" + why)
        R.trivial()
        return
    R.state(shape, rs, ds)
    t = build.make_tree(p, xyz=xyz, r=r32)
    snap = build.snapshot(t)

    lens = [RV.lens_volume(r32[i], r32[j], abs(zs[i] - zs[j])) for i, j in edges]
    has_lens = any(v > 1e-9 for v in lens)
    two_arm = shape[0] == "arms"
    sig = tuple(
        ((r32[j] > r32[i]) - (r32[j] < r32[i]), lens[e] > 1e-9, abs(abs(zs_nom[i] - zs_nom[j]) - rs[i]) < 1e-9, abs(abs(zs_nom[i] - zs_nom[j]) - rs[j]) < 1e-9)
        for e, (i, j) in enumerate(edges)
    )
    R.outcome(shape[0], sig)

    want = {1: RV.level1(r32), 2: RV.level2(xyz, r32, edges)}
    union = RV.checked_union(zs, r32, edges)
    tag = ("lens" if has_lens else "nolens") + (":arms" if two_arm else ":chain")

    # points on the plane through the root, perpendicular to the axis (where opposite frusta meet)
    u, v = _perp_basis(axis)
    r0 = r32[0]
    plane = []
    for rho in (0.0, 0.3 * r0, 0.9 * r0, 1.2 * r0):
        for w in (u, v, -u, (u + v) / math.sqrt(2)):
            plane.append(tuple(float(xyz[0][c] + rho * w[c]) for c in range(3)))

    accs = ACC_BIG if len(case) > 5 and case[5] == "big" else ACC_ALL
    with OwnedRNG(axis, k, plane) as rng:
        VolMCObject.n_samples = 4096 if n <= 3 else 512
        got = {}
        for acc in accs:
            lvl = NAMES.get(acc, acc)
            n_before = len(rng.samples)
            okv, val = R.impl(f"get_volume[{acc}]", lambda: get_volume(t, accuracy=acc))
            if not okv:
                continue
            val = float(val)
            got[acc] = val
            if lvl >= 5 and two_arm:
                # reference decides whether the sampled term is unambiguous for this sample set
                amb = False
                for pts in rng.samples[n_before:]:
                    d = pts - np.array(xyz[0])
                    s = d @ np.array(axis)
                    rho = np.sqrt(np.maximum((d * d).sum(1) - s * s, 0.0))
                    if bool(np.any((np.abs(s) < 1e-5) & (np.abs(rho - r0) < 1e-5))):
                        amb = True
                R.note("mc-sample-sets", len(rng.samples) - n_before)
                if amb:
                    R.skip("mc-sample-on-triple-surface")
                    continue
            if lvl == 1:
                R.check(abs(val - want[1]) <= REL12 * want[1], "level1:sum-of-spheres",
                        lambda: f"{shape} r={rs} d={ds} o={o}: accuracy={acc} -> {val!r}, sum of spheres {want[1]!r}")
            elif lvl == 2:
                R.check(abs(val - want[2]) <= REL12 * want[2], "level2:spheres+frusta",
                        lambda: f"{shape} r={rs} d={ds} o={o}: accuracy={acc} -> {val!r}, spheres+frusta {want[2]!r}")
            else:
                R.note("relerr<=" + _bucket(abs(val - union) / union))
                R.check(
                    math.isfinite(val) and abs(val - union) <= REL3 * union, "union",
                    lambda: f"{shape} r={rs} d={ds} o={o} rng={k}: accuracy={acc} -> {val!r}, union volume {union!r} "
                    f"(diff {val - union:+.6f}; lens volumes {[round(x, 6) for x in lens]})",
                    f"union:{tag}:" + ("analytic" if lvl < 5 or not two_arm else "with-mc-term"),
                )
        # names are the documented levels
        for nm, lvl in NAMES.items():
            if nm in got and lvl in got:
                R.check(abs(got[nm] - got[lvl]) <= 1e-6 * abs(got[lvl]), "accuracy-name", lambda: f"{nm} -> {got[nm]!r} but level {lvl} -> {got[lvl]!r}")
        # feature extractor reports get_volume(t) (default accuracy)
        rng.reset()
        okd, dflt = R.impl("get_volume[default]", lambda: get_volume(t))
        rng.reset()
        okf, feat = R.impl("extract_feature.volume", lambda: extract_feature(t).get("volume"))
        if okd and okf:
            feat = np.asarray(feat)
            R.check(feat.shape == (1,) and float(feat[0]) == float(np.float32(dflt)), "feature:volume",
                    lambda: f"{shape} r={rs} d={ds}: extract_feature(t).get('volume') = {feat!r}, get_volume(t) = {dflt!r}")
            R.check(abs(float(dflt) - union) <= REL3 * union, "union",
                    lambda: f"{shape} r={rs} d={ds} o={o}: default accuracy -> {float(dflt)!r}, union {union!r}", f"union:{tag}:default")
            # keyword arguments reach get_volume: level 1 through the extractor is the plain sum of spheres
            okk, f1 = R.impl("extract_feature.volume[accuracy=1]", lambda: extract_feature(t).get("volume", accuracy=1))
            if okk:
                R.check(abs(float(np.asarray(f1)[0]) - want[1]) <= REL12 * want[1], "feature:volume",
                        lambda: f"{shape} r={rs}: extract_feature(t).get('volume', accuracy=1) = {f1!r}, sum of spheres {want[1]!r}", "feature:volume:kwargs")
        R.note("rand-calls", rng.rand_calls)
        R.note("mc-samples-on-root-plane", rng.on_plane)
    R.check(build.snapshot(t) == snap, "input-modified", lambda: f"{shape} r={rs} d={ds}")


# ------------------------------------------------------------------ part B


def lattice_geometry(n):
    """Coordinates in {0,1,2}^3 by index; nodes 3 and 4 coincide with nodes 1 and 0 (zero-length edges possible)."""
    pts = [(0, 0, 0), (1, 0, 0), (1, 2, 0), (1, 0, 0), (0, 0, 0), (2, 1, 2), (0, 2, 1), (2, 2, 2)]
    rad = [1.0, 0.5, 0.25, 0.5, 2.0, 0.75, 1.5, 0.125]
    return [tuple(float(c) for c in q) for q in pts[:n]], rad[:n]


def check_general(case, R):
    from swcgeom.analysis import get_volume

    kind, p, geo = case[0], [int(x) for x in case[1]], case[2]
    n = len(p)
    if n < 2:
        R.trivial()
    if geo == "lattice":
        xyz, r = lattice_geometry(n)
    else:
        xyz, r = build.generic_geometry(n, int(geo))
    xyz = [tuple(build.f32(c) for c in q) for q in xyz]
    r = [build.f32(x) for x in r]
    R.state(p, geo)
    t = build.make_tree(p, xyz=xyz, r=r)
    snap = build.snapshot(t)
    edges = ref.edges(p)
    w1, w2 = RV.level1(r), RV.level2(xyz, r, edges)
    ch = ref.children(p)
    R.outcome(n, max(len(c) for c in ch), sum(1 for i, j in edges if xyz[i] == xyz[j]))
    with OwnedRNG((1.0, 0.0, 0.0), 1, []):
        for acc, want, kind_ in ((1, w1, "level1:sum-of-spheres"), (2, w2, "level2:spheres+frusta")):
            ok, val = R.impl(f"get_volume[{acc}]", lambda: get_volume(t, accuracy=acc))
            if ok:
                val = float(val)
                R.check(math.isfinite(val) and abs(val - want) <= REL12 * want, kind_,
                        lambda: f"{kind} p={p} geometry={geo}: accuracy={acc} -> {val!r}, want {want!r}")
    R.check(build.snapshot(t) == snap, "input-modified", lambda: f"p={p}")


# ------------------------------------------------------------------ spaces


def spaces(tier, seed):
    default_k = 1 + seed % 5
    if tier == "quick":
        nmax, n_orient, full_rng = 4, 3, 2
        sp_for = lambda n: SPACINGS if n <= 3 else (1.5, 2.0, 3.0)  # noqa: E731
        st_hi, lt_hi, banks = 6, 4, (seed % 4,)
        big_from = 4
    else:
        nmax, full_rng = 5, 3
        n_orient = lambda n: 5 if n <= 3 else 3  # noqa: E731
        sp_for = lambda n: SPACINGS if n <= 4 else (1.5, 2.0, 3.0)  # noqa: E731
        st_hi, lt_hi, banks = 7, 5, (0, 1, 2, 3)
        big_from = 5

    def gen_general():
        for n in range(1, st_hi + 1):
            for p in S.sorted_trees(n):
                for b in banks:
                    yield ("ST", list(p), b)
                yield ("ST", list(p), "lattice")
        for n in range(3, lt_hi + 1):
            for p in S.labelled_trees(n):
                if not ref.is_sorted(p):
                    for b in banks:
                        yield ("LT", list(p), b)
                    yield ("LT", list(p), "lattice")

    return [
        Space.of(
            "collinear",
            lambda: collinear_cases(nmax, n_orient, full_rng, default_k, sp_for, big_from),
            check_collinear,
            bounds={
                "max_nodes": nmax, "radii": list(RADII),
                "spacings": {str(n): list(sp_for(n)) for n in range(2, nmax + 1)},
                "orientations": {str(n): [list(ORIENT[i]) for i in range(n_orient(n) if callable(n_orient) else n_orient)] for n in range(2, nmax + 1)},
                "accuracy": {f"n<{big_from}": [str(a) for a in ACC_ALL], f"n>={big_from}": [str(a) for a in ACC_BIG] + ["default"]},
                "rng_answers": {f"n<={full_rng}": "all 6", "larger": f"answer {default_k}"},
                "mc_samples": {"n<=3": 4096, "larger": 512},
            },
        ),
        Space.of("levels-1-2", gen_general, check_general,
                 bounds={"ST_max_nodes": st_hi, "LT_max_nodes": lt_hi, "banks": list(banks) + ["lattice"]}),
    ]
