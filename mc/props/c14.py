"""C14 — tree volume = volume of the union of node spheres and connecting frusta.

Part A (collinear layouts, every accuracy level 1..9 and the names low/middle/high):
    chains and roots with two arms on opposite sides, radii and spacings from finite alphabets,
    kept iff the *reference* predicate of the statement's precondition holds
    (refvol.admissible), in several orientations.  Oracle for levels >= 3: the exact volume of
    the body of revolution whose profile is the maximum of the part profiles (refvol).
Part B (levels 1 and 2 on every tree): all sorted / labelled trees up to the tier bound with generic
    and with lattice geometry (zero-length edges included).  Oracle: plain sums.

Owned nondeterminism: `np.random.rand` (find_unit_vector_on_plane) answers from a fixed menu of
legal answers (the first one parallel to the axis where such an answer exists, which drives the
retry loop); `np.random.uniform` (Monte-Carlo sampler of the (F_i n F_j) \\ S term at levels >= 5)
answers a deterministic lattice of the box it was asked for, plus points on the plane through the
root; `VolMCObject.n_samples` (public legacy attribute) bounds the number of samples.
"""

from __future__ import annotations

import itertools
import math
import os

import numpy as np

from mc import build, ref, refvol as RV, spaces as S
from mc.kernel import Space

PROPERTY = "C14"
RULE = (
    "collinear: every chain (1..N nodes) and every root with two opposite arms of 1..2 nodes, radii in {0.5,1,1.5}^n (small n: also 0) x "
    "spacings in {1.5,2,3,4}^(n-1), kept iff compartments >= both end radii and non-adjacent parts do not touch "
    "(reference predicate, tangency = touching), x orientations x accuracy {1..9, low, middle, high, default} (largest size of the tier: {1,2,3,4,5,9,default}) "
    "x RNG answer menu (all 6 answers for small n, one default answer otherwise), plus every unsorted renumbering of the layout "
    "(largest size: the reversed one) at levels 2, 3, 5; query-edit-query: every single radius / spacing edit of the small layouts applied in "
    "place through node handles, columns, or on a copy, all queries asked before and after; history: every ordered pair (thorough: triple) "
    "of 8 fixed layouts queried in sequence, first object again at the end; general: every sorted tree ST(n) and unsorted "
    "labelled tree LT(n) up to the tier bound x generic banks and a lattice geometry with zero-length edges at levels 1 and 2. "
    "Distinct = distinct (shape, radii, spacings, orientation, rng answer) resp. (parent table, geometry); non-trivial = at least one edge."
)
ASSUMPTIONS = [
    "coaxial bodies of revolution: V(union) = pi * integral of max rho(z)^2 dz, evaluated exactly piecewise and cross-checked by adaptive Simpson (1e-7)",
    "reference positions are the float32-stored coordinates projected on the axis in float64; the off-axis residue (<= 1e-6) is ignored",
    "tolerance rel 2e-5 for levels >= 3: the implementation computes every term in float32 (numpy weak-scalar promotion: ~20 flops, "
    "<= 30 eps32 per term relative to the term scale) and sum |terms| <= 5 x union (alternate spheres are disjoint, frusta are disjoint), "
    "so |error| <= 150 eps32 ~ 9e-6 of the union; rel 5e-6 for levels 1, 2 (positive terms only, <= 12 eps32 per term + n eps32 accumulation)",
    "Monte-Carlo term: for arms on opposite sides the sampled region (F_i n F_j) \\ S has no interior, so every legal sample set "
    "gives 0 hits; cases where a sample lies within 1e-5 of the circle where the three surfaces meet are excluded by the reference",
    "np.random.rand answers are restricted to legal values in [0,1)^3",
]

RADII = (0.5, 1.0, 1.5)
SPACINGS = (1.5, 2.0, 3.0, 4.0)
ORIENT = (
    (1.0, 0.0, 0.0),
    (1 / math.sqrt(3),) * 3,
    (0.36, 0.48, 0.8),
    (-0.6, 0.0, 0.8),
    (0.0, -1.0, 0.0),
    # sign variants of one another (used by the orientation-pair histories): same |components|, different directions
    (1 / math.sqrt(2), 1 / math.sqrt(2), 0.0),
    (1 / math.sqrt(2), -1 / math.sqrt(2), 0.0),
    (-1 / math.sqrt(3), 1 / math.sqrt(3), 1 / math.sqrt(3)),
    (1 / math.sqrt(3), -1 / math.sqrt(3), 1 / math.sqrt(3)),
    (-0.36, 0.48, 0.8),
    (0.36, -0.48, -0.8),
    (-1.0, 0.0, 0.0),
    (0.0, 1.0, 0.0),
    (0.6, 0.0, 0.8),
)
ORIENT_PAIR_IDX = (0, 11, 4, 12, 1, 7, 8, 5, 6, 2, 9, 10, 3, 13)
PAIR_GEOS = ((("chain", 2), (1.5, 0.5), (3.0,)), (("chain", 3), (1.0, 0.5, 1.0), (1.5, 2.0)), (("arms", 1, 1), (1.5, 1.0, 0.5), (2.0, 3.0)))
ORIGIN = (0.5, -1.0, 2.0)
SCALE_EXPS = (-10, -7, 7)  # 1/1024, 1/128, 128: radii from 0.0005 to 190
ACC_ALL = (1, 2, 3, 4, 5, 6, 7, 8, 9, "low", "middle", "high")
ACC_BIG = (1, 2, 3, 4, 5, 9)  # "middle" is still exercised as the default accuracy
ACC_PERM = (2, 3, 5)  # renumbered copies of a layout
NAMES = {"low": 3, "middle": 5, "high": 8}
# legal answers of np.random.rand(3) (values in [0,1)); slot 0 is replaced by a vector parallel to the axis when legal
RAND_MENU = (
    (0.25, 0.25, 0.25),
    (0.9, 0.1, 0.3),
    (0.05, 0.7, 0.2),
    (0.4, 0.45, 0.95),
    (0.0, 0.0, 0.6),
    (0.7, 0.0, 0.0),
)
REL3, REL12 = 2e-5, 5e-6


# ------------------------------------------------------------------ layouts


def layout(shape, spacings):
    """shape = ('chain', n) | ('arms', a, b)  ->  parent list, axial positions."""
    if shape[0] == "chain":
        n = shape[1]
        p = [-1] + list(range(n - 1))
        zs = [0.0]
        for d in spacings:
            zs.append(zs[-1] + d)
        return p, zs
    a, b = shape[1], shape[2]
    p, zs = [-1], [0.0]
    for k in range(a):
        p.append(0 if k == 0 else len(p) - 1)
        zs.append((zs[-1] if k else 0.0) + spacings[k])
    for k in range(b):
        p.append(0 if k == 0 else len(p) - 1)
        zs.append((zs[-1] if k else 0.0) - spacings[a + k])
    return p, zs


def shapes_up_to(nmax):
    out = [("chain", 1)]
    for n in range(2, nmax + 1):
        out.append(("chain", n))
        for a in (1, 2):
            for b in (1, 2):
                if 1 + a + b == n:
                    out.append(("arms", a, b))
    return out


def size_of(shape):
    return shape[1] if shape[0] == "chain" else 1 + shape[1] + shape[2]


def numberings(p, mode):
    """Relabellings perm (perm[i] = new number of node i, root stays 0) that give an UNSORTED but well-formed table."""
    n = len(p)
    if mode is None or n < 3:
        return
    cands = [[0] + list(range(n - 1, 0, -1))] if mode == "reversed" else [[0] + list(q) for q in itertools.permutations(range(1, n))]
    for perm in cands:
        q = [0] * n
        for i in range(n):
            q[perm[i]] = -1 if p[i] == -1 else perm[p[i]]
        if not ref.is_sorted(q):
            yield perm


def collinear_cases(cfg):
    for shape in shapes_up_to(cfg["nmax"]):
        n = size_of(shape)
        radii = ((0.0,) + RADII) if n <= cfg["zero_upto"] else RADII
        for rs in itertools.product(radii, repeat=n):
            for ds in itertools.product(cfg["sp_for"](n), repeat=n - 1):
                p, zs = layout(shape, ds)
                ok, _ = RV.admissible(zs, rs, ref.edges(p))
                if not ok:
                    continue
                for o in range(cfg["n_orient"](n)):
                    ks = range(len(RAND_MENU)) if n <= cfg["full_rng"] else cfg["ks"]
                    for k in ks:
                        yield (list(shape), list(rs), list(ds), o, k, "big" if n >= cfg["big_from"] else "all", None)
                for perm in numberings(p, cfg["perm_mode"](n)):
                    yield (list(shape), list(rs), list(ds), 0, cfg["default_k"], "perm", perm)


# ------------------------------------------------------------------ owned RNG


class OwnedRNG:
    """Replace np.random.rand / np.random.uniform by deterministic legal answers during a case."""

    def __init__(self, axis, k, plane_pts):
        menu = list(RAND_MENU)
        if all(c >= 0 for c in axis):
            menu[0] = tuple(0.5 * c for c in axis)  # parallel to the axis: drives the retry loop
        elif all(c <= 0 for c in axis):
            menu[0] = tuple(-0.5 * c for c in axis)
        self.menu = menu[k:] + menu[:k]
        self.i = 0
        self.plane_pts = plane_pts
        self.samples: list[np.ndarray] = []
        self.rand_calls = 0
        self.on_plane = 0

    def rand(self, *shape):
        assert shape == (3,), f"unexpected np.random.rand{shape}"
        v = self.menu[self.i % len(self.menu)]
        self.i += 1
        self.rand_calls += 1
        return np.array(v, dtype=np.float64)

    def reset(self):
        """Same answers again (two calls that must agree exactly see the same environment)."""
        self.i = 0

    def uniform(self, low=0.0, high=1.0, size=None):
        lo, hi = np.asarray(low, dtype=np.float64), np.asarray(high, dtype=np.float64)
        assert size is not None and len(size) == 2 and size[1] == 3, f"unexpected np.random.uniform size {size}"
        n = size[0]
        # legal answers lie in [lo, hi): the plane points that fall into the box, then a generic lattice
        extra = [q for q in self.plane_pts if all(lo[c] <= q[c] < hi[c] for c in range(3))][: n // 2]
        k = 1
        while (k + 1) ** 3 <= n - len(extra):
            k += 1
        fr = [(i + 0.37) / k for i in range(k)]
        g = np.array(list(itertools.product(fr, fr, fr)), dtype=np.float64)
        lat = lo + g * (hi - lo)
        pts = np.concatenate([np.array(extra, dtype=np.float64).reshape(-1, 3), lat], axis=0)
        if len(pts) < n:
            pts = np.concatenate([pts, np.resize(lat, (n - len(pts), 3))], axis=0)
        self.samples.append(pts.astype(np.float32).astype(np.float64))
        self.on_plane += len(extra)
        return pts

    def __enter__(self):
        from swcgeom.utils.volumetric_object import VolMCObject

        self._old = (np.random.rand, np.random.uniform, VolMCObject.n_samples)
        np.random.rand = self.rand
        np.random.uniform = self.uniform
        return self

    def __exit__(self, *a):
        from swcgeom.utils.volumetric_object import VolMCObject

        np.random.rand, np.random.uniform, VolMCObject.n_samples = self._old
        return False


def _bucket(e):
    for b in ("1e-7", "1e-6", "5e-6", "2e-5", "1e-4", "1e-3", "1e-2"):
        if e <= float(b):
            return b
    return "inf"


def _perp_basis(axis):
    a = np.array(axis, dtype=np.float64)
    h = np.array([0.0, 0.0, 1.0]) if abs(a[2]) < 0.9 else np.array([1.0, 0.0, 0.0])
    u = np.cross(a, h)
    u /= np.linalg.norm(u)
    v = np.cross(a, u)
    return u, v


# ------------------------------------------------------------------ part A


def geometry(shape, rs, ds, o, perm=None, origin=None):
    """Canonical layout (node i of the shape) and, if perm is given, the same tree with node i numbered perm[i]."""
    axis = ORIENT[o]
    p, zs_nom = layout(shape, ds)
    n = len(p)
    origin = ORIGIN if origin is None else origin
    xyz = [tuple(build.f32(origin[c] + z * axis[c]) for c in range(3)) for z in zs_nom]
    r32 = [build.f32(r) for r in rs]
    # what the implementation sees: stored coordinates projected on the axis
    zs = [sum((q[c] - xyz[0][c]) * axis[c] for c in range(3)) for q in xyz]
    g = {"shape": shape, "rs": rs, "ds": ds, "o": o, "axis": axis, "p": p, "zs_nom": zs_nom, "xyz": xyz, "r": r32, "zs": zs,
         "edges": ref.edges(p), "n": n, "two_arm": shape[0] == "arms"}
    if perm is None:
        g["tp"], g["txyz"], g["tr"] = p, xyz, r32
    else:
        q, qx, qr = [0] * n, [None] * n, [0.0] * n
        for i in range(n):
            q[perm[i]] = -1 if p[i] == -1 else perm[p[i]]
            qx[perm[i]] = xyz[i]
            qr[perm[i]] = r32[i]
        g["tp"], g["txyz"], g["tr"] = q, qx, qr
    return g


def reference(g):
    ok, why = RV.admissible(g["zs"], g["r"], g["edges"])
    if not ok:
        return None, why
    lens = [RV.lens_volume(g["r"][i], g["r"][j], abs(g["zs"][i] - g["zs"][j])) for i, j in g["edges"]]
    has_lens = any(v > 1e-9 for v in lens)
    return {
        1: RV.level1(g["r"]), 2: RV.level2(g["xyz"], g["r"], g["edges"]), "union": RV.checked_union(g["zs"], g["r"], g["edges"]),
        "lens": lens, "tag": ("lens" if has_lens else "nolens") + (":arms" if g["two_arm"] else ":chain"),
    }, ""


def plane_points(g, radii=None):
    """Points on the plane through the root, perpendicular to the axis (where opposite frusta meet)."""
    u, v = _perp_basis(g["axis"])
    out = []
    for r0 in radii or [g["r"][0]]:
        for rho in (0.0, 0.3 * r0, 0.9 * r0, 1.2 * r0):
            for w in (u, v, -u, (u + v) / math.sqrt(2)):
                out.append(tuple(float(g["xyz"][0][c] + rho * w[c]) for c in range(3)))
    return out


def call_volume(R, rng, t, g, want, acc, label, via=None):
    """One get_volume call (or `via(acc)`: the same request through another front end), judged against the reference of geometry g.
    Returns the value or None."""
    from swcgeom.analysis import get_volume

    lvl = NAMES.get(acc, acc)
    n_before = len(rng.samples)
    a3 = g.get("scale3", 1.0)  # absolute slack scales with the cube of the layout's length unit
    if via is not None:
        okv, val = R.impl(f"extractor.volume[{acc}]", via, acc)
    else:
        okv, val = R.impl(f"get_volume[{acc}]", (lambda: get_volume(t)) if acc == "default" else (lambda: get_volume(t, accuracy=acc)))
    if not okv:
        return None
    val = float(np.asarray(val).ravel()[0])
    if lvl == "default":
        lvl = 5
    if lvl >= 5 and g["two_arm"]:
        # the reference decides whether the sampled term is unambiguous for this sample set
        r0 = g["r"][0]
        amb = False
        for pts in rng.samples[n_before:]:
            d = pts - np.array(g["xyz"][0])
            s = d @ np.array(g["axis"])
            rho = np.sqrt(np.maximum((d * d).sum(1) - s * s, 0.0))
            if bool(np.any((np.abs(s) < 1e-5) & (np.abs(rho - r0) < 1e-5))):
                amb = True
        R.note("mc-sample-sets", len(rng.samples) - n_before)
        if amb:
            R.skip("mc-sample-on-triple-surface")
            return val
    if lvl == 1:
        R.check(abs(val - want[1]) <= (REL12 if via is None else max(REL12, 2e-7)) * want[1] + 1e-12 * a3, "level1:sum-of-spheres",
                lambda: f"{label}: accuracy={acc} -> {val!r}, sum of spheres {want[1]!r}")
    elif lvl == 2:
        R.check(abs(val - want[2]) <= (REL12 if via is None else max(REL12, 2e-7)) * want[2] + 1e-12 * a3, "level2:spheres+frusta",
                lambda: f"{label}: accuracy={acc} -> {val!r}, spheres+frusta {want[2]!r}")
    else:
        union = want["union"]
        R.note("relerr<=" + _bucket(abs(val - union) / union if union > 0 else abs(val)))
        R.check(
            math.isfinite(val) and abs(val - union) <= REL3 * union + 1e-9 * a3, "union",
            lambda: f"{label}: accuracy={acc} -> {val!r}, union volume {union!r} "
            f"(diff {val - union:+.6f}; lens volumes {[round(x, 6) for x in want['lens']]})",
            f"union:{want['tag']}:" + ("default" if acc == "default" else "analytic" if lvl < 5 or not g["two_arm"] else "with-mc-term"),
        )
    return val


def label_of(g):
    return f"{tuple(g['shape'])} r={g['rs']} d={g['ds']} o={g['o']}" + (f" numbering={g['tp']}" if g["tp"] != g["p"] else "")


def check_collinear(case, R):
    from swcgeom.analysis.feature_extractor import extract_feature
    from swcgeom.utils.volumetric_object import VolMCObject

    shape, rs, ds, o, k = tuple(case[0]), [float(x) for x in case[1]], [float(x) for x in case[2]], int(case[3]), int(case[4])
    accset = case[5] if len(case) > 5 else "all"
    perm = [int(v) for v in case[6]] if len(case) > 6 and case[6] is not None else None
    sexp = int(case[7]) if len(case) > 7 else 0
    sc = 2.0 ** sexp  # the same layout in another length unit (mm instead of um ...): an exact power of two
    rs, ds = [r * sc for r in rs], [d * sc for d in ds]
    g = geometry(shape, rs, ds, o, perm, origin=tuple(c * sc for c in ORIGIN))
    g["scale3"] = sc ** 3
    want, why = reference(g)
    if want is None:  # a spacing equal to a radius can fall short by one float32 ulp in an oblique orientation
        R.skip("precondition:" + why)
        R.trivial()
        return
    n = g["n"]
    if n < 2:
        R.trivial()
    R.state(shape, rs, ds, perm)
    t = build.make_tree(g["tp"], xyz=g["txyz"], r=g["tr"])
    snap = build.snapshot(t)
    sig = tuple(
        ((g["r"][j] > g["r"][i]) - (g["r"][j] < g["r"][i]), want["lens"][e] > 1e-9,
         abs(abs(g["zs_nom"][i] - g["zs_nom"][j]) - rs[i]) < 1e-9, abs(abs(g["zs_nom"][i] - g["zs_nom"][j]) - rs[j]) < 1e-9, g["r"][i] == 0, g["r"][j] == 0)
        for e, (i, j) in enumerate(g["edges"])
    )
    R.outcome(shape[0], sig, perm is not None)
    label = label_of(g) + f" rng={k}" + (f" unit=2^{sexp}" if sexp else "")
    accs = {"all": ACC_ALL, "big": ACC_BIG, "perm": ACC_PERM}[accset]
    with OwnedRNG(g["axis"], k, plane_points(g)) as rng:
        VolMCObject.n_samples = 4096 if n <= 3 else 512
        got = {}
        for acc in accs:
            v = call_volume(R, rng, t, g, want, acc, label)
            if v is not None:
                got[acc] = v
        # names are the documented levels
        for nm, lvl in NAMES.items():
            if nm in got and lvl in got:
                R.check(abs(got[nm] - got[lvl]) <= 1e-6 * abs(got[lvl]) + 1e-12, "accuracy-name", lambda: f"{nm} -> {got[nm]!r} but level {lvl} -> {got[lvl]!r}")
        if accset != "perm":
            # feature extractor reports get_volume(t) (default accuracy); same environment answers for both calls
            rng.reset()
            dflt = call_volume(R, rng, t, g, want, "default", label)
            rng.reset()
            okf, feat = R.impl("extract_feature.volume", lambda: extract_feature(t).get("volume"))
            if dflt is not None and okf:
                feat = np.asarray(feat)
                R.retain("extract_feature.volume", lambda a=feat: a)
                R.check(feat.shape == (1,) and float(feat[0]) == float(np.float32(dflt)), "feature:volume",
                        lambda: f"{label}: extract_feature(t).get('volume') = {feat!r}, get_volume(t) = {dflt!r}")
                # keyword arguments reach get_volume: level 1 through the extractor is the plain sum of spheres
                okk, f1 = R.impl("extract_feature.volume[accuracy=1]", lambda: extract_feature(t).get("volume", accuracy=1))
                if okk:
                    R.check(abs(float(np.asarray(f1)[0]) - want[1]) <= REL12 * want[1] + 1e-12, "feature:volume",
                            lambda: f"{label}: extract_feature(t).get('volume', accuracy=1) = {f1!r}, sum of spheres {want[1]!r}", "feature:volume:kwargs")
            # every node typed soma (a three-point soma is three spheres and two frusta like any other root with two arms)
            if n <= 3 and perm is None:
                t_soma = build.make_tree(g["tp"], xyz=g["txyz"], r=g["tr"], types=[1] * n)
                for acc in (1, 2, 3, 4):
                    rng.reset()
                    call_volume(R, rng, t_soma, g, want, acc, label + " [all nodes typed soma]")
            # ONE extractor object asked for several levels in turn (and for the first again): each answer is that level's volume
            okx, fe = R.impl("extract_feature", extract_feature, t)
            if okx:
                for acc in (3, 1, 2, 4, 1, 3):
                    rng.reset()
                    call_volume(R, rng, t, g, want, acc, label + " [one extractor object, levels 3,1,2,4,1,3]", via=lambda a, fe=fe: fe.get("volume", accuracy=a))
        R.note("rand-calls", rng.rand_calls)
        R.note("mc-samples-on-root-plane", rng.on_plane)
    R.check(build.snapshot(t) == snap, "input-modified", lambda: label)


# ------------------------------------------------------------------ query -> edit in place -> query again

EDIT_HOWS = ("handle", "column", "copy-then-handle")
EDIT_ACCS = (1, 2, 3, 5)


def edit_cases(shapes, radii_for, spacings_for, orients_for):
    for shape in shapes:
        n = shape[1] if shape[0] == "chain" else 1 + shape[1] + shape[2]
        for rs in itertools.product(radii_for(n), repeat=n):
            for ds in itertools.product(spacings_for(n), repeat=n - 1):
                p, zs = layout(shape, ds)
                if not RV.admissible(zs, rs, ref.edges(p))[0]:
                    continue
                edits = [("r", i, v) for i in range(n) for v in RADII if v != rs[i]]
                edits += [("d", e, v) for e in range(n - 1) for v in spacings_for(n) if v != ds[e]]
                for kind, i, v in edits:
                    rs2, ds2 = list(rs), list(ds)
                    (rs2 if kind == "r" else ds2)[i] = v
                    p2, zs2 = layout(shape, ds2)
                    if not RV.admissible(zs2, rs2, ref.edges(p2))[0]:
                        continue
                    for o in orients_for(n):
                        for how in EDIT_HOWS:
                            yield (list(shape), list(rs), list(ds), o, [kind, i, v], how)


def check_edit(case, R):
    """Warm every query, change a radius / a spacing IN PLACE through the public API, query again: the answers must
    describe the current content (and the original must keep its answers when a copy was edited)."""
    from swcgeom.analysis.feature_extractor import extract_feature
    from swcgeom.utils.volumetric_object import VolMCObject

    shape, rs, ds, o = tuple(case[0]), [float(x) for x in case[1]], [float(x) for x in case[2]], int(case[3])
    (kind, i, v), how = case[4], case[5]
    i, v = int(i), float(v)
    rs2, ds2 = list(rs), list(ds)
    (rs2 if kind == "r" else ds2)[i] = v
    g0, g1 = geometry(shape, rs, ds, o), geometry(shape, rs2, ds2, o)
    w0, why0 = reference(g0)
    w1, why1 = reference(g1)
    if w0 is None or w1 is None:
        R.skip("precondition:" + (why0 or why1))
        R.trivial()
        return
    R.state(shape, rs, ds, kind, i, v)
    R.outcome(shape[0], kind, how, w0["tag"], w1["tag"])
    t = build.make_tree(g0["p"], xyz=g0["xyz"], r=g0["r"])
    k = 1
    with OwnedRNG(g0["axis"], k, plane_points(g0, [g0["r"][0], g1["r"][0]])) as rng:
        VolMCObject.n_samples = 512

        def ask(tree, g, want, label):
            for acc in EDIT_ACCS:
                call_volume(R, rng, tree, g, want, acc, label)
            okf, feat = R.impl("extract_feature.volume", lambda: extract_feature(tree).get("volume", accuracy=3))
            if okf:
                u = want["union"]
                R.check(abs(float(np.asarray(feat)[0]) - u) <= REL3 * u + 1e-9, "union", lambda: f"{label}: extractor (accuracy=3) -> {feat!r}, union {u!r}",
                        f"union:{want['tag']}:extractor")

        ask(t, g0, w0, f"{label_of(g0)} before the edit")
        target = t.copy() if how == "copy-then-handle" else t
        if how == "column":
            if kind == "r":
                target.r()[i] = g1["r"][i]
            else:
                for c, col in enumerate((target.x(), target.y(), target.z())):
                    for j in range(g1["n"]):
                        col[j] = g1["xyz"][j][c]
        else:
            if kind == "r":
                target.node(i).r = g1["r"][i]
            else:
                for j in range(g1["n"]):
                    nd = target.node(j)
                    nd.x, nd.y, nd.z = g1["xyz"][j]
        now = [tuple(float(q) for q in row) for row in zip(target.x().tolist(), target.y().tolist(), target.z().tolist())]
        if now != [tuple(float(q) for q in row) for row in g1["xyz"]] or [float(q) for q in target.r().tolist()] != [float(q) for q in g1["r"]]:
            R.skip("edit-not-applied-by-this-route")  # whether a handle writes through is C09's business
            return
        ask(target, g1, w1, f"{label_of(g0)} after {kind}[{i}] := {v} via {how}")
        if how == "copy-then-handle":
            ask(t, g0, w0, f"{label_of(g0)} original after its copy was edited ({kind}[{i}] := {v})")


# ------------------------------------------------------------------ call histories

HIST_GEOS = (
    (("chain", 1), (1.0,), (), 0),
    (("chain", 2), (0.5, 1.5), (1.5,), 0),  # lens
    (("chain", 2), (1.5, 0.5), (3.0,), 2),
    (("chain", 3), (1.0, 0.5, 1.0), (1.5, 2.0), 1),
    (("chain", 3), (0.5, 0.5, 1.5), (2.0, 1.5), 2),
    (("arms", 1, 1), (1.0, 0.5, 1.0), (1.5, 2.0), 0),  # Monte-Carlo term at level 5
    (("arms", 1, 1), (1.5, 1.0, 0.5), (2.0, 3.0), 2),
    (("arms", 1, 2), (0.5, 1.0, 1.0, 1.5), (2.0, 1.5, 2.0), 1),
)


def check_history(case, R):
    """get_volume / extract_feature on a sequence of fresh trees (then the first tree object again): every answer is judged
    when returned; feature arrays are re-inspected after the later calls."""
    from swcgeom.analysis.feature_extractor import extract_feature
    from swcgeom.utils.volumetric_object import VolMCObject

    seq = [int(i) for i in case]
    R.state(tuple(seq))
    R.outcome(tuple(seq))
    objs, feats = [], []
    for pos, gi in enumerate(seq + seq[:1]):
        shape, rs, ds, o = HIST_GEOS[gi]
        g = geometry(shape, list(rs), list(ds), o)
        want, _ = reference(g)
        assert want is not None, "history geometries are admissible"
        if pos < len(seq):
            objs.append(build.make_tree(g["p"], xyz=g["xyz"], r=g["r"]))
            t = objs[-1]
        else:
            t = objs[0]
        label = f"history {seq} call #{pos} on {label_of(g)}"
        with OwnedRNG(g["axis"], 1, plane_points(g)) as rng:
            VolMCObject.n_samples = 512
            for acc in (3, 5, 1, "default"):
                call_volume(R, rng, t, g, want, acc, label)
            okf, feat = R.impl("extract_feature.volume", lambda: extract_feature(t).get("volume"))
            if okf:
                feat = np.asarray(feat)
                u = want["union"]
                R.check(feat.shape == (1,) and abs(float(feat[0]) - u) <= REL3 * u + 1e-9, "union", lambda: f"{label}: extractor -> {feat!r}, union {u!r}",
                        f"union:{want['tag']}:extractor")
                feats.append((pos, feat, feat.copy()))
    for pos, feat, first in feats:
        R.check(np.array_equal(feat, first), "feature:result-changed-by-later-calls", lambda: f"history {seq}: array returned by call #{pos} changed afterwards")




def check_orient_pair(case, R):
    """The same layout measured along direction a, then along direction b (every ordered pair of 14 directions that include sign
    variants of one another), then along a again: each answer is the union volume of the tree asked about."""
    gi, a, b = int(case[0]), int(case[1]), int(case[2])
    shape, rs, ds = PAIR_GEOS[gi]
    R.state(gi, a, b)
    R.outcome(gi, a == b)
    from swcgeom.utils.volumetric_object import VolMCObject

    for pos, o in enumerate((a, b, a)):
        g = geometry(shape, list(rs), list(ds), o)
        want, _ = reference(g)
        assert want is not None, "pair geometries are admissible"
        t = build.make_tree(g["p"], xyz=g["xyz"], r=g["r"])
        label = f"orientation history {[list(ORIENT[i]) for i in (a, b, a)]} call #{pos} on {label_of(g)}"
        with OwnedRNG(g["axis"], 1, plane_points(g)) as rng:
            VolMCObject.n_samples = 512
            for acc in (3, "default"):
                call_volume(R, rng, t, g, want, acc, label)


FAR_SHAPES = (("chain", 1), ("chain", 2), ("chain", 3), ("arms", 1, 1))
FAR_RADII = (0.25, 0.5)
FAR_SPACINGS = (0.5, 1.0)
FAR_K = tuple(range(4, 21))


def far_cases():
    for shape in FAR_SHAPES:
        n = size_of(shape)
        for rs in itertools.product(FAR_RADII, repeat=n):
            for ds in itertools.product(FAR_SPACINGS, repeat=n - 1):
                for o in (0, 4):
                    for k in FAR_K:
                        yield [list(shape), list(rs), list(ds), o, k]


def check_far(case, R):
    """Finely sampled layouts (dyadic radii and spacings along a coordinate axis) placed at +-2^k for every k in 4..20: all stored
    coordinates are exact in float32, the solid is congruent to the one at the origin, and the volume is that of the union."""
    from swcgeom.utils.volumetric_object import VolMCObject

    shape, rs, ds, o, k = tuple(case[0]), list(case[1]), list(case[2]), int(case[3]), int(case[4])
    origin = (2.0 ** k, -(2.0 ** k), 2.0 ** k)
    g = geometry(shape, rs, ds, o, origin=origin)
    for q, z in zip(g["xyz"], g["zs_nom"]):
        assert all(float(q[c]) == origin[c] + z * ORIENT[o][c] for c in range(3)), "harness: far placement is not exact in float32"
    want, why = reference(g)
    R.state(case)
    if want is None:
        R.skip("not-admissible:" + why)
        R.trivial()
        return
    R.outcome(shape[0], size_of(shape), k >= 12)
    t = build.make_tree(g["p"], xyz=g["xyz"], r=g["r"])
    label = f"{label_of(g)} placed at {origin}"
    with OwnedRNG(g["axis"], 1, plane_points(g)) as rng:
        VolMCObject.n_samples = 512
        for acc in (3, "default", 2):
            call_volume(R, rng, t, g, want, acc, label)


# ------------------------------------------------------------------ the same histories, each in a FRESH interpreter

_FRESH_CODE = """
import sys, json, warnings
sys.path[:0] = [sys.argv[1], sys.argv[2]]
warnings.simplefilter("ignore")
from mc import kernel
from mc.props import %(mod)s as M
seq = json.loads(sys.argv[3])
R = kernel.Recorder("fresh", 0)
R._begin(0, seq)
M.%(fn)s(seq, R)
print("RESULT" + json.dumps({k: {"count": v["count"], "kind": v["example"]["kind"], "detail": v["example"]["detail"]} for k, v in R.viol.items()}))
"""


def check_fresh(case, R):
    """State that is decided by the FIRST call of a process (lazily initialised module state) is invisible to a worker
    that has already executed other cases: run the sequence in a new interpreter and import its verdicts."""
    import json
    import subprocess
    import sys

    repo = os.environ.get("VERIF_REPO", "/repo")
    root = os.path.dirname(os.path.dirname(os.path.dirname(os.path.abspath(__file__))))
    R.state(tuple(case))
    R.outcome(tuple(case))
    R.trans()
    r = subprocess.run([sys.executable, "-c", _FRESH_CODE % {"mod": 'c14', "fn": 'check_history'}, repo, root, json.dumps(list(case))],
                       capture_output=True, text=True, timeout=110, env=dict(os.environ, PYTHONDONTWRITEBYTECODE="1"))
    line = next((ln for ln in r.stdout.splitlines() if ln.startswith("RESULT")), None)
    if line is None:
        raise RuntimeError(f"fresh interpreter failed for {case}: exit {r.returncode}: {r.stderr[-600:]}")
    for klass, v in json.loads(line[6:]).items():
        for _ in range(v["count"]):
            R.fail(v["kind"], f"in a fresh process, sequence {list(case)}: " + v["detail"], "fresh-process:" + klass)


FRESH_GEOS = (1, 3, 5, 7)  # indices into HIST_GEOS


# ------------------------------------------------------------------ part B


def lattice_geometry(n):
    """Coordinates in {0,1,2}^3 by index; nodes 3 and 4 coincide with nodes 1 and 0 (zero-length edges possible)."""
    pts = [(0, 0, 0), (1, 0, 0), (1, 2, 0), (1, 0, 0), (0, 0, 0), (2, 1, 2), (0, 2, 1), (2, 2, 2)]
    rad = [1.0, 0.5, 0.0, 0.5, 2.0, 0.75, 1.5, 0.125]  # node 2 is a point (radius 0)
    return [tuple(float(c) for c in q) for q in pts[:n]], rad[:n]


def check_general(case, R):
    from swcgeom.analysis import get_volume

    kind, p, geo = case[0], [int(x) for x in case[1]], case[2]
    n = len(p)
    if n < 2:
        R.trivial()
    types = None
    if geo == "soma3":
        # the "three-point soma" of standardised files: centre + two samples one radius away on opposite sides, all typed soma, same
        # radius (+ neurites leaving the centre): by the statement three spheres and two frusta like any other nodes
        rs_ = 2.5
        xyz = [(1.0, 2.0, 3.0), (1.0, 2.0 - rs_, 3.0), (1.0, 2.0 + rs_, 3.0), (7.0, 3.0, 1.0), (9.5, 4.0, 0.0)][:n]
        r = [rs_, rs_, rs_, 0.5, 0.25][:n]
        types = [1, 1, 1, 3, 3][:n]
    elif geo == "lattice":
        xyz, r = lattice_geometry(n)
    else:
        xyz, r = build.generic_geometry(n, int(geo))
    xyz = [tuple(build.f32(c) for c in q) for q in xyz]
    r = [build.f32(x) for x in r]
    R.state(p, geo)
    t = build.make_tree(p, xyz=xyz, r=r, types=types)
    snap = build.snapshot(t)
    edges = ref.edges(p)
    w1, w2 = RV.level1(r), RV.level2(xyz, r, edges)
    ch = ref.children(p)
    R.outcome(n, max(len(c) for c in ch), sum(1 for i, j in edges if xyz[i] == xyz[j]))
    with OwnedRNG((1.0, 0.0, 0.0), 1, []):
        for acc, want, kind_ in ((1, w1, "level1:sum-of-spheres"), (2, w2, "level2:spheres+frusta")):
            ok, val = R.impl(f"get_volume[{acc}]", lambda: get_volume(t, accuracy=acc))
            if ok:
                val = float(val)
                R.check(math.isfinite(val) and abs(val - want) <= REL12 * want + 1e-12, kind_,
                        lambda: f"{kind} p={p} geometry={geo}: accuracy={acc} -> {val!r}, want {want!r}")
    R.check(build.snapshot(t) == snap, "input-modified", lambda: f"p={p}")
    # measured, then RE-PARENTED IN PLACE (every admissible single edit, through the node handle / the column / on a copy), then measured
    # again: levels 1 and 2 are sums over the CURRENT nodes and parent-child pairs; and the same for every node typed soma (type is
    # not part of the statement: a soma-typed root with soma-typed children is a tree like any other)
    if geo not in ("lattice", "soma3") and kind == "ST" and 2 <= n <= 5:
        with OwnedRNG((1.0, 0.0, 0.0), 1, []):
            for (i, j) in build.reparent_edits(p):
                for how in build.EDIT_HOWS:
                    t_ = build.make_tree(p, xyz=xyz, r=r)
                    obj, q, other, other_p = build.apply_reparent(t_, p, (i, j, how), lambda x: (get_volume(x, accuracy=2), x.get_branches(), x.length()))
                    for o_, q_ in ((obj, q),) + (((other, other_p),) if other is not None else ()):
                        want2 = RV.level2(xyz, r, ref.edges(q_))
                        ok, val = R.impl("get_volume[2] after an in-place re-parenting", lambda: get_volume(o_, accuracy=2))
                        if ok:
                            R.check(abs(float(val) - want2) <= REL12 * want2 + 1e-12, "level2:spheres+frusta",
                                    lambda: f"p={p} -> {q_} (node {i} re-parented to {j}, {how}): accuracy=2 -> {float(val)!r}, want {want2!r}", "level2:after-reparenting")
            t_s = build.make_tree(p, xyz=xyz, r=r, types=[1] * n)
            for acc, want, kind_ in ((1, w1, "level1:sum-of-spheres"), (2, w2, "level2:spheres+frusta")):
                ok, val = R.impl(f"get_volume[{acc}] all nodes typed soma", lambda: get_volume(t_s, accuracy=acc))
                if ok:
                    R.check(abs(float(val) - want) <= REL12 * want + 1e-12, kind_, lambda: f"p={p} all nodes typed soma: accuracy={acc} -> {float(val)!r}, want {want!r}",
                            kind_ + ":soma-typed-nodes")


# ------------------------------------------------------------------ spaces


def spaces(tier, seed):
    default_k = 1 + seed % 5
    if tier == "quick":
        cfg = {"nmax": 4, "n_orient": lambda n: 3 if n <= 3 else 2, "full_rng": 2, "default_k": default_k, "ks": (default_k,), "big_from": 4, "zero_upto": 2,
               "sp_for": lambda n: SPACINGS if n <= 3 else (1.5, 2.0, 3.0), "perm_mode": lambda n: "all" if n <= 3 else "reversed"}
        st_hi, lt_hi, banks, hist_depth = 6, 4, (seed % 4,), 2
        e_shapes = [("chain", 1), ("chain", 2), ("chain", 3), ("arms", 1, 1)]
        e_radii = lambda n: RADII if n <= 2 else (0.5, 1.5)  # noqa: E731
        e_sp = lambda n: SPACINGS if n <= 2 else (1.5, 2.0, 3.0)  # noqa: E731
        e_orients = lambda n: (2,)  # noqa: E731
    else:
        cfg = {"nmax": 5, "n_orient": lambda n: 5 if n <= 3 else 3, "full_rng": 2, "default_k": default_k, "ks": (0, default_k), "big_from": 5, "zero_upto": 3,
               "sp_for": lambda n: SPACINGS if n <= 4 else (1.5, 2.0, 3.0), "perm_mode": lambda n: "all" if n <= 4 else "reversed"}
        st_hi, lt_hi, banks, hist_depth = 7, 5, (0, 1, 2, 3), 3
        e_shapes = [("chain", 1), ("chain", 2), ("chain", 3), ("arms", 1, 1), ("chain", 4), ("arms", 1, 2)]
        e_radii = lambda n: RADII if n <= 3 else (0.5, 1.5)  # noqa: E731
        e_sp = lambda n: SPACINGS if n <= 3 else (1.5, 2.0, 3.0)  # noqa: E731
        e_orients = lambda n: (0, 2) if n <= 2 else (2,)  # noqa: E731

    def gen_general():
        for p in ([-1, 0, 0], [-1, 0, 0, 0], [-1, 0, 0, 0, 3]):
            yield ("ST", p, "soma3")
        for n in range(1, st_hi + 1):
            for p in S.sorted_trees(n):
                for b in banks:
                    yield ("ST", list(p), b)
                yield ("ST", list(p), "lattice")
        for n in range(3, lt_hi + 1):
            for p in S.labelled_trees(n):
                if not ref.is_sorted(p):
                    for b in banks:
                        yield ("LT", list(p), b)
                    yield ("LT", list(p), "lattice")

    def gen_history():
        for seq in itertools.product(range(len(HIST_GEOS)), repeat=hist_depth):
            yield list(seq)

    sizes = range(1, cfg["nmax"] + 1)
    scfg = dict(cfg, nmax=3 if tier == "quick" else 4, n_orient=lambda n: 2, full_rng=0, ks=(default_k,), zero_upto=0, perm_mode=lambda n: None, big_from=3)
    return [
        Space.of(
            "collinear", lambda: collinear_cases(cfg), check_collinear,
            bounds={
                "max_nodes": cfg["nmax"], "radii": {str(n): ([0.0] if n <= cfg["zero_upto"] else []) + list(RADII) for n in sizes},
                "spacings": {str(n): list(cfg["sp_for"](n)) for n in sizes if n > 1},
                "orientations": {str(n): [list(ORIENT[i]) for i in range(cfg["n_orient"](n))] for n in sizes},
                "accuracy": {f"n<{cfg['big_from']}": [str(a) for a in ACC_ALL] + ["default"], f"n>={cfg['big_from']}": [str(a) for a in ACC_BIG] + ["default"],
                             "renumbered": [str(a) for a in ACC_PERM]},
                "rng_answers": {f"n<={cfg['full_rng']}": "all 6", "larger": f"answers {list(cfg['ks'])} (0 = parallel to the axis first where legal)"},
                "unsorted_numberings": {str(n): cfg["perm_mode"](n) for n in sizes if n >= 3},
                "mc_samples": {"n<=3": 4096, "larger": 512},
            },
        ),
        Space.of("collinear-other-length-units", lambda: (c + [e] for c in (list(x) for x in collinear_cases(scfg)) if c[6] is None for e in SCALE_EXPS), check_collinear,
                 bounds={"max_nodes": scfg["nmax"], "unit": [f"2^{e}" for e in SCALE_EXPS], "radii": list(RADII), "spacings": list(SPACINGS),
                         "note": "the collinear layouts with every length multiplied by an exact power of two; absolute slack scaled by its cube"}),
        Space.of("levels-1-2", gen_general, check_general,
                 bounds={"ST_max_nodes": st_hi, "LT_max_nodes": lt_hi, "banks": list(banks) + ["lattice (zero-length edges, one zero radius)"]}),
        Space.of("query-edit-query", lambda: edit_cases(e_shapes, e_radii, e_sp, e_orients), check_edit,
                 bounds={"shapes": [list(x) for x in e_shapes], "radii": {str(size_of(x)): list(e_radii(size_of(x))) for x in e_shapes},
                         "spacings": {str(size_of(x)): list(e_sp(size_of(x))) for x in e_shapes if size_of(x) > 1}, "orientations": {str(size_of(x)): list(e_orients(size_of(x))) for x in e_shapes},
                         "edits": "every single radius / spacing replaced by every other alphabet value (both layouts admissible)",
                         "routes": list(EDIT_HOWS), "accuracy": [str(a) for a in EDIT_ACCS] + ["extractor(accuracy=3)"]}),
        Space.of("history-fresh-process", lambda: (list(q) for q in itertools.permutations(FRESH_GEOS, 2)), check_fresh,
                 bounds={"geometries": [list(map(list, HIST_GEOS[i][:3])) + [HIST_GEOS[i][3]] for i in FRESH_GEOS], "sequence_length": 2,
                         "history": "every ordered pair of distinct layouts, each in a new interpreter"}),
        Space.of("far-from-origin", far_cases, check_far,
                 bounds={"shapes": [list(x) for x in FAR_SHAPES], "radii": list(FAR_RADII), "spacings": list(FAR_SPACINGS), "directions": [list(ORIENT[0]), list(ORIENT[4])],
                         "placements": "(2^k, -2^k, 2^k) for every k in 4..20 (exact in float32)", "accuracy": [3, "default", 2]}),
        Space.of("orientation-pairs", lambda: ([gi, a, b] for gi in range(len(PAIR_GEOS)) for a in ORIENT_PAIR_IDX for b in ORIENT_PAIR_IDX), check_orient_pair,
                 bounds={"layouts": [list(map(list, g[1:])) for g in PAIR_GEOS], "directions": [list(ORIENT[i]) for i in ORIENT_PAIR_IDX],
                         "sequences": "every ordered pair (a, b): measured along a, b, a again", "accuracy": [3, "default"]}),
        Space.of("history", gen_history, check_history,
                 bounds={"geometries": len(HIST_GEOS), "sequence_length": hist_depth,
                         "history": "fresh tree per position, first tree object again at the end; accuracy 3, 5, 1, default + extractor"}),
    ]
