"""C18 — topology diagnosis and root repair tell the truth about any parent table.

Spaces:

(a) `dsu-graph`      the disjoint-set structure: the COMPLETE reachable state graph (BFS to fixpoint) over
                     union_sets(a,b) / find_parent(a) / is_same_set(a,b) for n elements, every answer compared
                     with the reference partition carried in the state.
    `dsu-instances`  every history (length <= 3/4) of unions / re-creations over TWO live instances: no state shared.
    `dsu-scripts`    6 adversarial union orders at EVERY size 1..400/1300 (+ lowered recursion limit, + 3000/30000).
(b) `checkers`       every parent table PT(n): is_single_root, has_cyclic, is_sorted, is_bifurcate (+ deprecated
                     aliases) against graph-theoretic definitions, under id relabellings, each call under a
                     deterministic step horizon (a hang is an answer we can see); then the same arrays / frame
                     are edited in place entry by entry and every question is asked again.
    `checkers-size-sweep`  7 table shapes at every size 1..300/1200 (+ lowered recursion limit).
    `tree-wrapper`   tree_utils.is_binary_tree on real trees, fresh and after every in-place re-parenting.
(c) `repair`         every acyclic table with >= 1 root (forests, and single-root inputs as the degenerate case)
                     x id base x repair mode x read options x geometry through read_swc, and the stand-alone
                     mark_roots_as_somas / link_roots_to_nearest / reset_index (copying and in-place forms).
"""

from __future__ import annotations

import copy
import io
import itertools
import sys
import traceback
import warnings

import numpy as np

from mc import kernel, spaces as S
from mc.kernel import HorizonExceeded, Space

PROPERTY = "C18"
RULE = (
    "dsu-graph: for n elements the complete reachable state graph of DisjointSetUnion(n) under every union_sets(a,b) "
    "(all ordered pairs incl. a=b), find_parent(a), is_same_set(a,b), explored breadth-first to FIXPOINT on the real object "
    "(state key = every attribute of the object + the reference partition accumulated along the path); every is_same_set / "
    "find_parent answer of every transition is compared with the reference partition, and in every distinct state the "
    "representatives of all elements and all pairwise is_same_set answers (asked in sequence on one copy) are compared. "
    "dsu-instances: every sequence (length <= 3 quick / 4 thorough) over {create/replace instance k, union_sets(a,b) on instance k} "
    "for two live instances of sizes (3,3),(2,3),(3,2); after every step every instance answers for its own unions only. "
    "dsu-scripts: 6 adversarial union orders at every size 1..400 (quick) / 1..1300 (thorough), sizes 1..150/200 again under a "
    "recursion limit lowered to 80 frames, and 3000 / 30000 elements. "
    "checkers: every parent table PT(n) (every function nodes -> {none}+nodes, n up to the tier bound) x id labellings "
    "(identity int32/int64, +1, 10i+3, reversed, rotated, scattered); answers compared with: one weakly connected component / a directed "
    "cycle exists / every row that has a parent has a smaller-numbered one / no (non-root) node has more than two children; then n "
    "in-place single-entry edits of the same arrays and frame, all questions re-asked after each. checkers-size-sweep: chain, reversed "
    "chain, cycle, star, two chains, chain with a 3-child node, cycle with a tail at every size. tree-wrapper: every labelled tree "
    "LT(n) x every well-formedness-preserving re-parenting x {node handle, pid array, copy}. "
    "repair: every acyclic table with >= 2 roots (all row orders of every forest shape; plus single-root tables as the degenerate input) "
    "x id base {0,1,5} x fix_roots {False,'somas','nearest'} x {reset_index, no reset, sort_nodes} x geometries {generic, all-coincident, "
    "lattice} x {7 columns, +1 extra column}; nodes are recognised by a unique radius tag; copying forms are tested for aliasing "
    "both ways; read results are re-inspected after later calls. Non-trivial = at least 2 nodes / 2 elements; distinct = distinct "
    "table / history / DSU state."
)
ASSUMPTIONS = [
    "has_cyclic and is_sorted are exercised only on id labellings that are permutations of 0..n-1 (ids are has_cyclic's disjoint-set "
    "elements; the library numbers nodes 0..n-1 after reading); is_sorted is asserted only where 'parents precede children' read by row "
    "position and read by id agree (always when ids = positions), otherwise counted as skipped; is_single_root / is_bifurcate on "
    "arbitrary distinct non-negative ids",
    "a table row with pid == -1 is a root; any other pid names the row carrying that id (the library's own convention)",
    "repair oracle asserts exactly: one root, every node reaches it, the root is the file's first root, every original (child,parent) "
    "pair is kept, every column other than id/pid is unchanged; the attachment target of a former root is a diagnostic only; "
    "through read_swc(fix_roots=...) - the form the statement speaks of - the type column is asserted for roots of any type "
    "('keeps ... every node attribute'); for the stand-alone mark_roots_as_somas() the type column is asserted with the former "
    "roots already carrying the soma type, or with update_type=False (an explicit request to re-type is not the statement's business)",
    "all coordinates / radii used are multiples of 1/4, exactly representable in text and binary",
    "step horizon counts python line events inside swcgeom frames only; bound = 400 + 60*n*n events, >= 10x the largest count measured "
    "on the repaired tree for n <= 6 (211 events); deterministic, load-independent. The repair space and the size sweeps run without "
    "the horizon (their only unbounded loop, get_dsu, is covered under the horizon on every table) but under the kernel's watchdog",
    "lowered recursion limit = 80 frames above the harness: union by rank needs <= log2(200)+3 frames; any implementation whose "
    "recursion depth grows linearly also fails at the default limit on the 3000-element scripts",
    "the DSU state-graph exploration stops with a violation if an object's state keeps growing (transition budget ~8x the size of the "
    "graph of union-by-rank + path compression): exhaustiveness cannot be claimed for such an object",
]


# =============================================================================== helpers


def horizon(fn, max_events, *args, **kwargs):
    """Deterministic step bound: python line events executed inside swcgeom frames.

    Same idea as kernel.with_horizon, but frames of pandas/numpy are not traced (is_single_root spends
    thousands of line events inside pandas; only loops in the library can fail to terminate).
    """
    count = 0

    def local(frame, event, arg):
        nonlocal count
        if event == "line":
            count += 1
            if count > max_events:
                raise HorizonExceeded(f"more than {max_events} line events in swcgeom frames")
        return local

    def glob(frame, event, arg):
        if "/swcgeom/" in frame.f_code.co_filename:
            return local
        return None

    old = sys.gettrace()
    sys.settrace(glob)
    try:
        return fn(*args, **kwargs)
    finally:
        sys.settrace(old)


def _where(e):
    for fr in reversed(traceback.extract_tb(e.__traceback__)):
        if "/swcgeom/" in fr.filename:
            return f"{fr.filename.rsplit('/', 1)[-1]}:{fr.name}"
    return ""


def _txt(d):
    return d() if callable(d) else d


def call(R, what, klass_ctx, detail_ctx, fn, *args, bound=None, **kwargs):
    """Run a library call (optionally under the step horizon).  Returns (ok, value)."""
    R.trans()
    try:
        if bound is None:
            return True, fn(*args, **kwargs)
        return True, horizon(fn, bound, *args, **kwargs)
    except (kernel.CaseTimeout, KeyboardInterrupt):
        raise
    except HorizonExceeded as e:
        R.fail(f"hang:{what}", f"{_txt(detail_ctx)}: never returned ({e})", f"{what}:hang:{klass_ctx}")
    except BaseException as e:  # noqa: BLE001 - whatever the library raises is the observation
        R.fail(f"raises:{what}", f"{_txt(detail_ctx)}: {type(e).__name__}: {e} @ {_where(e)}",
               f"{what}:raises:{type(e).__name__}@{_where(e)}:{klass_ctx}")
    return False, None


# =============================================================================== (a) DSU


def _clone(d):
    """Exact copy of the real object: every attribute, lists copied (generic, no knowledge of field names)."""
    e = object.__new__(type(d))
    for k, v in vars(d).items():
        setattr(e, k, list(v) if type(v) is list else copy.deepcopy(v))
    return e


def _obj_key(d):
    return tuple((k, tuple(v) if isinstance(v, list) else repr(v)) for k, v in sorted(vars(d).items()))


def _merge(labels, a, b):
    la, lb = labels[a], labels[b]
    if la == lb:
        return labels
    lo, hi = (la, lb) if la < lb else (lb, la)
    return tuple(lo if x == hi else x for x in labels)


def check_dsu_graph(case, R):
    from swcgeom.utils import DisjointSetUnion

    n, cap = int(case[1]), int(case[2])
    if n < 2:
        R.trivial()
    events = [("u", a, b) for a in range(n) for b in range(n)]
    events += [("f", a, a) for a in range(n)]
    events += [("s", a, b) for a in range(n) for b in range(n)]
    ok, d0 = R.impl("DisjointSetUnion", DisjointSetUnion, n)
    if not ok:
        return
    budget = {"left": cap, "overflow": False}
    judged = set()

    def step(s, ev):
        if budget["left"] <= 0:
            budget["overflow"] = True
            return None
        budget["left"] -= 1
        d, labels = s[0], s[1]
        e = _clone(d)
        op, a, b = ev
        ret, exc = None, None
        try:
            if op == "u":
                ret = e.union_sets(a, b)
                labels = _merge(labels, a, b)
            elif op == "f":
                ret = e.find_parent(a)
            else:
                ret = e.is_same_set(a, b)
        except BaseException as x:  # noqa: BLE001
            exc = x
        return (e, labels, ret, exc)

    def canon(s):
        return (_obj_key(s[0]), s[1])

    def describe(prev, ev, nxt):
        return (f"n={n} state {dict(vars(prev[0]))} (joined blocks {prev[1]}) --{ev[0]}({ev[1]}{'' if ev[0] == 'f' else ',' + str(ev[2])})--> "
                f"{dict(vars(nxt[0]))}")

    def invariant(prev, ev, nxt, depth):
        e, labels, ret, exc = nxt
        op, a, b = ev
        opn = {"u": "union_sets", "f": "find_parent", "s": "is_same_set"}[op]
        if exc is not None:
            R.fail(f"raises:{opn}", describe(prev, ev, nxt) + f": {type(exc).__name__}: {exc}", f"dsu:{opn}:raises:{type(exc).__name__}")
            return
        if op == "s":
            want = labels[a] == labels[b]
            R.outcome("s", want)
            R.check(isinstance(ret, (bool, np.bool_)) and bool(ret) == want, "dsu:is_same_set",
                    lambda: describe(prev, ev, nxt) + f": answered {ret!r}, unions performed so far {'do' if want else 'do not'} connect {a} and {b}",
                    "dsu:is_same_set:" + ("false-negative" if want else "false-positive"))
        elif op == "f":
            good = isinstance(ret, (int, np.integer)) and 0 <= ret < n and labels[ret] == labels[a]
            R.check(good, "dsu:find_parent", lambda: describe(prev, ev, nxt) + f": representative {ret!r} is not in the block of {a}",
                    "dsu:find_parent:foreign-representative")
        key = canon(nxt)
        if key in judged:
            return
        judged.add(key)
        R.outcome("blocks", tuple(sorted(np.bincount(np.unique(labels, return_inverse=True)[1]).tolist())))
        # every distinct state: representatives agree exactly within blocks (queries run in sequence on one copy;
        # the fresh-copy variants are the 'f'/'s' transitions out of this state)
        c = _clone(e)
        try:
            reps = [c.find_parent(x) for x in range(n)]
        except BaseException as x:  # noqa: BLE001
            R.fail("raises:find_parent", f"n={n} state {dict(vars(e))}: {type(x).__name__}: {x}", f"dsu:find_parent:raises:{type(x).__name__}")
            return
        R.trans(n)
        for x in range(n):
            for y in range(x + 1, n):
                if (reps[x] == reps[y]) != (labels[x] == labels[y]):
                    R.fail("dsu:representatives", f"n={n} state {dict(vars(e))}: find_parent gives {reps} but the unions performed joined {labels}",
                           "dsu:representatives:" + ("split" if labels[x] == labels[y] else "merged"))
                    return
        c2 = _clone(e)
        try:
            ans = [[c2.is_same_set(x, y) for y in range(n)] for x in range(n)]
        except BaseException as x:  # noqa: BLE001
            R.fail("raises:is_same_set", f"n={n} state {dict(vars(e))}: {type(x).__name__}: {x}", f"dsu:is_same_set:raises:{type(x).__name__}")
            return
        R.trans(n * n)
        for x in range(n):
            for y in range(n):
                if bool(ans[x][y]) != (labels[x] == labels[y]):
                    R.fail("dsu:is_same_set", f"n={n} state {dict(vars(e))} after queries in sequence: is_same_set({x},{y}) = {ans[x][y]!r}, reference blocks {labels}",
                           "dsu:is_same_set:sequence:" + ("false-negative" if labels[x] == labels[y] else "false-positive"))
                    return

    init = (d0, tuple(range(n)), None, None)
    st = kernel.bfs(R, [init], lambda s: events, step, canon, invariant, max_depth=10 ** 9)
    R.note(f"dsu-graph n={n}: states", st["states"])
    R.note(f"dsu-graph n={n}: transitions", st["transitions"])
    if budget["overflow"] or not st["fixpoint"]:
        R.fail("dsu:state-graph-not-closed",
               f"n={n}: more than {cap} transitions without reaching a fixpoint ({st['states']} states so far): the object's state keeps growing, "
               "exhaustive exploration impossible", "dsu:state-graph-not-closed")


SCRIPTS = ("fwd", "bwd", "fwd-desc", "bwd-desc", "tournament", "tournament-rev")
LOWERED = 80  # frames above the harness allowed in the lowered-recursion-limit runs (>= 5x what logarithmic depth needs on <= 200 elements)


def _script(kind, m):
    if kind == "fwd":
        return [(i, i + 1) for i in range(m - 1)]
    if kind == "bwd":
        return [(i + 1, i) for i in range(m - 1)]
    if kind == "fwd-desc":
        return [(i, i + 1) for i in reversed(range(m - 1))]
    if kind == "bwd-desc":
        return [(i + 1, i) for i in reversed(range(m - 1))]
    out, k = [], 1
    while k < m:
        for j in range(0, m - k, 2 * k):
            out.append((j, j + k) if kind == "tournament" else (j + k, j))
        k *= 2
    return out


def _script_pairs(kind, N):
    """Unions in an adversarial order over the first m = 2N/3 elements; the last (N-m)/2 chained; the rest single."""
    m = max(1, 2 * N // 3)
    tail = N - (N - m) // 2
    return m, _script(kind, m) + [(i, i + 1) for i in range(tail, N - 1)]


# ------------------------------------------------------------------ TLA+ model of the structure, checked by TLC, replayed on the code


def check_dsu_tlc(case, R):
    """Model + conformance.  tla/DSU.tla (disjoint-set forest with full path compression and union by rank, written from the
    textbook; history variable `blocks` = the partition generated by the unions performed) is checked by TLC for N elements:
    on EVERY reachable model state the invariant 'same representative <=> connected by the unions so far' holds.  TLC dumps
    its complete labelled state graph; every transition of it is then replayed against the real DisjointSetUnion: the
    implementation is driven to the source state along a shortest model path from the initial state, the transition's
    operation is executed, and what the implementation lets a user OBSERVE (is_same_set for every pair, find_parent of every
    element, the operation's return value) must be what the model's target state says.  Comparing observations, not the
    private arrays, keeps the check sound for implementations that organise their forest differently; agreement of the
    private arrays with the model is counted as a diagnostic."""
    from collections import deque

    from mc import tlc
    from swcgeom.utils import DisjointSetUnion

    n = int(case[1])
    R.state("tlc", n)
    g = tlc.run("DSU", {"N": n}, ["TypeOK", "Inv", "RankBound"])
    if not g["ok"]:
        raise kernel.HarnessError("TLC reports an error in the MODEL tla/DSU.tla (not in the code under test):\n" + g["stdout"][-2000:])
    states, edges = g["states"], g["edges"]
    if len(states) != g["distinct"] or len(g["init"]) != 1:
        raise kernel.HarnessError(f"graph dump has {len(states)} states, TLC reports {g['distinct']} distinct; initial states {g['init']}")
    out_edges = {}
    for src, act, args, dst in edges:
        out_edges.setdefault(src, []).append((act, args, dst))
    # shortest model path to every state
    path = {g["init"][0]: ()}
    dq = deque(g["init"])
    while dq:
        u = dq.popleft()
        for act, args, v in out_edges.get(u, ()):
            if v not in path:
                path[v] = path[u] + ((act, args),)
                dq.append(v)
    if len(path) != len(states):
        raise kernel.HarnessError("some dumped states are not reachable in the dumped graph")

    def apply(d, act, args):
        a = args[0] - 1
        b = args[1] - 1 if len(args) > 1 else None
        if act == "Union":
            return d.union_sets(a, b)
        if act == "Find":
            return d.find_parent(a)
        return d.is_same_set(a, b)

    def blocks_of(sid):
        return {x - 1: blk for blk in tlc.set_of_sets(states[sid]["blocks"]) for x in blk}

    def observe(d):
        """Partition the implementation reports: is_same_set on copies (asking must not be needed to keep the answer right)."""
        rel = []
        for a in range(n):
            row = []
            for b in range(n):
                e = _clone(d)
                row.append(bool(e.is_same_set(a, b)))
            rel.append(row)
        return rel

    strong = 0
    for sid in states:
        R.state("tlc-state", sid)
        for act, args, dst in out_edges.get(sid, ()):
            ok, d = R.impl("DisjointSetUnion", DisjointSetUnion, n)
            if not ok:
                return
            try:
                for pa, pargs in path[sid]:
                    apply(d, pa, pargs)
                ret = apply(d, act, args)
            except BaseException as x:  # noqa: BLE001
                R.fail("dsu:tlc:raises", f"n={n}: model path {path[sid]} then {act}{args}: {type(x).__name__}: {x}", f"dsu:tlc-conformance:raises:{act}")
                continue
            R.trans(len(path[sid]) + 1)
            want = blocks_of(dst)
            rel = observe(d)
            bad = [(a, b) for a in range(n) for b in range(n) if rel[a][b] != (want[a] == want[b])]
            ctx = lambda: (f"n={n}: operations {[(p, tuple(x - 1 for x in q)) for p, q in path[sid] + ((act, args),)]} (0-based): model state "  # noqa: E731
                           f"{states[dst]}")
            R.check(not bad, "dsu:tlc-conformance", lambda: ctx() + f"; implementation answers is_same_set differently for pairs {bad[:6]}",
                    "dsu:tlc-conformance:is_same_set")
            if act == "Same":
                src_blocks = blocks_of(sid)
                R.check(bool(ret) == (src_blocks[args[0] - 1] == src_blocks[args[1] - 1]), "dsu:tlc-conformance", lambda: ctx() + f"; is_same_set returned {ret!r}",
                        "dsu:tlc-conformance:return:is_same_set")
            elif act == "Find":
                R.check(isinstance(ret, (int, np.integer)) and 0 <= ret < n and want[int(ret)] == want[args[0] - 1], "dsu:tlc-conformance",
                        lambda: ctx() + f"; find_parent returned {ret!r}, not an element of the block", "dsu:tlc-conformance:return:find_parent")
            # diagnostic only: do the private arrays coincide with the model's forest?
            try:
                if [x + 1 for x in d.element_parent] == tlc.seq_of_ints(states[dst]["parent"]) and list(d.rank) == tlc.seq_of_ints(states[dst]["rank"]):
                    strong += 1
            except Exception:  # noqa: BLE001
                pass
    R.note("tlc-distinct-states", g["distinct"])
    R.note("tlc-states-generated", g["generated"])
    R.note("tlc-transitions-replayed", len(edges))
    R.note("tlc-transitions-with-identical-private-arrays", strong)
    R.outcome(n, g["distinct"], len(edges))


def check_dsu_script(case, R):
    from swcgeom.utils import DisjointSetUnion

    kind, N, extra = case[1], int(case[2]), int(case[3])
    if N < 2:
        R.trivial()
    m, pairs = _script_pairs(kind, N)
    label = list(range(N))  # reference: relabel the smaller block
    members = {i: [i] for i in range(N)}
    kctx = f"script:{kind}" + (":lowered-recursion-limit" if extra else "")
    R.state("script", kind, N, extra)
    ok, d = call(R, "DisjointSetUnion", kctx, f"DisjointSetUnion({N})", DisjointSetUnion, N)
    if not ok:
        return

    def body():
        for a, b in pairs:
            ok, _ = call(R, "union_sets", kctx, f"script {kind} N={N} union_sets({a},{b})", d.union_sets, a, b)
            if not ok:
                return
            la, lb = label[a], label[b]
            if la != lb:
                if len(members[la]) < len(members[lb]):
                    la, lb = lb, la
                for x in members[lb]:
                    label[x] = la
                members[la].extend(members.pop(lb))
        probes = [(i, 0) for i in range(N)] + [(N - 1, i) for i in range(N)] + [(i, i + 1) for i in range(N - 1)] + [(m - 1, min(m, N - 1)), (0, m - 1)]
        for a, b in probes:
            ok, got = call(R, "is_same_set", kctx, f"script {kind} N={N} after {len(pairs)} unions: is_same_set({a},{b})", d.is_same_set, a, b)
            if not ok:
                return
            want = label[a] == label[b]
            if not R.check(bool(got) == want, "dsu:is_same_set", f"script {kind} N={N}: is_same_set({a},{b}) = {got!r}, want {want}",
                           f"dsu:script:{kind}:" + ("false-negative" if want else "false-positive")):
                return
        reps = {}
        for i in range(N):
            ok, r = call(R, "find_parent", kctx, f"script {kind} N={N}: find_parent({i})", d.find_parent, i)
            if not ok:
                return
            reps.setdefault(label[i], set()).add(int(r))
        R.check(all(len(v) == 1 for v in reps.values()) and len({next(iter(v)) for v in reps.values()}) == len(reps),
                "dsu:representatives", f"script {kind} N={N}: representatives are not one per block", f"dsu:script:{kind}:representatives")
        R.outcome(kind, len(reps) if N < 40 else -1)

    if extra:
        with kernel.recursion_limit(extra):
            body()
    else:
        body()


# two live instances (and instances created after others were used / replaced): no state may be shared

def check_dsu_instances(case, R):
    from swcgeom.utils import DisjointSetUnion

    sizes, seq = [int(x) for x in case[0]], [(int(k), str(op), int(a), int(b)) for k, op, a, b in case[1]]
    R.state(sizes, seq)
    inst, labels = [None, None], [None, None]
    hist = []

    def inspect(live):
        for j in (0, 1):
            if inst[j] is None:
                continue
            c = inst[j] if live else _clone(inst[j])
            n = sizes[j]
            for x in range(n):
                for y in range(n):
                    ok, got = call(R, "is_same_set", "instances", lambda: f"sizes {sizes} history {hist}: instance {j} is_same_set({x},{y})", c.is_same_set, x, y)
                    if not ok:
                        return False
                    want = labels[j][x] == labels[j][y]
                    if not R.check(bool(got) == want, "dsu:instances", lambda: f"sizes {sizes} history {hist}: instance {j} is_same_set({x},{y}) = {got!r}, "
                                   f"its own unions say {want} (blocks {labels[j]})", "dsu:instances:" + ("false-negative" if want else "false-positive")):
                        return False
        return True

    for k, op, a, b in seq:
        if op == "new" or inst[k] is None:
            ok, d = call(R, "DisjointSetUnion", "instances", lambda: f"sizes {sizes} history {hist}: DisjointSetUnion({sizes[k]})", DisjointSetUnion, sizes[k])
            if not ok:
                return
            inst[k], labels[k] = d, tuple(range(sizes[k]))
            hist.append(f"d{k}=new({sizes[k]})")
        if op == "u":
            ok, _ = call(R, "union_sets", "instances", lambda: f"sizes {sizes} history {hist}: d{k}.union_sets({a},{b})", inst[k].union_sets, a, b)
            if not ok:
                return
            labels[k] = _merge(labels[k], a, b)
            hist.append(f"d{k}.union({a},{b})")
        if not inspect(False):
            return
    inspect(True)
    R.outcome(tuple(len(set(l)) if l is not None else 0 for l in labels))


def _instance_alphabet(sizes):
    out = []
    for k in (0, 1):
        out.append((k, "new", 0, 0))
        out += [(k, "u", a, b) for a in range(sizes[k]) for b in range(sizes[k])]
    return out


# =============================================================================== (b) checkers

SCATTER = [7, 2, 9, 4, 11, 5, 13, 1]
ID_MAPS = ("ident", "plus1", "10i+3", "reversed", "rotated", "scattered")
PERMS = ("ident", "reversed", "rotated")  # id labellings that are permutations of 0..n-1


def id_map(kind, n):
    if kind == "ident":
        return list(range(n))
    if kind == "plus1":
        return [i + 1 for i in range(n)]
    if kind == "10i+3":
        return [10 * i + 3 for i in range(n)]
    if kind == "reversed":
        return [n - 1 - i for i in range(n)]
    if kind == "rotated":
        return [(i + 1) % n for i in range(n)]
    return SCATTER[:n]


# reference answers: plain graph algorithms on the parent list (linear time, no numpy, nothing shared with the library)


def ref_components(p):
    n = len(p)
    comp = list(range(n))

    def find(a):
        r = a
        while comp[r] != r:
            r = comp[r]
        while comp[a] != r:
            comp[a], a = r, comp[a]
        return r

    for i, q in enumerate(p):
        if q != -1:
            a, b = find(i), find(q)
            if a != b:
                comp[a] = b
    return len({find(i) for i in range(n)})


def ref_cyclic(p):
    """A directed cycle exists: some walk along parent pointers returns to a node of the same walk."""
    n = len(p)
    colour = [0] * n
    for i in range(n):
        path, j = [], i
        while j != -1 and colour[j] == 0:
            colour[j] = 1
            path.append(j)
            j = p[j]
        if j != -1 and colour[j] == 1:
            return True
        for k in path:
            colour[k] = 2
    return False


def ref_sorted(p):
    """Parents precede children: every row that has a parent has it at a smaller position."""
    return all(q == -1 or q < i for i, q in enumerate(p))


def ref_bifurcate(p, exclude_root):
    cnt = [0] * len(p)
    for q in p:
        if q != -1:
            cnt[q] += 1
    return all(c <= 2 or (exclude_root and p[i] == -1) for i, c in enumerate(cnt))


def table_class(p):
    if ref_cyclic(p):
        return "cyclic"
    return "tree" if sum(1 for q in p if q == -1) == 1 else "forest"


def _bound(n):
    return 400 + 60 * n * n


def _answer(R, what, got, want, kctx, dctx):
    if not isinstance(got, (bool, np.bool_)):
        R.fail(f"{what}:not-a-bool", f"{_txt(dctx)}: returned {got!r}", f"{what}:not-a-bool:{kctx}")
        return
    R.check(bool(got) == want, f"{what}:wrong-answer", lambda: f"{_txt(dctx)}: answered {bool(got)}, the table says {want}",
            f"{what}:answers-{bool(got)}:{kctx}")


def run_checkers(R, p, mk, m, topo, df, H, tag="", which=("single", "bif", "cyc", "sorted"), desc=None):
    """All four diagnoses of the CURRENT content of (topo, df), which encode parent list p under id labelling m."""
    from swcgeom.core import swc_utils as su

    n = len(p)
    cls = table_class(p)
    kctx = f"{cls}:{'ident' if mk == 'ident' else 'relabelled'}{tag}"
    dctx = lambda: desc or f"p={p} ids={topo[0].tolist()} pids={topo[1].tolist()} ({topo[0].dtype}){tag}"  # noqa: E731
    want_bif = {True: ref_bifurcate(p, True), False: ref_bifurcate(p, False)}

    if "single" in which and df is not None:
        before = (df["id"].tolist(), df["pid"].tolist())
        ok, got = call(R, "is_single_root", kctx, dctx, su.is_single_root, df, bound=H)
        if ok:
            _answer(R, "is_single_root", got, ref_components(p) == 1, kctx, dctx)
        R.check((df["id"].tolist(), df["pid"].tolist()) == before, "is_single_root:input-modified", dctx, "is_single_root:input-modified")

    snap = (topo[0].tolist(), topo[1].tolist())
    if "bif" in which:
        for ex in (True, False):
            kb = f"{kctx}:exclude_root={ex}:" + ("root>2" if not want_bif[False] and want_bif[True] else "nonroot>2" if not want_bif[True] else "all<=2")
            ok, got = call(R, "is_bifurcate", kb, dctx, su.is_bifurcate, topo, exclude_root=ex, bound=H)
            if ok:
                _answer(R, "is_bifurcate", got, want_bif[ex], kb, lambda: dctx() + f" exclude_root={ex}")
        if mk == "ident":
            ok, got = call(R, "is_bifurcate", kctx + ":default", dctx, su.is_bifurcate, topo, bound=H)
            if ok:
                _answer(R, "is_bifurcate", got, want_bif[True], kctx + ":default-excludes-root", lambda: dctx() + " (default exclude_root)")

    if mk in PERMS:
        # has_cyclic: ids are its disjoint-set elements, i.e. a permutation of 0..n-1
        if "cyc" in which:
            ok, got = call(R, "has_cyclic", kctx, dctx, su.has_cyclic, topo, bound=H)
            if ok:
                _answer(R, "has_cyclic", got, ref_cyclic(p), kctx, dctx)
        # is_sorted: 'parents precede children' by row and by id; asserted where both readings agree
        if "sorted" in which:
            by_row = ref_sorted(p)
            by_id = all(q == -1 or m[q] < m[i] for i, q in enumerate(p))
            if by_row != by_id:
                R.skip("is_sorted: row order and id order disagree on this labelling")
            else:
                ok, got = call(R, "is_sorted", kctx, dctx, su.is_sorted, topo, bound=H)
                if ok:
                    _answer(R, "is_sorted", got, by_row, kctx + (":reachable-from-0" if _all_reach0(p) else ":not-all-under-node-0"), dctx)
    R.check((topo[0].tolist(), topo[1].tolist()) == snap, "checker:input-modified", dctx, "checker:input-modified")


def check_table(case, R):
    import pandas as pd

    from swcgeom.core.swc_utils import checker as ck

    p, edits, maps = [int(q) for q in case[0]], bool(case[1]), [str(x) for x in case[2]]
    n = len(p)
    if n < 2:
        R.trivial()
    R.state(p)
    cls = table_class(p)
    want_single = ref_components(p) == 1
    want_bif = {True: ref_bifurcate(p, True), False: ref_bifurcate(p, False)}
    R.outcome(want_single, ref_cyclic(p), ref_sorted(p), want_bif[True], want_bif[False])
    H = _bound(n)

    live = None
    for mk in maps:
        m = id_map(mk, n)
        ids = [m[i] for i in range(n)]
        pids = [m[q] if q != -1 else -1 for q in p]
        for dt in ((np.int32, np.int64) if mk == "ident" else (np.int64,)):
            topo = (np.array(ids, dtype=dt), np.array(pids, dtype=dt))
            df = pd.DataFrame({"id": topo[0].copy(), "pid": topo[1].copy()})
            run_checkers(R, p, mk, m, topo, df, H)
            if mk == "ident" and dt is np.int32:
                live = (topo, df)

    # --- deprecated aliases (ids = positions)
    ids = np.arange(n, dtype=np.int64)
    df = pd.DataFrame({"id": ids, "pid": np.array(p, dtype=np.int64)})
    dctx = f"p={p}"
    ok, got = call(R, "check_single_root", cls, dctx, ck.check_single_root, df, bound=H)
    if ok:
        _answer(R, "check_single_root", got, want_single, cls, dctx)
    for ex in (True, False):
        ok, got = call(R, "is_binary_tree(df)", cls, dctx, ck.is_binary_tree, df, ex, bound=H)
        if ok:
            _answer(R, "is_binary_tree(df)", got, want_bif[ex], f"{cls}:exclude_root={ex}", dctx + f" exclude_root={ex}")

    # --- query -> edit the same arrays / frame in place -> query again: answers describe the CURRENT table
    if edits:
        topo, df = live
        cur = list(p)
        for i in range(n):
            v = (cur[i] + 2) % (n + 1) - 1  # next value in -1, 0, .., n-1 (cyclically)
            cur[i] = v
            topo[1][i] = v
            df.loc[i, "pid"] = v
            run_checkers(R, cur, "ident", list(range(n)), topo, df, H, tag=":after-in-place-edit")


def _all_reach0(p):
    n = len(p)
    for i in range(n):
        j, steps = i, 0
        while j != 0 and p[j] != -1 and steps <= n:
            j = p[j]
            steps += 1
        if j != 0:
            return False
    return True


# --------------------------------------------------------------------------- Tree-level wrapper, query-edit-query


def check_tree_wrapper(case, R):
    """tree_utils.is_binary_tree on a real Tree: fresh, and after every admissible single re-parenting made in place
    (through a node handle, through the pid array, on a copy) once the query has been answered for the old table."""
    from swcgeom.core import tree_utils as tu

    from mc import build

    p = [int(q) for q in case]
    n = len(p)
    if n < 2:
        R.trivial()
    R.state(p)

    def ask(t, q, tag):
        for ex in (True, False):
            ok, got = call(R, "tree_utils.is_binary_tree", "tree" + tag, f"p={q} exclude_soma={ex}{tag}", tu.is_binary_tree, t, ex)
            if ok:
                _answer(R, "tree_utils.is_binary_tree", got, ref_bifurcate(q, ex), f"tree:exclude_soma={ex}{tag}", f"p={q} exclude_soma={ex}{tag}")
        ok, got = call(R, "tree_utils.is_binary_tree", "tree" + tag, f"p={q} (default){tag}", tu.is_binary_tree, t)
        if ok:
            _answer(R, "tree_utils.is_binary_tree", got, ref_bifurcate(q, True), f"tree:default{tag}", f"p={q} (default exclude_soma){tag}")

    t = build.make_tree(p)
    ask(t, p, "")
    R.outcome(ref_bifurcate(p, True), ref_bifurcate(p, False))
    for i, j in build.reparent_edits(p):
        for how in build.EDIT_HOWS:
            t = build.make_tree(p)
            obj, q, other, oq = build.apply_reparent(t, p, (i, j, how), warm=lambda tt: (tu.is_binary_tree(tt, True), tu.is_binary_tree(tt, False)))
            R.trans(3)
            ask(obj, q, f":after-edit:{how}")
            if other is not None:
                ask(other, oq, f":original-after-copy-edited:{how}")


# --------------------------------------------------------------------------- size sweep

SHAPES = ("chain", "rchain", "cycle", "star", "two-chains", "tri-tail", "lollipop")


def shape_table(kind, N):
    if kind == "chain":
        return [i - 1 for i in range(N)]
    if kind == "rchain":  # root last, every child before its parent
        return [i + 1 for i in range(N - 1)] + [-1]
    if kind == "cycle":
        return [(i + 1) % N for i in range(N)]
    if kind == "star":
        return [-1] + [0] * (N - 1)
    if kind == "two-chains":
        h = N // 2
        return [i - 1 for i in range(h)] + [-1 if i == h else i - 1 for i in range(h, N)]
    if kind == "tri-tail":  # a chain whose last inner node has three children
        if N < 5:
            return [i - 1 for i in range(N)]
        return [i - 1 for i in range(N - 3)] + [N - 4] * 3
    # lollipop: a chain hanging below a cycle of 3 (no root at all)
    if N < 4:
        return [(i + 1) % N for i in range(N)]
    return [1, 2, 0] + [i - 1 for i in range(3, N)]


def check_sweep(case, R):
    """One table shape at one size, every size of a range: thresholds (recursion depth, passes, fast paths)."""
    import pandas as pd

    kind, N, extra = str(case[0]), int(case[1]), int(case[2])
    p = shape_table(kind, N)
    R.state(kind, N, extra)
    R.outcome(kind, ref_components(p) == 1, ref_cyclic(p), ref_sorted(p), ref_bifurcate(p, True), ref_bifurcate(p, False))
    topo = (np.arange(N, dtype=np.int32), np.array(p, dtype=np.int32))
    tag = f":sweep:{kind}" + (":lowered-recursion-limit" if extra else "")
    desc = f"table shape {kind} with {N} nodes (ids = positions)" + (f", recursion limit lowered to {extra} frames above the harness" if extra else "")
    # step horizon: all four diagnoses are (near-)linear in N; a loop that never ends (e.g. a traversal caught in a cycle)
    # must be reported as a hang, not left to the wall-clock watchdog of every single case
    H = 20000 + 600 * N
    if extra:
        # numpy-only checkers under a lowered recursion limit (pandas itself needs a deeper stack)
        with kernel.recursion_limit(extra):
            run_checkers(R, p, "ident", list(range(N)), topo, None, H, tag=tag, which=("cyc", "sorted", "bif"), desc=desc)
    else:
        df = pd.DataFrame({"id": np.arange(N, dtype=np.int64), "pid": np.array(p, dtype=np.int64)})
        run_checkers(R, p, "ident", list(range(N)), topo, df, H, tag=tag, desc=desc)


# =============================================================================== (c) forests and repair

GEOMS = ("generic", "coincident", "lattice")
_GENERIC = [(1.25, -3.5, 2.75), (4.5, 0.25, -1.5), (-2.75, 5.0, 0.5), (7.25, 3.75, 6.0), (-5.5, -1.25, -4.25), (0.75, 8.5, -7.0), (9.0, -6.25, 3.25)]


def _validate_generic():
    ds = sorted(sum((a - b) ** 2 for a, b in zip(u, v)) ** 0.5 for u, v in itertools.combinations(_GENERIC, 2))
    assert all(b - a > 1e-3 for a, b in zip(ds, ds[1:])), "generic geometry has a distance tie (harness bug)"


_validate_generic()


def make_rows(p, geom, root_types):
    """Per-node attribute rows; r is the unique tag. root_types: 'soma' (roots type 1) or 'varied'."""
    rows = []
    for i in range(len(p)):
        if geom == "generic":
            x, y, z = _GENERIC[i]
        elif geom == "coincident":
            x, y, z = 1.0, 2.0, 3.0
        else:
            x, y, z = float(i % 3), float(i // 3), 0.0
        ty = 2 + i % 3
        if root_types == "soma" and p[i] == -1:
            ty = 1
        rows.append({"type": ty, "x": x, "y": y, "z": z, "r": 0.5 + 0.25 * i, "a": 10.0 - 1.5 * i})
    return rows


def swc_text(p, rows, base, extra):
    out = ["# generated\n"]
    for i, q in enumerate(p):
        f = rows[i]
        line = f"{i + base} {f['type']} {f['x']!r} {f['y']!r} {f['z']!r} {f['r']!r} {q + base if q != -1 else -1}"
        if extra:
            line += f" {f['a']!r}"
        out.append(line + "\n")
    return "".join(out)


def make_df(p, rows, base, extra):
    import pandas as pd

    n = len(p)
    d = {
        "id": [i + base for i in range(n)],
        "type": [rows[i]["type"] for i in range(n)],
        "x": [rows[i]["x"] for i in range(n)],
        "y": [rows[i]["y"] for i in range(n)],
        "z": [rows[i]["z"] for i in range(n)],
        "r": [rows[i]["r"] for i in range(n)],
        "pid": [q + base if q != -1 else -1 for q in p],
    }
    if extra:
        d["a"] = [rows[i]["a"] for i in range(n)]
    return pd.DataFrame.from_dict(d)


def df_snapshot(df):
    return (tuple(df.columns), tuple(str(t) for t in df.dtypes), tuple(tuple(df[c].tolist()) for c in df.columns), tuple(df.index.tolist()))


def read_relation(R, what, kctx, p, rows, df, extra, assert_types=True):
    """Translate the returned table back to the file's nodes.  Returns parent list over ORIGINAL rows, or None."""
    n = len(p)
    need = ["id", "type", "x", "y", "z", "r", "pid"] + (["a"] if extra else [])
    dctx = lambda: f"{what} p={p}: returned\n{df.to_string()}"  # noqa: E731
    if not R.check(all(c in df.columns for c in need), "repair:columns-lost", dctx, f"{what}:columns-lost:{kctx}"):
        return None
    cols = {c: df[c].tolist() for c in need}
    if not R.check(len(cols["id"]) == n, "repair:row-count", dctx, f"{what}:row-count:{kctx}"):
        return None
    tag2orig = {rows[i]["r"]: i for i in range(n)}
    orig = [tag2orig.get(v) for v in cols["r"]]
    if not R.check(None not in orig and sorted(orig) == list(range(n)), "repair:nodes-changed", dctx, f"{what}:nodes-changed:{kctx}"):
        return None
    for j in range(n):
        for k in ["x", "y", "z"] + (["type"] if assert_types else []) + (["a"] if extra else []):
            if cols[k][j] != rows[orig[j]][k]:
                R.fail("repair:attribute-changed", dctx() + f"\nnode with r={cols['r'][j]}: column {k} = {cols[k][j]!r}, file has {rows[orig[j]][k]!r}",
                       f"{what}:attribute-changed:{k if k in ('type', 'a') else 'xyz'}:{kctx}")
                return None
    ids = [int(v) for v in cols["id"]]
    if not R.check(len(set(ids)) == n, "repair:duplicate-ids", dctx, f"{what}:duplicate-ids:{kctx}"):
        return None
    pos = {v: j for j, v in enumerate(ids)}
    got = [None] * n
    for j in range(n):
        q = int(cols["pid"][j])
        if q == -1:
            got[orig[j]] = -1
        elif q in pos:
            got[orig[j]] = orig[pos[q]]
        else:
            R.fail("repair:dangling-parent", dctx() + f"\nrow {j} names parent id {q}, which no row carries", f"{what}:dangling-parent:{kctx}")
            return None
    return got


def judge(R, what, kctx, p, rows, df, extra, repaired, geom, mode, assert_types=True):
    """fix off: the parent relation is the file's.  repair: single-rooted, first root kept, every edge kept."""
    n = len(p)
    got = read_relation(R, what, kctx, p, rows, df, extra, assert_types)
    if got is None:
        return False
    dctx = lambda: f"{what} p={p}: parent relation over the file's rows is {got}\n{df.to_string()}"  # noqa: E731
    r0 = p.index(-1)
    if not repaired:
        return R.check(got == p, "relation-changed", dctx, f"{what}:relation-changed:{kctx}")
    lost = [(i, p[i]) for i in range(n) if p[i] != -1 and got[i] != p[i]]
    if not R.check(not lost, "repair:edge-lost", lambda: dctx() + f"\noriginal (child,parent) pairs no longer present: {lost}", f"{what}:edge-lost:{kctx}"):
        return False
    if not R.check(got[r0] == -1, "repair:first-root-not-kept", lambda: dctx() + f"\nfile's first root is row {r0}", f"{what}:first-root-not-kept:{kctx}"):
        return False
    roots = [i for i in range(n) if got[i] == -1]
    if not R.check(roots == [r0], "repair:not-single-rooted", lambda: dctx() + f"\nroots {roots}", f"{what}:not-single-rooted:{kctx}"):
        return False
    if not R.check(not ref_cyclic(got), "repair:cycle", dctx, f"{what}:cycle:{kctx}"):
        return False
    # diagnostics only: where former roots were attached
    for i in range(n):
        if p[i] == -1 and i != r0:
            if mode == "somas":
                R.note("somas: former root attached to " + ("the first root" if got[i] == r0 else "another node"))
            elif geom == "generic":
                own = _descendants(p, i)
                cand = [j for j in range(n) if j not in own]
                d = lambda j: sum((rows[i][k] - rows[j][k]) ** 2 for k in "xyz")  # noqa: E731
                best = min(cand, key=d)
                R.note("nearest: former root attached to " + ("the nearest foreign node" if got[i] == best else "another node"))
    return True


def _descendants(p, i):
    out, grew = {i}, True
    while grew:
        grew = False
        for j, q in enumerate(p):
            if q in out and j not in out:
                out.add(j)
                grew = True
    return out


READ_OPTS = (("reset", {}), ("noreset", {"reset_index": False}), ("sort", {"sort_nodes": True}))


def check_forest(case, R):
    """No step horizon here: the only unbounded loop on these paths (get_dsu) is exercised under the horizon on
    every table, forests included, in the `checkers` space; the kernel's wall-clock watchdog still applies."""
    from swcgeom.core import swc_utils as su

    p = [int(q) for q in case[0]]
    base, variants = int(case[1]), [(str(g), bool(e)) for g, e in case[2]]
    n = len(p)
    R.state(p, base)
    r0 = p.index(-1)
    multi = sum(1 for q in p if q == -1) > 1
    kbase = ("" if multi else "single-root-input:") + f"{'root-first' if r0 == 0 else 'root-not-first'}:{'base0' if base == 0 else 'base>0'}"
    R.outcome(sum(1 for q in p if q == -1), r0 == 0, base == 0)

    for geom, extra in variants:
        # ---------------------------------------------------------------- read_swc
        rows = make_rows(p, geom, "soma")
        text = swc_text(p, rows, base, extra)
        # The statement: every repair mode "keeps ... every node attribute" - the type column included, whatever type the
        # file's roots carry.  So the file is also read with roots typed 2/3/4 (one option set), judged with types asserted.
        vrows = make_rows(p, geom, "varied")
        vtext = swc_text(p, vrows, base, extra)
        for mode in (False, "somas", "nearest"):
            what = f"read_swc[fix_roots={mode!r},reset,roots-not-typed-soma]"
            kw = {"extra_cols": ["a"]} if extra else {}
            with warnings.catch_warnings():
                warnings.simplefilter("ignore")
                ok, res = call(R, what, kbase, lambda: f"{what} geometry={geom} file:\n{vtext}", su.read_swc, io.StringIO(vtext), fix_roots=mode, **kw)
            if ok:
                judge(R, what, kbase, p, vrows, res[0], extra, mode is not False or not multi, geom, mode)
        for mode in (False, "somas", "nearest"):
            for oname, opts in READ_OPTS:
                if mode is False and oname == "sort" and multi:
                    continue  # sort_nodes requires a single root by contract; not part of the statement
                what = f"read_swc[fix_roots={mode!r},{oname}]"
                kw = dict(opts)
                if extra:
                    kw["extra_cols"] = ["a"]
                with warnings.catch_warnings(record=True) as wlog:
                    warnings.simplefilter("always")
                    ok, res = call(R, what, kbase, lambda: f"{what} geometry={geom} file:\n{text}", su.read_swc, io.StringIO(text), fix_roots=mode, **kw)
                if not ok:
                    continue
                df, comments = res
                good = judge(R, what, kbase, p, rows, df, extra, mode is not False or not multi, geom, mode)
                if oname == "reset" and (geom, extra) == variants[0]:
                    R.retain(what, lambda v=df: {str(c): v[c].to_numpy() for c in v.columns})
                msgs = [str(w.message) for w in wlog]
                simple = any("not a simple tree" in s for s in msgs)
                if mode is False and multi:
                    R.check(simple, "read:no-warning", f"{what} p={p} base={base}: several roots but no 'not a simple tree' warning; warnings={msgs}",
                            f"{what}:no-warning:{kbase}")
                elif good:  # repaired, or a single-root file to begin with
                    R.check(not simple, "read:spurious-warning", f"{what} p={p} base={base}: the returned tree is connected and single-rooted but "
                            f"'not a simple tree' was warned; warnings={msgs}", f"{what}:spurious-warning:{kbase}")
                R.check(comments == [" generated"], "read:comments", f"{what}: comments {comments}", f"{what}:comments")

        # ---------------------------------------------------------------- stand-alone forms
        varied = make_rows(p, geom, "varied")
        forms = [
            # (name, fn, rows, repaired?, mode, types asserted?)
            ("mark_roots_as_somas(update_type=False)", lambda d: su.mark_roots_as_somas(d, update_type=False), varied, True, "somas", True),
            # default update_type=1: whether former roots become type 1 is not the statement's business -> roots are somas already
            ("mark_roots_as_somas", su.mark_roots_as_somas, rows, True, "somas", True),
            ("link_roots_to_nearest", su.link_roots_to_nearest, rows, True, "nearest", True),
            ("reset_index", su.reset_index, rows, False, None, True),
        ]
        for name, fn, rws, repaired, mode, atypes in forms:
            df = make_df(p, rws, base, extra)
            snap = df_snapshot(df)
            before = df.copy()
            ok, out = call(R, name, kbase, lambda: f"{name} geometry={geom} on\n{before.to_string()}", fn, df)
            unchanged = R.check(df_snapshot(df) == snap, "repair:input-modified",
                                lambda: f"{name} p={p} base={base}: the copying form changed its argument:\n{df.to_string()}", f"{name}:input-modified")
            if ok and R.check(out is not df and hasattr(out, "columns"), "repair:copying-form-returns-input", f"{name}: returned {type(out).__name__}",
                              f"{name}:return-value"):
                judge(R, name, kbase, p, rws, out, extra, repaired or not multi, geom, mode, atypes)
                if unchanged:
                    # behavioural aliasing: writing into the result must not reach the argument, and vice versa
                    for c in ("pid", "type", "x"):
                        out.loc[:, c] = out[c] + 1
                    R.check(df_snapshot(df) == snap, "repair:result-aliases-input", lambda: f"{name} p={p}: writing into the returned frame changed the argument",
                            f"{name}:result-aliases-input")
                    osnap = df_snapshot(out)
                    for c in ("pid", "type", "x"):
                        df.loc[:, c] = df[c] + 1
                    R.check(df_snapshot(out) == osnap, "repair:result-aliases-input", lambda: f"{name} p={p}: writing into the argument changed the returned frame",
                            f"{name}:result-aliases-input")
        inplace = [
            ("mark_roots_as_somas_", (su.mark_roots_as_somas_,), True, "somas"),
            ("link_roots_to_nearest_", (su.link_roots_to_nearest_,), True, "nearest"),
            ("reset_index_", (su.reset_index_,), False, None),
            # repair then re-base: the pipeline read_swc runs, on frames
            ("mark_roots_as_somas_+reset_index_", (su.mark_roots_as_somas_, su.reset_index_), True, "somas"),
            ("link_roots_to_nearest_+reset_index_", (su.link_roots_to_nearest_, su.reset_index_), True, "nearest"),
        ]
        for name, fns, repaired, mode in inplace:
            df = make_df(p, rows, base, extra)
            ok = True
            for fn in fns:
                before = df.copy()
                ok = ok and call(R, name, kbase, lambda: f"{name} ({fn.__name__}) geometry={geom} on\n{before.to_string()}", fn, df)[0]
            if ok:
                judge(R, name, kbase, p, rows, df, extra, repaired or not multi, geom, mode)
        # re-base first, repair afterwards (what a caller does who read the file with fix_roots=False and decides later), on the frame
        # as given and on a frame whose ROWS ARE NOT IN ID ORDER (rows reversed: ids descend) - the frames pass from one helper to the next
        n = len(p)
        p_rev = [-1 if p[n - 1 - k] == -1 else n - 1 - p[n - 1 - k] for k in range(n)]
        rows_rev = [rows[n - 1 - k] for k in range(n)]
        for tag, pp, rr, frame in (("", p, rows, make_df(p, rows, base, extra)),
                                   (":rows-not-in-id-order", p_rev, rows_rev, make_df(p, rows, base, extra).iloc[::-1].reset_index(drop=True))):
            for rname, rfn, mode in (("mark_roots_as_somas", su.mark_roots_as_somas, "somas"), ("link_roots_to_nearest", su.link_roots_to_nearest, "nearest")):
                name = f"reset_index->{rname}{tag}"
                ok, step1 = call(R, name, kbase, lambda: f"{name} (reset_index) geometry={geom} on\n{frame.to_string()}", su.reset_index, frame)
                if not ok:
                    continue
                ok, out = call(R, name, kbase, lambda: f"{name} ({rname}) geometry={geom} on\n{step1.to_string()}", rfn, step1)
                if ok and hasattr(out, "columns"):
                    judge(R, name, kbase, pp, rr, out, extra, True, geom, mode)


# =============================================================================== spaces


def _acyclic_tables(n):
    """Every acyclic parent table with at least one root (single-root trees in every numbering, and forests)."""
    for p in S.parent_tables(n):
        if -1 in p and not ref_cyclic(p):
            yield p


def spaces(tier, seed):
    quick = tier == "quick"
    dsu_n = 6 if quick else 7
    tlc_n = 6 if quick else 7
    pt_n = 5 if quick else 6
    edit_n = 4 if quick else 5
    forest_n = 5 if quick else 6
    single_n = 4 if quick else 5
    sweep_hi, sweep_low = (300, 120) if quick else (1200, 200)
    script_hi, script_low, script_big = (400, 150, (3000,)) if quick else (1300, 200, (3000, 30000))
    wrapper_n = 5 if quick else 6
    hist_len = 3 if quick else 4
    full = [("generic", False), ("generic", True), ("coincident", False), ("lattice", False)]
    lean = [("generic", False)]
    mid = [("generic", False), ("coincident", True)]
    # transition budget per graph, ~8x what union-by-rank with path compression needs (3, 30, 210, 2772, 28380, 370266, 4582095)
    caps = {1: 10 ** 3, 2: 10 ** 3, 3: 5000, 4: 50000, 5: 300000, 6: 3 * 10 ** 6, 7: 4 * 10 ** 7}

    def gen_dsu():
        for n in range(1, dsu_n + 1):
            yield ("graph", n, caps[n])

    def gen_scripts():
        for N in range(1, script_hi + 1):  # EVERY size: crosses the default recursion limit in thorough
            for kind in SCRIPTS:
                yield ("script", kind, N, 0)
        for N in range(1, script_low + 1):
            for kind in SCRIPTS:
                yield ("script", kind, N, LOWERED)
        for N in script_big:
            for kind in SCRIPTS:
                yield ("script", kind, N, 0)

    def gen_instances():
        for sizes in ((3, 3), (2, 3), (3, 2)):
            alpha = _instance_alphabet(sizes)
            for L in range(1, (hist_len if sizes == (3, 3) else 3) + 1):
                for seq in itertools.product(alpha, repeat=L):
                    yield (sizes, seq)

    def gen_tables():
        for n in range(1, pt_n + 1):
            for p in S.parent_tables(n):
                yield (p, n <= edit_n, ID_MAPS if n <= 5 else ("ident", "10i+3", "reversed", "rotated"))

    def gen_wrapper():
        for n in range(1, wrapper_n + 1):
            yield from S.labelled_trees(n)

    def gen_sweep():
        for N in range(1, sweep_hi + 1):
            for kind in SHAPES:
                yield (kind, N, 0)
        for N in range(1, sweep_low + 1):
            for kind in SHAPES:
                yield (kind, N, LOWERED)

    def gen_forests():
        for n in range(1, forest_n + 1):
            big = n > (4 if quick else 5)
            for p in _acyclic_tables(n):
                multi = sum(1 for q in p if q == -1) > 1
                if not multi and n > single_n:
                    continue
                for base in ((0, 1) if big else (0, 1, 5)):
                    yield (p, base, lean if big else full if multi else mid)

    return [
        Space.of("dsu-graph", gen_dsu, check_dsu_graph, bounds={"elements_max": dsu_n, "operations": "union_sets(a,b) all ordered pairs, find_parent(a), is_same_set(a,b)",
                                                                 "depth": "unbounded (BFS to fixpoint)"}, case_timeout=3000.0),
        Space.of("dsu-tlc-model-conformance", lambda: [("tlc", k) for k in range(2, tlc_n + 1)], check_dsu_tlc, case_timeout=3000.0,
                 bounds={"model": "tla/DSU.tla (TLC 1.8.0: invariants TypeOK, Inv, RankBound on every reachable state)", "elements": list(range(2, tlc_n + 1)),
                         "replay": "every transition of TLC's dumped state graph, implementation driven along a shortest model path, observations compared"}),
        Space.of("dsu-instances", gen_instances, check_dsu_instances,
                 bounds={"instances": 2, "sizes": [[3, 3], [2, 3], [3, 2]], "alphabet": "new(k), union_sets on instance k (all ordered pairs)",
                         "history_length": {"(3,3)": hist_len, "others": 3}}),
        Space.of("dsu-scripts", gen_scripts, check_dsu_script,
                 bounds={"orders": list(SCRIPTS), "every_size_up_to": script_hi, "every_size_up_to_with_lowered_recursion_limit": script_low,
                         "lowered_limit_frames": LOWERED, "large_sizes": list(script_big)}, case_timeout=600.0),
        Space.of("checkers", gen_tables, check_table, bounds={"PT_max_nodes": pt_n, "id_maps": list(ID_MAPS), "id_maps_at_6_nodes": ["ident", "10i+3", "reversed", "rotated"], "in_place_edit_rounds_up_to_nodes": edit_n}),
        Space.of("checkers-size-sweep", gen_sweep, check_sweep,
                 bounds={"shapes": list(SHAPES), "every_size_up_to": sweep_hi, "every_size_up_to_with_lowered_recursion_limit": sweep_low}, case_timeout=600.0),
        Space.of("tree-wrapper", gen_wrapper, check_tree_wrapper, bounds={"LT_max_nodes": wrapper_n, "edits": "every single re-parenting that keeps the tree well-formed",
                                                                          "how": ["handle", "column", "copy-then-handle"]}),
        Space.of("repair", gen_forests, check_forest, bounds={"forest_max_nodes": forest_n, "single_root_input_max_nodes": single_n, "id_bases": "0, 1, 5 (largest size: 0, 1)",
                                                              "fix_roots": [False, "somas", "nearest"], "read_options": [o for o, _ in READ_OPTS],
                                                              "geometries": list(GEOMS), "extra_column": [False, True],
                                                              "largest_size": "generic geometry, 7 columns only"}),
    ]
