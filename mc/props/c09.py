"""C09 — node, path, branch and segment views are faithful windows onto their tree."""

from __future__ import annotations

import numpy as np

from mc import build, kernel, ref, spaces as S
from mc.kernel import Space

PROPERTY = "C09"
RULE = (
    "static: every labelled tree LT(n) up to the tier bound; per tree every integer index in [-n-1, n] (python int and numpy "
    "integer), every slice with start/stop in {None,-n-1..n+1} x step in {None,1,2,3,-1,-2}, string keys, iteration, node(), "
    "parent()/children() on the tree, and the same index/slice space on every root-to-tip path, every branch (get_branches and "
    "Node.branch) and every compartment; get_segments/get_compartments of the tree and of every branch; adjacency matrix; "
    "detach()/copy() of every object followed by writes on either side (views re-read while the tree is edited; copies and detached "
    "objects retained and re-inspected after later cases). query-edit-query: every LT(n) x every admissible single re-parenting x 3 edit "
    "routes, all structural queries warmed before and repeated after. histories: explicit-state BFS over event sequences from "
    "every first event on each base tree: obtain node handle / path / branch / segment / segment of a branch / node of a path, "
    "copy(), detach(), attribute write through a Tree.Node (or detached Node) handle, in-place column write into any store, comment "
    "append; every state is rebuilt by replaying its history on fresh real objects and every live object is read back and compared "
    "with a list model (store = columns, view = (store, index list), copy/detach = snapshot). distinct = distinct model state; "
    "non-trivial = at least one live view or second store."
)
ASSUMPTIONS = [
    "values are compared as Python numbers after tolist(); all written values (7, 9) and all initial attributes are exactly representable",
    "Path.id()/Path.pid() (documented consecutive renumbering) and the id/pid columns of detached objects are not asserted, only required to stay stable",
    "writes through Path.Node / Branch.Node handles are outside the statement (node handles of a tree) and are not part of the event alphabet; their present behaviour (dropped) is recorded as a note",
    "order of the segments inside get_segments() is not asserted (compared as multisets); order inside a segment is (parent, child)",
    "BFS state identity is the model state: two histories with the same model state are explored once (any hidden aliasing created by an event is present in every history containing it and is exposed by the writes that follow)",
]

STD = ("id", "type", "x", "y", "z", "r", "pid")
STEPS = (None, 1, 2, 3, -1, -2)


# ------------------------------------------------------------------ construction / reading


def make(p, bank_k=0):
    n = len(p)
    xyz, _ = build.generic_geometry(n, bank_k)
    r = [0.25 + 0.125 * i for i in range(n)]
    types = [1 + i for i in range(n)]
    t = build.make_tree(p, xyz=xyz, r=r, types=types, extra={"e": np.array([100.5 + i for i in range(n)], dtype=np.float64)},
                        comments=["c0"])
    return t


def store_cols(s):
    return {k: s.get_ndata(k).tolist() for k in s.keys()}


def _num(v):
    return v.item() if isinstance(v, np.generic) else v


def read_node(h, keys):
    """Everything a node handle reports, as plain Python."""
    out = {k: _num(h[k]) for k in keys}
    props = {"id": h.id, "type": h.type, "x": h.x, "y": h.y, "z": h.z, "r": h.r, "pid": h.pid}
    out["__props"] = {k: _num(v) for k, v in props.items()}
    out["__xyz"] = h.xyz().tolist()
    out["__xyzr"] = h.xyzr().tolist()
    out["__keys"] = sorted(h.keys())
    return out

def want_node(cols, i):
    keys = list(cols)
    out = {k: cols[k][i] for k in keys}
    out["__props"] = {k: cols[k][i] for k in STD}
    out["__xyz"] = [cols["x"][i], cols["y"][i], cols["z"][i]]
    out["__xyzr"] = [cols["x"][i], cols["y"][i], cols["z"][i], cols["r"][i]]
    out["__keys"] = sorted(keys)
    return out


def read_path(v, keys, skip=()):
    out = {k: v.get_ndata(k).tolist() for k in keys if k not in skip}
    out["__len"] = len(v)
    out["__acc"] = {"type": v.type().tolist(), "x": v.x().tolist(), "y": v.y().tolist(), "z": v.z().tolist(), "r": v.r().tolist()}
    out["__xyz"] = v.xyz().tolist()
    out["__xyzr"] = v.xyzr().tolist()
    out["__keys"] = sorted(v.keys())
    out["__str"] = {k: v[k].tolist() for k in keys if k not in skip}
    out["__last"] = {k: _num(v[-1][k]) for k in keys if k not in skip}
    out["__iter"] = [_num(h["r"]) for h in v]
    return out


def want_path(cols, L, skip=()):
    keys = list(cols)
    out = {k: [cols[k][i] for i in L] for k in keys if k not in skip}
    out["__len"] = len(L)
    out["__acc"] = {k: [cols[k][i] for i in L] for k in ("type", "x", "y", "z", "r")}
    out["__xyz"] = [[cols["x"][i], cols["y"][i], cols["z"][i]] for i in L]
    out["__xyzr"] = [[cols["x"][i], cols["y"][i], cols["z"][i], cols["r"][i]] for i in L]
    out["__keys"] = sorted(keys)
    out["__str"] = {k: [cols[k][i] for i in L] for k in keys if k not in skip}
    out["__last"] = {k: cols[k][L[-1]] for k in keys if k not in skip}
    out["__iter"] = [cols["r"][i] for i in L]
    return out


def first_diff(a, b):
    if isinstance(a, dict) and isinstance(b, dict):
        for k in sorted(set(a) | set(b), key=str):
            if a.get(k, "<missing>") != b.get(k, "<missing>"):
                return f"{k}: " + first_diff(a.get(k, "<missing>"), b.get(k, "<missing>"))
    return f"got {a!r} want {b!r}"[:400]


# ------------------------------------------------------------------ static space


def index_space(R, what, obj, m, resolve, klass):
    """obj[i] / obj[slice] against list semantics.  resolve(handle) -> position in 0..m-1 (by reading)."""
    base = list(range(m))
    raw_resolve = resolve

    def resolve(h):  # a handle that cannot even be read refers to no node
        try:
            return raw_resolve(h)
        except Exception as e:  # noqa: BLE001
            return f"<unreadable: {type(e).__name__}>"

    for i in range(-m - 1, m + 1):
        for conv, cname in ((int, "int"), (np.int64, "np.int64"), (np.int32, "np.int32")):
            ok, h = R.attempt(lambda: obj[conv(i)])
            if -m <= i < m:
                if not ok:
                    R.fail("index:raises", f"{what}[{cname}({i})] raised {type(h).__name__}: {h}", f"{klass}:index:raises:{'neg' if i < 0 else 'pos'}")
                    continue
                got = resolve(h)
                R.check(got == base[i], "index:wrong-node", lambda: f"{what}[{cname}({i})] refers to position {got}, list semantics give {base[i]}",
                        f"{klass}:index:wrong-node:{'neg' if i < 0 else 'pos'}")
            else:
                R.check(not ok and isinstance(h, IndexError), "index:out-of-range-accepted",
                        lambda: f"{what}[{cname}({i})] with {m} nodes: " + (f"returned position {resolve(h)}" if ok else f"raised {type(h).__name__}"),
                        f"{klass}:index:out-of-range:{'neg' if i < 0 else 'pos'}")
    n_sl = 0
    for a, b, s in S.slices(m, STEPS):
        ok, hs = R.impl(f"{klass}[slice]", lambda: obj[slice(a, b, s)])
        n_sl += 1
        if ok:
            got = [resolve(h) for h in hs]
            R.check(got == base[slice(a, b, s)], "slice:wrong-nodes", lambda: f"{what}[{a}:{b}:{s}] gave positions {got}, list semantics {base[slice(a, b, s)]}",
                    f"{klass}:slice")
    return n_sl


def check_static(case, R):
    p = list(case)
    n = len(p)
    R.state("static", p)
    t = make(p, R.seed % 4)
    src = store_cols(t)
    keys = list(src)
    snap = build.snapshot(t)
    ch = ref.children(p)
    rtag = {src["r"][i]: i for i in range(n)}
    what = f"tree p={p}"

    # ---- the tree itself
    R.check(len(t) == n, "tree:len", what)
    for k in keys:
        ok, col = R.impl("Tree[str]", lambda: t[k])
        if ok:
            R.check(col.tolist() == src[k], "tree:column", lambda: f"{what}['{k}']", "tree:str-key")
    ok, it = R.impl("iter(Tree)", lambda: list(t))
    if ok:
        R.check([_num(h.id) for h in it] == list(range(n)), "tree:iteration", what)
    index_space(R, what, t, n, lambda h: rtag.get(_num(h.r)), "tree")
    for i in range(n):
        for hname, get in (("Tree[i]", lambda: t[i]), ("Tree.node(i)", lambda: t.node(i)), ("Tree[i-n]", lambda: t[i - n])):
            ok, h = R.impl(hname, get)
            if not ok:
                continue
            got, want = read_node(h, keys), want_node(src, i)
            R.check(got == want, "node:attributes", lambda: f"{what} {hname} i={i}: " + first_diff(got, want), "node:attributes")
        h = t[i]
        ok, par = R.impl("Node.parent", h.parent)
        if ok:
            R.check((par is None) == (p[i] == -1) and (par is None or read_node(par, keys) == want_node(src, p[i])), "node:parent",
                    lambda: f"{what} node {i}", "node:parent")
        ok, cs = R.impl("Node.children", h.children)
        if ok:
            R.check(sorted(_num(c.id) for c in cs) == ch[i] and all(read_node(c, keys) == want_node(src, _num(c.id)) for c in cs), "node:children",
                    lambda: f"{what} node {i}: {[_num(c.id) for c in cs]} want {ch[i]}", "node:children")

    # ---- adjacency matrix: entry (parent, child) = 1
    ok, am = R.impl("get_adjacency_matrix", t.get_adjacency_matrix)
    if ok:
        dense = am.toarray().tolist()
        want = [[1 if p[c] == a else 0 for c in range(n)] for a in range(n)]
        R.check(dense == want, "adjacency", lambda: f"{what}: {dense} want {want}", "tree:adjacency")

    # ---- paths and branches
    objs = []
    ok, paths = R.impl("get_paths", t.get_paths)
    if ok:
        objs += [("path", o) for o in paths]
    ok, brs = R.impl("get_branches", t.get_branches)
    if ok:
        objs += [("branch", o) for o in brs]
    if n >= 2:
        for i in range(n):
            if len(ch[i]) < 2:
                ok, b = R.impl("Node.branch", t.node(i).branch)
                if ok:
                    objs.append(("branch", b))
    decomp = sorted([int(i) for i in o.origin_id().tolist()] for kind, o in objs if kind == "path") == sorted(ref.root_to_tip_paths(p))
    if not decomp:
        R.skip("paths differ from the reference decomposition (C08's business)")
    n_obj = 0
    for kind, o in objs:
        L = [int(i) for i in o.origin_id().tolist()]
        if not all(0 <= i < n for i in L) or len(L) < 1:
            continue
        n_obj += 1
        check_pathlike(R, t, src, keys, rtag, kind, o, L, what, snap)
        if kind == "branch":
            # a branch's segments are its consecutive node pairs
            wantp = sorted([a, b] for a, b in zip(L, L[1:]))
            for nm in ("get_segments", "get_compartments"):
                ok, segs = R.impl(f"Branch.{nm}", getattr(o, nm),
                                  klass=f"raises:Branch.{nm}:" + ("branch-ids-are-positions" if L == list(range(len(L))) else "branch-ids-differ-from-positions"))
                if not ok:
                    continue
                ok, gotp = R.impl(f"Branch.{nm}:read", lambda: [[int(i) for i in s.get_ndata("id").tolist()] for s in segs],
                                  klass=f"raises:Branch.{nm}:read:" + ("branch-ids-are-positions" if L == list(range(len(L))) else "branch-ids-differ-from-positions"))
                if not ok:
                    continue
                good = R.check(sorted(gotp) == wantp, "branch-segments:pairs", lambda: f"{what} branch {L}: segments {gotp}, consecutive pairs {wantp}",
                               "branch-segments:" + ("branch-ids-are-positions" if L == list(range(len(L))) else "branch-ids-differ-from-positions"))
                if good:
                    for s, pr in zip(segs, gotp):
                        check_pathlike(R, t, src, keys, rtag, "branch-segment", s, pr, what, snap, light=True)
                    check_container(R, segs, src, gotp, f"{what} branch {L}")

    # ---- the tree's segments are its (parent, child) pairs
    for nm in ("get_segments", "get_compartments"):
        ok, segs = R.impl(f"Tree.{nm}", getattr(t, nm))
        if not ok:
            continue
        ok, gotp = R.impl(f"Tree.{nm}:read", lambda: [[int(i) for i in s.get_ndata("id").tolist()] for s in segs])
        if not ok:
            continue
        wantp = sorted([a, b] for a, b in ref.edges(p))
        good = R.check(sorted(gotp) == wantp, "tree-segments:pairs", lambda: f"{what}: segments {gotp}, (parent, child) pairs {wantp}", "tree-segments")
        if good:
            for s, pr in zip(segs, gotp):
                check_pathlike(R, t, src, keys, rtag, "segment", s, pr, what, snap, light=(nm == "get_compartments"))
            check_container(R, segs, src, gotp, what)
    R.outcome(tuple(p), n_obj)

    # ---- tree copy: equal content, fully independent
    ok, c = R.impl("Tree.copy", t.copy)
    if ok:
        R.check(store_cols(c) == src and list(c.comments) == list(t.comments) and c.source == t.source, "copy:content", what, "copy:tree:content")
        why = build.independent(c, t)
        R.check(why == "", "copy:not-independent", lambda: f"{what}: {why}", "copy:tree:independent")
        R.retain("tree-copy", lambda c=c: (store_cols(c), list(c.comments)))
    # ---- observation (not asserted): writes through a Path.Node handle
    if ok and n >= 2 and decomp:
        c2 = t.copy()
        ps = c2.get_paths()
        before = c2.x().tolist()
        try:
            ps[0][-1].x = 777.0
            R.note("observation:Path.Node-write-" + ("dropped" if c2.x().tolist() == before else "written-through"))
        except Exception as e:  # noqa: BLE001
            R.note("observation:Path.Node-write-raises-" + type(e).__name__)
    R.check(build.snapshot(t) == snap, "reads-modified-the-tree", what, "reads-modified-the-tree")


def check_container(R, segs, src, pairs, what):
    """Compartments container accessors: shape (n_seg, 2) in (parent, child) order."""
    if not pairs:
        return
    for k, get in (("id", segs.id), ("type", segs.type), ("x", segs.x), ("y", segs.y), ("z", segs.z), ("r", segs.r), ("pid", segs.pid)):
        ok, arr = R.impl(f"Compartments.{k}", get)
        if ok:
            want = [[src[k][a], src[k][b]] for a, b in pairs]
            R.check(arr.tolist() == want, "segments:container", lambda: f"{what}: Compartments.{k}() {arr.tolist()} want {want}", "segments:container")
    ok, arr = R.impl("Compartments.xyzr", segs.xyzr)
    if ok:
        want = [[[src[c][i] for c in ("x", "y", "z", "r")] for i in pr] for pr in pairs]
        R.check(arr.tolist() == want, "segments:container", lambda: f"{what}: Compartments.xyzr()", "segments:container")
    ok, arr = R.impl("Compartments.xyz", segs.xyz)
    if ok:
        want = [[[src[c][i] for c in ("x", "y", "z")] for i in pr] for pr in pairs]
        R.check(arr.tolist() == want, "segments:container", lambda: f"{what}: Compartments.xyz()", "segments:container")


def check_pathlike(R, t, src, keys, rtag, kind, o, L, what, snap, light=False):
    """A path / branch / compartment over tree positions L: reads, index space, detach."""
    m = len(L)
    desc = f"{what} {kind} {L}"
    ok, got = R.impl(f"{kind}:read", read_path, o, keys)
    if ok:
        want = want_path(src, L)
        R.check(got == want, f"{kind}:attributes", lambda: f"{desc}: " + first_diff(got, want), f"{kind}:attributes")
    if not light:
        pos = {rtag_i: j for j, rtag_i in enumerate(L)}
        index_space(R, desc, o, m, lambda h: pos.get(rtag.get(_num(h["r"]))), kind)
        for j in range(m):
            ok, h = R.impl(f"{kind}.node", o.node, j)
            if ok:
                g, w = read_node(h, keys), want_node(src, L[j])
                R.check(g == w, f"{kind}:node-handle", lambda: f"{desc} node({j}): " + first_diff(g, w), f"{kind}:node-handle")
    # detach: equal content (id/pid renumbering not asserted), independent both ways
    ok, d = R.impl(f"{kind}.detach", o.detach)
    if not ok:
        return
    skip = ("id", "pid")
    ok, got = R.impl(f"{kind}:read-detached", read_path, d, keys, skip)
    if not ok:
        return
    want = want_path(src, L, skip)
    if not R.check(got == want, "detach:content", lambda: f"{desc} detached: " + first_diff(got, want), f"detach:{kind}:content"):
        return
    full = read_path(d, keys)
    saved = {k: t.ndata[k].copy() for k in keys}
    for k in keys:
        t.ndata[k] += 1
    after = read_path(d, keys)
    # query -> in-place edit -> query again: the attached view describes the owner's CURRENT content
    now = {k: t.ndata[k].tolist() for k in keys}
    ok, mid = R.impl(f"{kind}:read-after-edit", read_path, o, keys)
    if ok:
        wmid = want_path(now, L)
        R.check(mid == wmid, "view-stale", lambda: f"{desc}: after an in-place edit of the tree the view still reports old values: " + first_diff(mid, wmid),
                f"view-stale:{kind}:after-in-place-edit")
    for k in keys:
        t.ndata[k][...] = saved[k]
    R.check(after == full, "detach:follows-original", lambda: f"{desc}: detached copy changed after in-place edit of the tree: " + first_diff(after, full),
            f"detach:{kind}:follows-original")
    for k in d.attach.ndata:
        d.attach.ndata[k] += 1
    R.check(build.snapshot(t) == snap, "detach:writes-reach-original", lambda: f"{desc}: editing the detached copy changed the tree", f"detach:{kind}:writes-reach-original")
    R.check(read_path(o, keys) == want_path(src, L), "detach:writes-reach-original", lambda: f"{desc}: editing the detached copy changed the view", f"detach:{kind}:writes-reach-original")
    for k in keys:  # keep later checks on this tree meaningful even after a reported leak
        t.ndata[k][...] = saved[k]
    for k in d.attach.ndata:
        d.attach.ndata[k] -= 1
    if read_path(d, keys) == full:  # exactly restored: from now on nothing may change the detached copy
        R.retain(f"detached-{kind}", lambda d=d, keys=keys: read_path(d, keys))


def check_node_detach(case, R):
    """Node.detach() for every node of every tree (2-step histories on all trees)."""
    p = list(case)
    n = len(p)
    R.state("node-detach", p)
    t = make(p, R.seed % 4)
    src = store_cols(t)
    keys = list(src)
    snap = build.snapshot(t)
    for i in range(n):
        h = t[i]
        ok, d = R.impl("Node.detach", h.detach)
        if not ok:
            continue
        got = read_node(d, keys)
        want = want_node(src, i)
        for dd in (got, want):
            for k in ("id", "pid"):
                dd.pop(k)
                dd["__props"].pop(k)
        if not R.check(got == want, "detach:content", lambda: f"p={p} node {i} detached: " + first_diff(got, want), "detach:node:content"):
            continue
        full = read_node(d, keys)
        # write through the tree handle: owner sees it, detached copy does not
        for k, v in (("x", 7.0), ("r", 9.0), ("type", 7)):
            setattr(h, k, v)
            R.trans()
            R.check(t.ndata[k][i] == v, "write-through:lost", lambda: f"p={p} node {i}.{k} = {v} not visible in the tree", "write-through:lost")
        R.check(read_node(d, keys) == full, "detach:follows-original", lambda: f"p={p} node {i}: detached node changed after writes to the tree", "detach:node:follows-original")
        for k in ("x", "r", "type"):
            t.ndata[k][i] = src[k][i]
        d.x = 9.0
        d.type = 9
        R.check(_num(d.x) == 9.0 and _num(d.type) == 9, "write-through:lost", lambda: f"p={p} detached node {i}: own write not visible", "write-through:detached-node")
        R.check(build.snapshot(t) == snap, "detach:writes-reach-original", lambda: f"p={p} node {i}: write into detached node changed the tree", "detach:node:writes-reach-original")
    R.outcome(tuple(p))


# ------------------------------------------------------------------ query -> structural edit -> query


def structure_report(R, t, p, what, klass):
    """Segments, parent()/children() and adjacency of tree t must describe parent list p."""
    n = len(p)
    ch = ref.children(p)
    cols = store_cols(t)
    for nm in ("get_segments", "get_compartments"):
        ok, segs = R.impl(f"Tree.{nm}", getattr(t, nm))
        if not ok:
            continue
        ok, gotp = R.impl(f"Tree.{nm}:read", lambda: [[int(i) for i in s.get_ndata("id").tolist()] for s in segs])
        if not ok:
            continue
        wantp = sorted([a, b] for a, b in ref.edges(p))
        if R.check(sorted(gotp) == wantp, "tree-segments:pairs", lambda: f"{what}: segments {gotp}, (parent, child) pairs {wantp}", f"tree-segments:{klass}"):
            for s_, pr in zip(segs, gotp):
                g, w = read_path(s_, list(cols)), want_path(cols, pr)
                R.check(g == w, "segment:attributes", lambda: f"{what} segment {pr}: " + first_diff(g, w), f"segment:attributes:{klass}")
    for i in range(n):
        h = t[i]
        ok, par = R.impl("Node.parent", h.parent)
        if ok:
            got = None if par is None else _num(par.id)
            R.check(got == (None if p[i] == -1 else p[i]), "node:parent", lambda: f"{what} node {i}: parent {got} want {p[i]}", f"node:parent:{klass}")
        ok, cs = R.impl("Node.children", h.children)
        if ok:
            got = sorted(_num(c.id) for c in cs)
            R.check(got == ch[i], "node:children", lambda: f"{what} node {i}: children {got} want {ch[i]}", f"node:children:{klass}")
    ok, am = R.impl("get_adjacency_matrix", t.get_adjacency_matrix)
    if ok:
        dense = am.toarray().tolist()
        want = [[1 if p[c] == a else 0 for c in range(n)] for a in range(n)]
        R.check(dense == want, "adjacency", lambda: f"{what}: {dense} want {want}", f"tree:adjacency:{klass}")


def check_edit(case, R):
    """Warm every query, re-parent one node in place (3 routes), query again; handles obtained before stay live."""
    p, i, j, how = list(case[0]), int(case[1]), int(case[2]), case[3]
    R.state("edit", p, i, j, how)
    t = make(p, R.seed % 4)
    keys = list(t.keys())
    what0 = f"tree p={p}"
    structure_report(R, t, p, what0 + " (before the edit)", "before-edit")
    handles = [t[k] for k in range(len(p))]
    ok, held = R.impl("Tree.get_segments", t.get_segments)
    held = list(held) if ok else []
    held_pairs = [[int(v) for v in s.get_ndata("id").tolist()] for s in held]
    obj, q, other, op = build.apply_reparent(t, p, (i, j, how))
    R.trans()
    what = f"{what0} after re-parenting node {i} to {j} via {how} (now {q})"
    structure_report(R, obj, q, what, f"after-edit:{how}")
    if other is not None:
        structure_report(R, other, op, what0 + f" (original after its copy was re-parented {i}->{j})", "original-after-copy-edit")
    # objects obtained from t before the edit refer to the same nodes of t and report their current attributes
    cur_p = q if other is None else op
    cols = store_cols(t)
    for k, h in enumerate(handles):
        g, w = read_node(h, keys), want_node(cols, k)
        R.check(g == w and _num(h.pid) == cur_p[k], "node:attributes", lambda: f"{what}: handle of node {k} obtained before the edit: " + first_diff(g, w),
                f"node-handle-stale:{how}")
    for s_, pr in zip(held, held_pairs):
        g, w = read_path(s_, keys), want_path(cols, pr)
        R.check(g == w, "segment:attributes", lambda: f"{what}: segment {pr} obtained before the edit: " + first_diff(g, w), f"segment-stale:{how}")
    R.outcome(tuple(q), how)


# ------------------------------------------------------------------ histories: model


BASES = [
    [-1, 0, 1, 1],       # stem + fork: branches [0,1] [1,2] [1,3]
    [-1, 2, 0, 2],       # same shape, ids not in path order: branches [0,2] [2,1] [2,3]
    [-1, 0, 1],          # chain: one branch = one path [0,1,2] with two segments
    [-1, 3, 0, 2],       # chain 0-2-3-1: one branch [0,2,3,1] whose positions are not its ids
    [-1, 0, 0, 1, 1],    # root fork + fork
]
FOCAL = {0: (1, 3), 1: (2, 1), 2: (1, 2), 3: (3, 1), 4: (1, 4)}
ATTRS = ("x", "r", "type")
VALS = (7, 9)


class Model:
    """List model.  stores[s] = {'kind', 'cols', 'comments', 'p'}; views[v] = (kind, store, index list, via)."""

    def __init__(self, p, cols, comments):
        self.stores = [{"kind": "tree", "cols": {k: list(v) for k, v in cols.items()}, "comments": list(comments), "p": list(p)}]
        self.views = []

    def clone(self):
        m = Model.__new__(Model)
        m.stores = [{"kind": s["kind"], "cols": {k: list(v) for k, v in s["cols"].items()}, "comments": list(s["comments"]), "p": s["p"]} for s in self.stores]
        m.views = [(k, s, list(L), via) for k, s, L, via in self.views]
        return m

    def key(self):
        return ([(s["kind"], s["cols"], s["comments"]) for s in self.stores], [(k, s, L, via) for k, s, L, via in self.views])

    # --- structure of tree stores (never written: only x, r, type are)
    @staticmethod
    def paths(p):
        return sorted(ref.root_to_tip_paths(p))

    @staticmethod
    def branches(p):
        return sorted(ref.branches(p))

    @staticmethod
    def segs(p):
        return sorted([a, b] for a, b in ref.edges(p))

    def has_view(self, kind, s, L, via):
        return (kind, s, L, via) in self.views

    def enabled(self, focal, max_objs):
        ev = []
        n_objs = len(self.stores) + len(self.views)
        room = n_objs < max_objs
        for s, st in enumerate(self.stores):
            if st["kind"] == "tree":
                p = st["p"]
                if room:
                    for i in focal:
                        if not self.has_view("node", s, [i], "tree"):
                            ev.append(("node", s, i))
                    for k, L in enumerate(self.paths(p)):
                        if not self.has_view("path", s, L, "tree"):
                            ev.append(("path", s, k))
                    for k, L in enumerate(self.branches(p)):
                        if not self.has_view("branch", s, L, "tree"):
                            ev.append(("branch", s, k))
                    for k, L in enumerate(self.segs(p)):
                        if not self.has_view("seg", s, L, "tree"):
                            ev.append(("seg", s, k))
                    ev.append(("copy", s))
                if len(st["comments"]) < 2:
                    ev.append(("comment", s))
                for a in ATTRS:
                    for i in focal:
                        for v in VALS:
                            if st["cols"][a][i] != v:
                                ev.append(("wcol", s, a, i, v))
            else:
                m = len(st["cols"]["x"])
                for a in ATTRS:
                    for i in sorted({0, m - 1}):
                        for v in VALS:
                            if st["cols"][a][i] != v:
                                ev.append(("wcol", s, a, i, v))
        for vi, (kind, s, L, via) in enumerate(self.views):
            if room and via != "detached":
                ev.append(("detach", vi))
            if room and kind == "branch" and via == "tree":
                for k in range(len(L) - 1):
                    if not self.has_view("seg", s, [L[k], L[k + 1]], "branch"):
                        ev.append(("bseg", vi, k))
            if room and kind in ("path", "branch") and via == "tree":
                if not self.has_view("node", s, [L[-1]], "path"):
                    ev.append(("pnode", vi))
            if kind == "node" and via in ("tree", "detached"):
                for a in ATTRS:
                    for v in VALS:
                        if self.stores[s]["cols"][a][L[0]] != v:
                            ev.append(("wnode", vi, a, v))
        return ev

    def apply(self, ev, detached_idpid=None):
        op = ev[0]
        if op in ("node", "path", "branch", "seg"):
            s = ev[1]
            p = self.stores[s]["p"]
            L = {"node": lambda: [ev[2]], "path": lambda: self.paths(p)[ev[2]], "branch": lambda: self.branches(p)[ev[2]],
                 "seg": lambda: self.segs(p)[ev[2]]}[op]()
            self.views.append((op, s, list(L), "tree"))
        elif op == "bseg":
            kind, s, L, via = self.views[ev[1]]
            self.views.append(("seg", s, [L[ev[2]], L[ev[2] + 1]], "branch"))
        elif op == "pnode":
            kind, s, L, via = self.views[ev[1]]
            self.views.append(("node", s, [L[-1]], "path"))
        elif op == "copy":
            st = self.stores[ev[1]]
            self.stores.append({"kind": "tree", "cols": {k: list(v) for k, v in st["cols"].items()}, "comments": list(st["comments"]), "p": st["p"]})
        elif op == "comment":
            self.stores[ev[1]]["comments"].append("c+")
        elif op == "wcol":
            _, s, a, i, v = ev
            self.stores[s]["cols"][a][i] = v
        elif op == "wnode":
            _, vi, a, v = ev
            kind, s, L, via = self.views[vi]
            self.stores[s]["cols"][a][L[0]] = v
        elif op == "detach":
            kind, s, L, via = self.views[ev[1]]
            cols = {k: [c[i] for i in L] for k, c in self.stores[s]["cols"].items()}
            if detached_idpid is not None:  # not asserted: taken from the implementation at creation, must then stay stable
                cols["id"], cols["pid"] = list(detached_idpid[0]), list(detached_idpid[1])
            else:
                cols["id"], cols["pid"] = list(range(len(L))), list(range(-1, len(L) - 1))
            self.stores.append({"kind": "detached", "cols": cols, "comments": [], "p": None})
            self.views.append((kind, len(self.stores) - 1, list(range(len(L))), "detached"))
        else:
            raise AssertionError(ev)


# ------------------------------------------------------------------ histories: real world


class World:
    def __init__(self, p, seed):
        self.t0 = make(p, seed % 4)
        self.stores = [self.t0]   # real Tree objects, or the DictSWC behind a detached object
        self.views = []
        self.model = Model(p, store_cols(self.t0), self.t0.comments)

    def apply(self, ev, R):
        """Execute the event on the real objects and on the model.  Returns False if the implementation raised."""
        op = ev[0]
        m = self.model
        idpid = None
        try:
            if op == "node":
                self.views.append(self.stores[ev[1]][ev[2]] if ev[2] % 2 else self.stores[ev[1]].node(ev[2]))
            elif op in ("path", "branch", "seg"):
                st = self.stores[ev[1]]
                p = m.stores[ev[1]]["p"]
                if op == "path":
                    objs, want = st.get_paths(), m.paths(p)[ev[2]]
                elif op == "branch":
                    objs, want = st.get_branches(), m.branches(p)[ev[2]]
                else:
                    objs, want = list(st.get_segments()), m.segs(p)[ev[2]]
                hit = [o for o in objs if [int(i) for i in o.get_ndata("id").tolist()] == want]
                if len(hit) != 1:
                    R.skip("decomposition differs from the reference (C08's business)")
                    return False
                self.views.append(hit[0])
            elif op == "bseg":
                segs = list(self.views[ev[1]].get_segments())
                self.views.append(segs[ev[2]])
            elif op == "pnode":
                self.views.append(self.views[ev[1]][-1])
            elif op == "copy":
                self.stores.append(self.stores[ev[1]].copy())
            elif op == "comment":
                self.stores[ev[1]].comments.append("c+")
            elif op == "wcol":
                _, s, a, i, v = ev
                self.stores[s].ndata[a][i] = v
            elif op == "wnode":
                _, vi, a, v = ev
                setattr(self.views[vi], a, v)
            elif op == "detach":
                d = self.views[ev[1]].detach()
                self.views.append(d)
                self.stores.append(d.attach)
                idpid = (d.attach.ndata["id"].tolist(), d.attach.ndata["pid"].tolist())
        except Exception as e:  # noqa: BLE001 - the implementation raised on a legal event
            import traceback

            tb = traceback.extract_tb(e.__traceback__)
            where = next((f"{fr.filename.rsplit('/', 1)[-1]}:{fr.name}" for fr in reversed(tb) if "/swcgeom/" in fr.filename), "")
            detail = ""
            if op == "bseg":
                L = m.views[ev[1]][2]
                detail = ":" + ("branch-ids-are-positions" if L == list(range(len(L))) else "branch-ids-differ-from-positions")
            R.fail(f"raises:{op}", f"event {ev} raised {type(e).__name__}: {e} @ {where}", f"raises:history:{op}:{type(e).__name__}{detail}")
            return False
        m.apply(ev, idpid)
        return True

    def audit(self, R, hist):
        """Every live object reports exactly the model's values."""
        m = self.model
        ev = hist[-1] if hist else None
        touched = None
        if ev is not None and ev[0] in ("wcol", "comment"):
            touched = ev[1]
        elif ev is not None and ev[0] == "wnode":
            touched = m.views[ev[1]][1]
        good = True
        for s, (real, st) in enumerate(zip(self.stores, m.stores)):
            got = {k: real.ndata[k].tolist() for k in real.ndata}
            if got != st["cols"]:
                if s == touched:
                    kind, klass = "write-through:lost", f"write-through:lost:{ev[0]}"
                else:
                    rel = f"{st['kind']}-store" if touched is None else f"{m.stores[touched]['kind']}->{st['kind']}"
                    kind, klass = "independence:store-changed", f"independence:{ev[0] if ev else 'init'}:{rel}"
                R.fail(kind, f"history {list(hist)}: store {s} ({st['kind']}): " + first_diff(got, st["cols"]), klass)
                good = False
            if st["kind"] == "tree" and list(real.comments) != st["comments"]:
                R.fail("independence:comments", f"history {list(hist)}: store {s} comments {real.comments} want {st['comments']}", f"independence:comments:{ev[0] if ev else 'init'}")
                good = False
        for vi, (real, (kind, s, L, via)) in enumerate(zip(self.views, m.views)):
            cols = m.stores[s]["cols"]
            keys = list(cols)
            try:
                if kind == "node":
                    got, want = read_node(real, keys), want_node(cols, L[0])
                    if via == "tree":
                        par = real.parent()
                        got["__parent"] = None if par is None else _num(par.id)
                        want["__parent"] = None if cols["pid"][L[0]] == -1 else cols["pid"][L[0]]
                else:
                    got, want = read_path(real, keys), want_path(cols, L)
            except Exception as e:  # noqa: BLE001
                R.fail("raises:read", f"history {list(hist)}: reading view {vi} ({kind} via {via}) raised {type(e).__name__}: {e}", f"raises:read:{kind}:{via}")
                good = False
                continue
            if got != want:
                if ev is not None and ev[0] in ("wcol", "wnode") and s == touched:
                    klass = f"view-stale:{kind}:{via}:after-{ev[0]}"
                    knd = "view-stale"
                elif ev is not None and ev[0] in ("node", "path", "branch", "seg", "bseg", "pnode", "detach") and vi == len(self.views) - 1:
                    klass = f"view-wrong-at-creation:{ev[0]}:{kind}"
                    knd = "view-wrong-at-creation"
                else:
                    klass = f"independence:view-changed:{kind}:{via}:after-{ev[0] if ev else 'init'}"
                    knd = "independence:view-changed"
                R.fail(knd, f"history {list(hist)}: view {vi} ({kind} of store {s} at {L}, via {via}): " + first_diff(got, want), klass)
                good = False
        return good


def replay(case_base, hist, R):
    w = World(BASES[case_base], R.seed)
    for k, ev in enumerate(hist):
        if not w.apply(ev, R):
            return None
    return w


def check_history(case, R):
    base, first, depth, max_objs = int(case[0]), case[1], int(case[2]), int(case[3])
    first = tuple(first) if first is not None else None
    focal = FOCAL[base]
    models: dict = {}

    def model_of(hist):
        if hist not in models:
            if not hist:
                t = make(BASES[base], R.seed % 4)
                models[hist] = Model(BASES[base], store_cols(t), t.comments)
            else:
                m = model_of(hist[:-1]).clone()
                m.apply(hist[-1])
                models[hist] = m
        return models[hist]

    def enabled(hist):
        return model_of(hist).enabled(focal, max_objs)

    def step(hist, ev):
        new = hist + (tuple(ev),)
        w = replay(base, new, R)
        R.trans(len(new))
        if w is None:
            return None
        # the model used for identity must be the one the implementation was compared with, except the unasserted id/pid of detached stores
        if not w.audit(R, new):
            return None  # a violating state is reported and not expanded further
        return new

    def canon(hist):
        return (base, model_of(hist).key())

    init = ()
    if first is not None:
        if first not in [tuple(e) for e in enabled(())]:
            raise AssertionError(f"first event {first} not enabled")
        w = replay(base, (first,), R)
        R.trans(1)
        if w is None:
            return
        if not w.audit(R, (first,)):
            return
        init = (first,)
        if len(model_of(init).stores) + len(model_of(init).views) < 2:
            R.trivial()
    else:
        w = replay(base, (), R)
        w.audit(R, ())
        R.trivial()
    st = kernel.bfs(R, [init], enabled, step, canon, None, max_depth=depth - len(init))
    R.outcome(base, first, st["states"])
    R.note("bfs-states", st["states"])
    R.note("bfs-transitions", st["transitions"])


def first_events(base, max_objs):
    t_cols = {k: [0] * len(BASES[base]) for k in STD + ("e",)}
    m = Model(BASES[base], t_cols, ["c0"])
    return m.enabled(FOCAL[base], max_objs)


# ------------------------------------------------------------------ spaces


# ------------------------------------------------------------------ owner variants


OWNER_VARIANTS = ("float64 coordinate columns assigned after construction", "int64 id/type/pid columns", "result of Rotate (columns replaced by a transform)", "result of Translate",
                  "custom column names (SWCNames)", "read from SWC text", "branch tree", "sub tree obtained from a node", "fortran/strided columns")
ACC = ("id", "type", "x", "y", "z", "r", "pid")


def make_variant(p, variant, bank_k):
    """A tree with parent table p whose STORAGE differs from the plain float32/int32 constructor form. Returns (tree, parent table of
    the returned tree)."""
    import io as _io

    from swcgeom.core import BranchTree, Tree
    from swcgeom.core.swc_utils import SWCNames

    n = len(p)
    xyz, _ = build.generic_geometry(n, bank_k)
    r = [0.25 + 0.125 * i for i in range(n)]
    types = [1] + [2 + i % 3 for i in range(1, n)]
    cols = dict(id=np.arange(n, dtype=np.int32), pid=np.array(p, dtype=np.int32), type=np.array(types, dtype=np.int32),
                x=np.array([q[0] for q in xyz], dtype=np.float32), y=np.array([q[1] for q in xyz], dtype=np.float32),
                z=np.array([q[2] for q in xyz], dtype=np.float32), r=np.array(r, dtype=np.float32))
    if variant == OWNER_VARIANTS[0]:
        t = Tree(n, **cols)  # the constructor casts to float32; a caller that assigns columns afterwards keeps its own dtype
        for k in "xyzr":
            t.ndata[k] = cols[k].astype(np.float64)
        return t, p
    if variant == OWNER_VARIANTS[1]:
        for k in ("id", "pid", "type"):
            cols[k] = cols[k].astype(np.int64)
        return Tree(n, **cols), p
    if variant == OWNER_VARIANTS[2]:
        from swcgeom.transforms import Rotate

        return Rotate(np.array([0.0, 0.0, 1.0]), 0.5)(Tree(n, **cols)), p  # general-axis rotation: float64 columns on the pinned tree
    if variant == OWNER_VARIANTS[3]:
        from swcgeom.transforms import Translate

        return Translate(1.0, -2.0, 0.5)(Tree(n, **cols)), p
    if variant == OWNER_VARIANTS[4]:
        nm = SWCNames(id="n", type="t", x="xx", y="yy", z="zz", r="radius", pid="parent")
        ren = {"id": "n", "type": "t", "x": "xx", "y": "yy", "z": "zz", "r": "radius", "pid": "parent"}
        return Tree(n, names=nm, **{ren[k]: v for k, v in cols.items()}, e=np.arange(n) * 1.5), p
    if variant == OWNER_VARIANTS[5]:
        if not ref.is_sorted(p):
            return None, p
        text = "# c\n" + "".join(f"{i + 1} {types[i]} {xyz[i][0]!r} {xyz[i][1]!r} {xyz[i][2]!r} {r[i]!r} {p[i] + 1 if p[i] != -1 else -1}\n" for i in range(n))
        return Tree.from_swc(_io.StringIO(text)), p
    if variant == OWNER_VARIANTS[6]:
        if n < 2:
            return None, p
        bt = BranchTree.from_tree(Tree(n, **cols))
        return bt, [int(v) for v in bt.pid().tolist()]
    if variant == OWNER_VARIANTS[7]:
        kids = ref.children(p)[0]
        if not kids:
            return None, p
        sub = Tree(n, **cols).node(kids[0]).subtree()
        return sub, [int(v) for v in sub.pid().tolist()]
    if variant == OWNER_VARIANTS[8]:
        big = np.zeros((n, 8), dtype=np.float32, order="F")
        for j, k in enumerate("xyzr"):
            big[:, 2 * j] = cols[k]
            cols[k] = big[:, 2 * j]
        return Tree(n, **cols), p
    raise ValueError(variant)


def _acc(o, k):
    return [_num(v) for v in getattr(o, k)().tolist()]


def check_owner_variants(case, R):
    """Views over owners whose storage is unusual (dtype, layout, column names, produced by a transform / reader / decomposition):
    every clause of the statement, through the named accessors only (no column-name assumptions)."""
    p0, variant = list(case[0]), case[1]
    R.state(p0, variant)
    ok, got = R.impl(f"build:{variant}", make_variant, p0, variant, R.seed % 4)
    if not ok:
        return
    t, p = got
    if t is None:
        R.trivial()
        return
    n = len(p)
    kl = f"owner-variant:{variant}"
    what = f"owner = {variant}, parent table {p}"
    src = {k: _acc(t, k) for k in ACC}
    R.check(src["pid"] == p and src["id"] == list(range(n)), "variant:topology", lambda: f"{what}: id {src['id']} pid {src['pid']}", f"{kl}:topology")

    def node_row(h):
        return {k: _num(getattr(h, k)) for k in ACC}

    def rows(L):
        return {k: [src[k][i] for i in L] for k in ACC}

    def pathlike(v):
        return {k: _acc(v, k) for k in ACC if k not in ("id", "pid")}

    def same(got, L):
        w = rows(L)
        return all(got[k] == w[k] for k in got)

    # nodes
    for i in range(n):
        for nm_, get in (("Tree[i]", lambda: t[i]), ("Tree.node(i)", lambda: t.node(i)), ("Tree[i-n]", lambda: t[i - n])):
            okh, h = R.impl(nm_, get)
            if okh:
                R.check(node_row(h) == {k: src[k][i] for k in ACC}, "node:attributes", lambda: f"{what} {nm_} i={i}: {node_row(h)}", f"{kl}:node")
    # paths, branches, segments
    views = []
    for nm_, fn in (("get_paths", t.get_paths), ("get_branches", t.get_branches), ("get_segments", t.get_segments)):
        okv, vs = R.impl(nm_, fn)
        if okv:
            views += [(nm_, v) for v in vs]
    okb, brs = R.impl("get_branches", t.get_branches)
    if okb:
        for b in brs:
            oks, segs = R.impl("Branch.get_segments", b.get_segments)
            if oks:
                L = [int(i) for i in b.origin_id().tolist()]
                pairs = [[int(i) for i in sg.origin_id().tolist()] for sg in segs]
                R.check(pairs == [[a, c] for a, c in zip(L, L[1:])], "branch-segments", lambda: f"{what} branch {L}: segments {pairs}", f"{kl}:branch-segments")
                views += [("Branch.get_segments", sg) for sg in segs]
    segp = sorted(tuple(int(i) for i in sg.origin_id().tolist()) for nm_, sg in views if nm_ == "get_segments")
    R.check(segp == sorted((p[c], c) for c in range(n) if p[c] != -1), "tree-segments", lambda: f"{what}: segments {segp}", f"{kl}:tree-segments")
    for nm_, v in views:
        L = [int(i) for i in v.origin_id().tolist()]
        okr, got_ = R.impl(f"{nm_}:read", pathlike, v)
        if okr:
            R.check(same(got_, L), "view:attributes", lambda: f"{what} {nm_} over nodes {L}: {got_}", f"{kl}:view:{nm_}")
        m = len(L)
        for k in list(range(-m, m)):
            okk, h = R.impl(f"{nm_}[k]", lambda: v[k])
            if okk and hasattr(h, "x"):
                i = L[k]
                R.check((_num(h.x), _num(h.r), _num(h.type)) == (src["x"][i], src["r"][i], src["type"][i]), "view:index", lambda: f"{what} {nm_}{L}[{k}]", f"{kl}:view-index:{nm_}")
    # writes through a node handle are visible in the owner and in every view over that node
    VAL = {"x": 77.5, "y": -3.25, "z": 0.125, "r": 9.75, "type": 6}
    for i in range(n):
        for k, val in VAL.items():
            old = src[k][i]
            okw, _ = R.impl("Node.attr = v", lambda: setattr(t.node(i), k, val))
            if not okw:
                continue
            now = _acc(t, k)
            want = src[k][:i] + [val] + src[k][i + 1:]
            R.check(now == want, "write:not-visible-in-owner", lambda: f"{what}: node({i}).{k} = {val}; owner's column {now}", f"{kl}:write-lost:{k}")
            for nm_, v in views:
                L = [int(j) for j in v.origin_id().tolist()]
                if i in L:
                    gv = _acc(v, k)
                    R.check(gv == [want[j] for j in L], "write:not-visible-in-view", lambda: f"{what}: node({i}).{k} = {val}; {nm_}{L} reports {gv}", f"{kl}:write-not-in-view:{nm_}")
            setattr(t.node(i), k, old)
    R.check({k: _acc(t, k) for k in ACC} == src, "write:restore", lambda: f"{what}: writing the old values back did not restore the owner", f"{kl}:restore")
    # detached copies and tree copies: equal content, fully independent
    okc, c = R.impl("Tree.copy", t.copy)
    if okc:
        R.check({k: _acc(c, k) for k in ACC} == src, "copy:content", lambda: f"{what}: copy {[_acc(c, k) for k in ACC]}", f"{kl}:copy-content")
        for k, val in VAL.items():
            setattr(c.node(n - 1), k, val)
        R.check({k: _acc(t, k) for k in ACC} == src, "copy:writes-reach-original", lambda: f"{what}: writing into the copy changed the original", f"{kl}:copy-not-independent")
        csnap = {k: _acc(c, k) for k in ACC}
        for k, val in VAL.items():
            setattr(t.node(0), k, val)
        R.check({k: _acc(c, k) for k in ACC} == csnap, "copy:follows-original", lambda: f"{what}: writing into the original changed the copy", f"{kl}:copy-not-independent")
        for k in VAL:
            setattr(t.node(0), k, src[k][0])
    for nm_, v in views + [("node", t.node(i)) for i in range(n)]:
        L = [int(i) for i in v.origin_id().tolist()] if nm_ != "node" else [int(v.id)]
        okd, d = R.impl(f"{nm_}.detach", v.detach)
        if not okd:
            continue
        rd = (lambda o: {k: _acc(o, k) for k in ("type", "x", "y", "z", "r")}) if nm_ != "node" else (lambda o: {k: [_num(getattr(o, k))] for k in ("type", "x", "y", "z", "r")})
        okr, dg_ = R.impl(f"{nm_}.detach:read", rd, d)
        if not okr:
            continue
        R.check(same(dg_, L), "detach:content", lambda: f"{what} {nm_}{L}.detach(): {dg_}", f"{kl}:detach-content:{nm_}")
        for i in L:
            for k, val in VAL.items():
                setattr(t.node(i), k, val)
        R.check(rd(d) == dg_, "detach:follows-original", lambda: f"{what} {nm_}{L}.detach() changed when the original was written to", f"{kl}:detach-not-independent:{nm_}")
        for i in L:
            for k in VAL:
                setattr(t.node(i), k, src[k][i])
        try:
            if nm_ == "node":
                for k, val in VAL.items():
                    setattr(d, k, val)
            else:
                for k in ("x", "r"):
                    getattr(d, k)()  # gathered copy; write through the detached object's own storage instead
                for arr in d.attach.ndata.values():
                    if arr.dtype.kind == "f":
                        arr += 1
        except Exception:  # noqa: BLE001 - writing into a detached object is not part of the statement's API surface
            pass
        R.check({k: _acc(t, k) for k in ACC} == src, "detach:writes-reach-original", lambda: f"{what}: writing into {nm_}{L}.detach() changed the tree", f"{kl}:detach-not-independent:{nm_}")
    # a detached view detached AGAIN is again an independent copy (writing into one does not reach the other)
    for nm_, v in views[:6] + [("node", t.node(n - 1))]:
        okd, d1 = R.impl(f"{nm_}.detach", v.detach)
        if not okd:
            continue
        okd2, d2 = R.impl(f"{nm_}.detach().detach()", d1.detach)
        if not okd2:
            continue
        rdx = (lambda o: [_num(o.x), _num(o.r)]) if nm_ == "node" else (lambda o: [_acc(o, "x"), _acc(o, "r")])
        before1 = rdx(d1)
        R.check(d2 is not d1 and rdx(d2) == before1, "detach:content", lambda: f"{what} {nm_}.detach().detach(): {rdx(d2)} vs {before1}", f"{kl}:detach-twice-content:{nm_}")
        try:
            if nm_ == "node":
                d2.x, d2.r = 123.5, 45.25
            else:
                for arr in d2.attach.ndata.values():
                    if arr.dtype.kind == "f":
                        arr += 1
        except Exception:  # noqa: BLE001
            continue
        R.check(rdx(d1) == before1, "detach:not-independent", lambda: f"{what}: writing into {nm_}.detach().detach() changed the first detached copy", f"{kl}:detach-twice-not-independent:{nm_}")
    # a collection of compartments drawn from SEVERAL owners (segments of all branches, detached segments): each member reports its own nodes
    from swcgeom.core.compartment import Compartments

    members, want_rows = [], []
    if okb:
        for b in brs:
            L = [int(i) for i in b.origin_id().tolist()]
            oks, segs = R.impl("Branch.get_segments", b.get_segments)
            if oks:
                for sg, (a_, c_) in zip(segs, zip(L, L[1:])):
                    members.append(sg)
                    want_rows.append([[src[k][a_] for k in ("x", "y", "z", "r")], [src[k][c_] for k in ("x", "y", "z", "r")]])
        for sg, w_ in list(zip(members, want_rows))[:3]:
            okd, dsg = R.impl("segment.detach", sg.detach)
            if okd:
                members.append(dsg)
                want_rows.append(w_)
    if members:
        okc, coll = R.impl("Compartments(list)", Compartments, members)
        if okc:
            okx, got_rows = R.impl("Compartments.xyzr", lambda: [[[_num(v) for v in row] for row in m_] for m_ in coll.xyzr().tolist()])
            if okx:
                R.check(got_rows == want_rows, "compartments:collection", lambda: f"{what}: a collection of {len(members)} segments from {len(brs)} branches (+ detached ones) reports "
                        f"{got_rows[:3]}..., members are {want_rows[:3]}...", f"{kl}:compartments-collection")
    R.outcome(variant, n)



def spaces(tier, seed):
    quick = tier == "quick"
    lt_hi = 5 if quick else 6
    depth = 3 if quick else 4
    bases = (0, 1, 2, 3) if quick else (0, 1, 2, 3, 4)
    max_objs = 5

    def gen_static():
        for n in range(1, lt_hi + 1):
            yield from S.labelled_trees(n)

    deep = {2: depth + 1} if quick else {}  # the small chain is explored one level deeper in the quick tier

    def gen_hist():
        for b in bases:
            yield (b, None, 0, max_objs)
            for ev in first_events(b, max_objs):
                yield (b, ev, deep.get(b, depth), max_objs)

    ed_hi = 5 if quick else 6

    def gen_edit():
        for n in range(2, ed_hi + 1):
            for p in S.labelled_trees(n):
                for (i, j) in build.reparent_edits(p):
                    for how in build.EDIT_HOWS:
                        yield (p, i, j, how)

    return [
        Space.of("query-edit-query", gen_edit, check_edit,
                 bounds={"LT_max_nodes": ed_hi, "edits": "every single re-parenting that keeps the tree well-formed", "how": list(build.EDIT_HOWS)}),
        Space.of("owner-variants", lambda: ((p_, v) for m in range(1, (5 if quick else 6)) for p_ in S.labelled_trees(m) for v in OWNER_VARIANTS), check_owner_variants,
                 bounds={"LT_max_nodes": 4 if quick else 5, "owners": list(OWNER_VARIANTS)}),
        Space.of("views-static", gen_static, check_static,
                 bounds={"LT_max_nodes": lt_hi, "int_index": "[-n-1, n] as int / np.int64 / np.int32", "slice_start_stop": "None, -n-1..n+1", "slice_steps": list(STEPS)}),
        Space.of("node-detach", gen_static, check_node_detach, bounds={"LT_max_nodes": lt_hi}),
        Space.of("histories", gen_hist, check_history,
                 bounds={"base_trees": [BASES[b] for b in bases], "depth": {str(b): deep.get(b, depth) for b in bases}, "max_live_objects": max_objs, "attrs": ATTRS, "values": VALS,
                         "focal_nodes": {str(b): FOCAL[b] for b in bases}}, case_timeout=1500.0),
    ]
