"""C12 — geometric transforms apply the stated affine map about the stated centre."""

from __future__ import annotations

import math

import numpy as np

from mc import build, refgeom as G, spaces as S
from mc.kernel import Space

PROPERTY = "C12"
RULE = (
    "every labelled tree LT(n<=4) (+ ST(5) in thorough) x root position (origin / two away from the origin) x every transform "
    "instance of the grids (Translate, TranslateOrigin, Scale, RotateX/Y/Z, Rotate, AffineTransform; centre in "
    "{default, root, soma, origin}; instance call and .transform classmethod), each followed by its inverse; plus every "
    "matrix-builder call of the same grids; plus call histories: one transform object applied to every ordered pair (triple) of "
    "inputs, earlier results re-judged after later calls, all results retained across cases; reference = float64 Rodrigues / per-axis scaling about the centre in plain "
    "Python; non-trivial = the map is not the identity on the tree; distinct = distinct (tree, root, op)"
)
ASSUMPTIONS = [
    "coordinates are stored as float32 and the library multiplies float32 4x4 matrices: a node may differ from the "
    "float64 prediction by at most 32*2^-23*(1 + max|m_ij|*(|p|_1+|c|_1) + |c|_1 + |t|_1) (forward error bound of three "
    "chained 4-term float32 dot products with slack); wrong maps are off by O(1)",
    "rotation axes are passed as unit vectors (float64 / float32 arrays or lists); the behaviour for non-unit axes is not asserted",
    "dtype of the returned coordinate columns is not asserted",
    "DeprecationWarning emitted by Rotate (it passes fmt=) is ignored",
]

EPS32 = 2.0**-23
SQ2, SQ3, SQ14 = math.sqrt(2), math.sqrt(3), math.sqrt(14)

AXES_Q = [
    (1.0, 0.0, 0.0), (-1.0, 0.0, 0.0), (0.0, 1.0, 0.0), (0.0, -1.0, 0.0), (0.0, 0.0, 1.0), (0.0, 0.0, -1.0),
    (1 / SQ2, 1 / SQ2, 0.0), (1 / SQ3, 1 / SQ3, 1 / SQ3), (1 / SQ14, 2 / SQ14, 3 / SQ14),
    (0.36, -0.48, 0.8), (-1 / SQ3, 1 / SQ3, -1 / SQ3), (0.0, -0.6, 0.8), (-2 / 3, -1 / 3, 2 / 3),
]
AXES_T = AXES_Q + [(-1 / SQ2, 0.0, 1 / SQ2), (0.28, 0.0, -0.96), (2 / 7, -3 / 7, -6 / 7), (-0.8, -0.6, 0.0), (1 / 9, 4 / 9, 8 / 9)]
ANGLES_Q = [0.0, math.pi / 6, math.pi / 2, math.pi, -math.pi / 3, 2 * math.pi, 1.234, -math.pi / 2, 3 * math.pi / 4, -2.5, 1e-3]
ANGLES_T = ANGLES_Q + [-math.pi, 3 * math.pi / 2, 5.0, -1e-3, 7 * math.pi / 6]
TRANSLATIONS = [(0.0, 0.0, 0.0), (1.0, -2.0, 0.5), (100.0, 0.0, -50.0)]
FACTORS_Q = [-1.0, 0.0, 0.5, 1.0, 2.0, 3.0]  # 0 flattens an axis (no inverse then); negative mirrors
FACTORS_T = [-1.0, 0.0, 0.5, 1.0, 1.5, 2.0, 3.0]
ROOTS = [(0.0, 0.0, 0.0), (1.0, 2.0, 3.0), (-120.5, 64.25, 300.0)]
CENTRES = [None, "root", "soma", "origin"]
XYZ_AXES = {"rotx": (1.0, 0.0, 0.0), "roty": (0.0, 1.0, 0.0), "rotz": (0.0, 0.0, 1.0)}


# ------------------------------------------------------------------ building the input


def _geometry(n, root, bank_k):
    b = build.bank(bank_k)
    xyz = [tuple(build.f32(v) for v in root)]
    for i in range(1, n):
        xyz.append(tuple(build.f32(root[k] + b[i][0][k]) for k in range(3)))
    r = [b[i][1] for i in range(n)]
    return xyz, r


def _tree(p, root, bank_k):
    xyz, r = _geometry(len(p), root, bank_k)
    types = [1] + [2 + (i % 3) for i in range(1, len(p))]
    return build.make_tree(list(p), xyz=xyz, r=r, types=types), xyz


def _axis_arg(n, form):
    if form == "f32":
        return np.array(n, dtype=np.float32)
    if form == "list":
        return [float(v) for v in n]
    return np.array(n, dtype=np.float64)


# ------------------------------------------------------------------ op -> (implementation callable, reference map, inverse op, amplification)


def _instance(op):
    """(name, transform object) for an op description applied by calling an instance."""
    from swcgeom.transforms import AffineTransform, Rotate, RotateX, RotateY, RotateZ, Scale, Translate, TranslateOrigin
    from swcgeom.utils import rotate3d_z, scale3d, translate3d

    kind = op[0]
    if kind == "translate":
        _, t, centre, _via = op
        kw = {} if centre is None else {"center": centre}
        return "Translate", Translate(t[0], t[1], t[2], **kw)
    if kind == "translate_origin":
        return "TranslateOrigin", TranslateOrigin()
    if kind == "scale":
        _, s, centre, _via = op
        kw = {} if centre is None else {"center": centre}
        return "Scale", Scale(s[0], s[1], s[2], **kw)
    if kind in XYZ_AXES:
        _, th, centre, _via = op
        cls = {"rotx": RotateX, "roty": RotateY, "rotz": RotateZ}[kind]
        kw = {} if centre is None else {"center": centre}
        return cls.__name__, cls(th, **kw)
    if kind == "rotate":
        _, n, th, centre, _via, form = op
        kw = {} if centre is None else {"center": centre}
        return "Rotate", Rotate(_axis_arg(n, form), th, **kw)
    if kind == "affine":
        # tm = T(t) . Rz(th) . S(s): scale, then turn about z, then shift -- about the centre
        _, s, th, t, centre = op
        kw = {} if centre is None else {"center": centre}
        tm = translate3d(*t).dot(rotate3d_z(th)).dot(scale3d(*s))
        return "AffineTransform", AffineTransform(tm, **kw)
    raise ValueError(op)


def _make(op):
    """Returns (name, call(x) -> tree) for an op description; the transform object is built inside the call."""
    from swcgeom.transforms import Rotate, RotateX, RotateY, RotateZ, Scale, Translate, TranslateOrigin

    kind = op[0]
    via = op[1] if kind == "translate_origin" else (op[3] if kind in ("translate", "scale") or kind in XYZ_AXES else (op[4] if kind == "rotate" else "call"))
    if via == "call":
        name = {"translate": "Translate", "translate_origin": "TranslateOrigin", "scale": "Scale", "rotx": "RotateX", "roty": "RotateY",
                "rotz": "RotateZ", "rotate": "Rotate", "affine": "AffineTransform"}[kind]
        return name, lambda x: _instance(op)[1](x)
    if kind == "translate":
        _, t, centre, _ = op
        kw = {} if centre is None else {"center": centre}
        return "Translate.transform", lambda x: Translate.transform(x, t[0], t[1], t[2], **kw)
    if kind == "translate_origin":
        return "TranslateOrigin.transform", lambda x: TranslateOrigin.transform(x)
    if kind == "scale":
        _, s, centre, _ = op
        kw = {} if centre is None else {"center": centre}
        return "Scale.transform", lambda x: Scale.transform(x, s[0], s[1], s[2], **kw)
    if kind in XYZ_AXES:
        _, th, centre, _ = op
        cls = {"rotx": RotateX, "roty": RotateY, "rotz": RotateZ}[kind]
        kw = {} if centre is None else {"center": centre}
        return cls.__name__ + ".transform", lambda x: cls.transform(x, th, **kw)
    if kind == "rotate":
        _, n, th, centre, _, form = op
        kw = {} if centre is None else {"center": centre}
        return "Rotate.transform", lambda x: Rotate.transform(x, _axis_arg(n, form), th, **kw)
    raise ValueError(op)


_CENTRE_ARG = {"scale": 2, "rotx": 2, "roty": 2, "rotz": 2, "rotate": 3, "affine": 4}


def _centre_mode(op):
    """'root' / 'origin' / None (translations): where the property says the fixed point is."""
    kind = op[0]
    if kind not in _CENTRE_ARG:
        return None
    c = op[_CENTRE_ARG[kind]]
    if c is None:  # documented defaults: Scale/Rotate* about the root, AffineTransform about the origin
        return "origin" if kind == "affine" else "root"
    return "root" if c in ("root", "soma") else "origin"


def _centre_point(op, root):
    m = _centre_mode(op)
    return None if m is None else (tuple(root) if m == "root" else (0.0, 0.0, 0.0))


def _ref_map(op, root):
    """(map p -> p', max |matrix entry|, |t|_1) in float64."""
    kind = op[0]
    c = _centre_point(op, root)
    if kind == "translate":
        t = tuple(op[1])
        return (lambda p: G.translate(p, t)), 1.0, sum(abs(v) for v in t)
    if kind == "translate_origin":
        t = tuple(-v for v in root)
        return (lambda p: G.translate(p, t)), 1.0, sum(abs(v) for v in t)
    if kind == "scale":
        s = tuple(op[1])
        return (lambda p: G.scale_about(p, s, c)), max(abs(v) for v in s), 0.0
    if kind in XYZ_AXES:
        n, th = XYZ_AXES[kind], op[1]
        return (lambda p: G.rotate_about_axis(p, n, th, c)), 1.0, 0.0
    if kind == "rotate":
        n, th = tuple(op[1]), op[2]
        return (lambda p: G.rotate_about_axis(p, n, th, c)), 1.0, 0.0
    if kind == "affine":
        s, th, t = tuple(op[1]), op[2], tuple(op[3])
        return (
            lambda p: G.translate(G.rotate_about_axis(G.scale_about(p, s, c), (0.0, 0.0, 1.0), th, c), t),
            max(abs(v) for v in s),
            sum(abs(v) for v in t),
        )
    raise ValueError(op)


def _inverse_ops(op, root_after):
    """Sequence of ops undoing `op` (applied to the transformed tree, whose root is root_after)."""
    kind = op[0]
    if kind == "translate":
        return [["translate", [-v for v in op[1]], op[2], op[3]]]
    if kind == "translate_origin":
        return None  # not invertible without knowing the old root: nothing stated
    if kind == "scale":
        if any(v == 0 for v in op[1]):
            return None
        return [["scale", [1.0 / v for v in op[1]], op[2], op[3]]]
    if kind in XYZ_AXES:
        return [[kind, -op[1], op[2], op[3]]]
    if kind == "rotate":
        return [["rotate", op[1], -op[2], op[3], op[4], op[5]]]
    if kind == "affine":
        _, s, th, t, centre = op
        c = "origin" if centre is None else centre
        return [
            ["translate", [-v for v in t], None, "call"],
            ["rotz", -th, c, "call"],
            ["scale", [1.0 / v for v in s], c, "call"],
        ]
    raise ValueError(op)


def _tol(p, c, amp, t1):
    c1 = 0.0 if c is None else sum(abs(v) for v in c)
    return 32 * EPS32 * (1 + amp * (sum(abs(v) for v in p) + c1) + c1 + t1)


def _is_identity(op):
    kind = op[0]
    if kind == "translate":
        return all(v == 0 for v in op[1])
    if kind == "scale":
        return all(v == 1 for v in op[1])
    if kind in XYZ_AXES:
        return op[1] == 0
    if kind == "rotate":
        return op[2] == 0
    return False


def _cols(t):
    return {k: t.get_ndata(k).tolist() for k in ("id", "pid", "type", "r")}


def _centre_label(op, root):
    """Input class for klass strings: transform family, where the stated centre is, whether the root is at the origin."""
    kind = op[0]
    fam = {"rotx": "rotate-xyz", "roty": "rotate-xyz", "rotz": "rotate-xyz"}.get(kind, kind)
    at0 = all(v == 0 for v in root)
    return f"{fam}:centre-at-{_centre_mode(op) or 'n/a'}:root{'==' if at0 else '!='}origin"


def _apply_checked(R, x, xyz, root, op, tag, prepared=None):
    """Run one op on tree x (whose float64 coordinates are xyz) and check it against the stated map.
    `prepared` = (name, callable) to use an already constructed transform object.
    Returns (tree, its coordinates, predicted coordinates, tolerance data) or None."""
    name, call = prepared or _make(op)
    snap = build.snapshot(x)
    before = _cols(x)
    ok, y = R.impl(name, call, x)
    if not ok:
        return None
    n = len(xyz)
    if not R.check(hasattr(y, "xyz") and len(y) == n, f"{tag}result-shape", lambda: f"{name}: result {type(y).__name__} len {len(y) if hasattr(y, '__len__') else '?'}"):
        return None
    got = [tuple(float(v) for v in row) for row in np.asarray(y.xyz(), dtype=np.float64).tolist()]
    fmap, amp, t1 = _ref_map(op, root)
    c = _centre_point(op, root)
    want = [fmap(p) for p in xyz]
    lab = _centre_label(op, root)
    kind = op[0]

    # every node at the stated image
    worst = max(range(n), key=lambda i: max(abs(got[i][k] - want[i][k]) for k in range(3)) - _tol(xyz[i], c, amp, t1))
    err = max(abs(got[worst][k] - want[worst][k]) for k in range(3))
    R.check(
        err <= _tol(xyz[worst], c, amp, t1),
        f"{tag}position",
        lambda: f"{name} op={op} root={root}: node {worst} at {xyz[worst]} -> {got[worst]}, stated map gives {tuple(round(v, 6) for v in want[worst])} (err {err:.3g}, tol {_tol(xyz[worst], c, amp, t1):.3g})",
        f"{tag}position:{lab}",
    )
    # the chosen centre stays fixed under scaling and rotation
    if kind != "affine" and _centre_mode(op) == "root":
        if True:
            moved = max(abs(got[0][k] - root[k]) for k in range(3))
            R.check(moved <= _tol(root, c, amp, 0.0), f"{tag}centre-moved",
                    lambda: f"{name} op={op}: centre = root {root} moved to {got[0]}", f"{tag}centre-moved:{lab}")
    # rotations preserve all inter-node distances
    if kind in XYZ_AXES or kind == "rotate":
        for i in range(n):
            for j in range(i + 1, n):
                d0, d1 = G.dist(xyz[i], xyz[j]), G.dist(got[i], got[j])
                R.check(abs(d0 - d1) <= _tol(xyz[i], c, 1.0, 0.0) + _tol(xyz[j], c, 1.0, 0.0), f"{tag}distance",
                        lambda: f"{name} op={op}: |{i}-{j}| {d0} -> {d1}", f"{tag}distance:{lab}")
    # scaling multiplies centre-relative offsets per axis
    if kind == "scale":
        s = op[1]
        for i in range(1, n):
            for k in range(3):
                off0, off1 = xyz[i][k] - xyz[0][k], got[i][k] - got[0][k]
                R.check(abs(off1 - s[k] * off0) <= 2 * _tol(xyz[i], c, amp, 0.0), f"{tag}scale-offset",
                        lambda: f"{name} op={op}: root-relative offset {off0} -> {off1}, stated factor {s[k]}",
                        f"{tag}scale-offset:{lab}")
    # parent relation, types and radii never change; the input is left alone
    after = _cols(y)
    for k in ("id", "pid", "type", "r"):
        R.check(after[k] == before[k], f"{tag}column-changed", lambda: f"{name}: column {k} {before[k]} -> {after[k]}", f"{tag}column-changed:{k}")
    R.check(build.snapshot(x) == snap, f"{tag}input-modified", lambda: f"{name} op={op} modified its input")
    return y, got, want, (amp, t1, c)


def check_transform(case, R):
    p, ri, bank_k, op = list(case[0]), case[1], case[2], case[3]
    root = ROOTS[ri]
    x, xyz32 = _tree(p, root, bank_k)
    xyz = [tuple(float(v) for v in q) for q in xyz32]
    n = len(p)
    R.state(p, ri, op)
    if _is_identity(op):
        R.trivial()
    res = _apply_checked(R, x, xyz, root, op, "")
    if res is None:
        return
    y, got, want, (amp, t1, c) = res
    if R._failed:
        return  # the forward map is already wrong; the round trip adds nothing
    R.outcome(op[0], [round(v, 3) for q in want for v in q][:6])

    # a transform followed by its inverse restores the original coordinates
    inv = _inverse_ops(op, got[0])
    if inv is None:
        return
    cur, cur_xyz, cur_root = y, got, got[0]
    slack = max(_tol(xyz[i], c, amp, t1) for i in range(n))
    for iop in inv:
        name, call = _make(iop)
        ok, nxt = R.impl("inverse:" + name, call, cur)
        if not ok:
            return
        _, iamp, it1 = _ref_map(iop, cur_root)
        ic = _centre_point(iop, cur_root)
        nxt_xyz = [tuple(float(v) for v in row) for row in np.asarray(nxt.xyz(), dtype=np.float64).tolist()]
        slack = iamp * 3 * slack + max(_tol(q, ic, iamp, it1) for q in cur_xyz)
        cur, cur_xyz, cur_root = nxt, nxt_xyz, nxt_xyz[0]
    worst = max(range(n), key=lambda i: max(abs(cur_xyz[i][k] - xyz[i][k]) for k in range(3)))
    err = max(abs(cur_xyz[worst][k] - xyz[worst][k]) for k in range(3))
    R.check(err <= slack, "inverse-does-not-restore",
            lambda: f"op={op} then {inv}: node {worst} {xyz[worst]} -> {got[worst]} -> {cur_xyz[worst]} (err {err:.3g}, tol {slack:.3g})",
            f"inverse-does-not-restore:{_centre_label(op, root)}")
    after = _cols(cur)
    R.check(after == _cols(x), "column-changed", lambda: f"op={op} and inverse changed id/pid/type/r", "column-changed:inverse")


# ------------------------------------------------------------------ call histories: one transform object, several trees

HIST_INPUTS = [([-1], 1), ([-1, 0], 2), ([-1, 0, 0], 0), ([-1, 0, 1], 1), ([-1, 0, 1], 2), ([-1, 2, 0, 0], 1)]
HIST_OPS = [
    ["translate", [1.0, -2.0, 0.5], None, "call"],
    ["translate_origin", "call"],
    ["scale", [0.5, 2.0, 3.0], None, "call"],
    ["scale", [0.5, 2.0, 3.0], "origin", "call"],
    ["scale", [1.0, 1.0, 1.0], "root", "call"],
    ["rotz", 1.234, None, "call"],
    ["rotz", 1.234, "origin", "call"],
    ["rotx", math.pi / 2, "soma", "call"],
    ["roty", 0.0, "root", "call"],
    ["rotate", [1 / SQ14, 2 / SQ14, 3 / SQ14], -math.pi / 3, None, "call", "f64"],
    ["rotate", [1 / SQ14, 2 / SQ14, 3 / SQ14], -math.pi / 3, "origin", "call", "f64"],
    ["affine", [0.5, 2.0, 3.0], 1.234, [1.0, -2.0, 0.5], "root"],
    ["affine", [0.5, 2.0, 3.0], 1.234, [1.0, -2.0, 0.5], None],
]


def _positions(R, y, xyz, root, op, tag, name):
    """Re-judge the coordinates of an earlier result against the stated map."""
    fmap, amp, t1 = _ref_map(op, root)
    c = _centre_point(op, root)
    got = [tuple(float(v) for v in row) for row in np.asarray(y.xyz(), dtype=np.float64).tolist()]
    for i, p in enumerate(xyz):
        w = fmap(p)
        err = max(abs(got[i][k] - w[k]) for k in range(3))
        if not R.check(err <= _tol(p, c, amp, t1), f"{tag}position",
                       lambda: f"{name} op={op} root={root}: node {i} {p} now reads {got[i]}, stated map gives {w}",
                       f"{tag}position:{_centre_label(op, root)}"):
            return


def check_history(case, R):
    """One transform object built once and applied to a sequence of trees (different sizes and root positions, or the very
    same tree object twice); every result is judged when returned and re-judged after the later calls."""
    op, seq, bank_k = case[0], list(case[1]), case[2]
    R.state(op, seq)
    ok, built = R.impl("construct", _instance, op)
    if not ok:
        return
    name, inst = built
    live, made = [], {}
    for pos, ii in enumerate(seq):
        p, ri = HIST_INPUTS[ii]
        root = ROOTS[ri]
        if ii in made:  # the same input again: the very same tree object
            x, xyz = made[ii]
        else:
            x, xyz32 = _tree(p, root, bank_k)
            xyz = [tuple(float(v) for v in q) for q in xyz32]
            made[ii] = (x, xyz)
        res = _apply_checked(R, x, xyz, root, op, f"history[{pos}]:", prepared=(name, inst))
        if res is None:
            continue
        y = res[0]
        cols = _cols(y)
        live.append((pos, y, xyz, root, cols))
        R.outcome(op[0], ii, pos)
    for pos, y, xyz, root, cols in live[:-1]:
        _positions(R, y, xyz, root, op, f"history[{pos}]:re-inspected-after-later-calls:", name)
        R.check(_cols(y) == cols, "history:re-inspected-after-later-calls:column-changed", lambda: f"{name} op={op}: id/pid/type/r of an earlier result changed")


# ------------------------------------------------------------------ matrix builders


def check_builder(case, R):
    from swcgeom.utils import rotate3d, rotate3d_x, rotate3d_y, rotate3d_z, scale3d, translate3d

    name, args = case[0], case[1]
    R.state(name, args)
    if name == "scale3d":
        ok, m = R.impl(name, scale3d, *args)
        want = [[args[0], 0, 0, 0], [0, args[1], 0, 0], [0, 0, args[2], 0], [0, 0, 0, 1]]
    elif name == "translate3d":
        ok, m = R.impl(name, translate3d, *args)
        want = [[1, 0, 0, args[0]], [0, 1, 0, args[1]], [0, 0, 1, args[2]], [0, 0, 0, 1]]
    else:
        if name == "rotate3d":
            n, th, form = tuple(args[0]), args[1], args[2]
            ok, m = R.impl(name, rotate3d, _axis_arg(n, form), th)
        else:
            n, th = XYZ_AXES["rot" + name[-1]], args[0]
            ok, m = R.impl(name, {"rotate3d_x": rotate3d_x, "rotate3d_y": rotate3d_y, "rotate3d_z": rotate3d_z}[name], th)
        r3 = G.rotation_matrix(n, th)
        want = [r3[0] + [0.0], r3[1] + [0.0], r3[2] + [0.0], [0.0, 0.0, 0.0, 1.0]]
    if not ok:
        return
    m = np.asarray(m)
    R.retain(f"builder:{name}", lambda m=m: m.tolist())
    if not R.check(m.shape == (4, 4), "builder:shape", lambda: f"{name}{args}: shape {m.shape}", f"builder:shape:{name}"):
        return
    got = [[float(v) for v in row] for row in m.tolist()]
    mag = max(1.0, max(abs(v) for row in want for v in row))
    err = max(abs(got[i][j] - want[i][j]) for i in range(4) for j in range(4))
    R.check(err <= 8 * EPS32 * mag, "builder:matrix", lambda: f"{name}{args}: got {got} want {want}", f"builder:matrix:{name}")
    R.outcome(name, [round(v, 4) for row in want for v in row])
    if name.startswith("rotate3d"):
        r = [row[:3] for row in got[:3]]
        rtr = [[sum(r[k][i] * r[k][j] for k in range(3)) for j in range(3)] for i in range(3)]
        R.check(max(abs(rtr[i][j] - (1.0 if i == j else 0.0)) for i in range(3) for j in range(3)) <= 32 * EPS32, "builder:orthogonal",
                lambda: f"{name}{args}: R^T R = {rtr}", f"builder:orthogonal:{name}")
        R.check(abs(G.det3(r) - 1.0) <= 32 * EPS32, "builder:det", lambda: f"{name}{args}: det {G.det3(r)}", f"builder:det:{name}")
        rn = G.mat_apply(r, n)
        R.check(max(abs(rn[k] - n[k]) for k in range(3)) <= 32 * EPS32, "builder:axis-not-fixed", lambda: f"{name}{args}: R n = {rn}", f"builder:axis-not-fixed:{name}")
        if th == math.pi / 2:
            # literal right-handedness: a quarter turn about n takes u to n x u for u perpendicular to n
            u = G.unit(G.cross(n, (0.3, -0.5, 0.8) if abs(n[2]) < 0.9 else (1.0, 0.0, 0.0)))
            ru, nxu = G.mat_apply(r, u), G.cross(n, u)
            R.check(max(abs(ru[k] - nxu[k]) for k in range(3)) <= 32 * EPS32, "builder:handedness",
                    lambda: f"{name}{args}: R u = {ru}, n x u = {nxu}", f"builder:handedness:{name}")
    if name == "scale3d" and all(v == 1 for v in args) or name == "translate3d" and all(v == 0 for v in args):
        R.trivial()


# ------------------------------------------------------------------ several transform objects alive at once

PAIR_OPS = HIST_OPS + [
    ["translate", [100.0, 0.0, -50.0], "root", "call"],
    ["scale", [2.0, 2.0, 2.0], "root", "call"],
    ["rotx", -0.7, "origin", "call"],
    ["rotate", [0.0, 0.0, 1.0], math.pi / 2, "root", "call", "f64"],
    ["rotate", [1 / math.sqrt(3), 1 / math.sqrt(3), 1 / math.sqrt(3)], 2.1, None, "call", "list"],
]
PAIR_INPUTS = [([-1, 0, 0], 1), ([-1, 2, 0, 0], 2)]


def check_pair(case, R):
    """Two transform objects are BUILT first (so whatever the second constructor does can disturb the first), then applied:
    A(x), B(A(x)), A(x) again, and Transforms(A, B)(x), each judged against the stated map of its own object."""
    from swcgeom.transforms import Transforms

    ia, ib, ii, bank_k = case
    opa, opb = PAIR_OPS[ia], PAIR_OPS[ib]
    p, ri = PAIR_INPUTS[ii]
    root = ROOTS[ri]
    R.state(ia, ib, ii)
    ok, a = R.impl("construct", _instance, opa)
    if not ok:
        return
    ok, b = R.impl("construct", _instance, opb)
    if not ok:
        return
    x, xyz32 = _tree(p, root, bank_k)
    xyz = [tuple(float(v) for v in q) for q in xyz32]
    r1 = _apply_checked(R, x, xyz, root, opa, "pair[first-built]:", prepared=a)
    if r1 is None or R._failed:
        return
    y1, got1 = r1[0], r1[1]
    r2 = _apply_checked(R, y1, got1, got1[0], opb, "pair[second-built]:", prepared=b)
    if r2 is None or R._failed:
        return
    y2, got2 = r2[0], r2[1]
    r3 = _apply_checked(R, x, xyz, root, opa, "pair[first-built,again]:", prepared=a)
    if r3 is None or R._failed:
        return
    _positions(R, y1, xyz, root, opa, "pair[first result re-inspected]:", a[0])
    ok, t = R.impl("Transforms", lambda: Transforms(a[1], b[1]))
    if not ok:
        return
    ok, y12 = R.impl("Transforms.__call__", t, x)
    if not ok:
        return
    g12 = [tuple(float(v) for v in row) for row in np.asarray(y12.xyz(), dtype=np.float64).tolist()]
    n = len(xyz)
    if R.check(len(g12) == n, "pair:compose:shape", lambda: f"Transforms({opa},{opb}) returned {len(g12)} nodes for {n}"):
        mag = max(1.0, max(abs(v) for q in got2 for v in q))
        err = max(abs(g12[i][k] - got2[i][k]) for i in range(n) for k in range(3))
        R.check(err <= 64 * EPS32 * mag, "pair:compose", lambda: f"Transforms(A,B)(x) differs from B(A(x)) by {err:.3g}: A={opa} B={opb}",
                f"pair:compose:{opa[0]}+{opb[0]}")
    R.outcome(opa[0], opb[0], [round(v, 2) for v in got2[-1]])


BUILDER_PAIR_CASES = [
    ["rotate3d", [[0.0, 0.0, 1.0], math.pi / 2, "f64"]],
    ["rotate3d", [[1 / SQ14, 2 / SQ14, 3 / SQ14], 1.234, "f64"]],
    ["rotate3d", [[1.0, 0.0, 0.0], -0.7, "list"]],
    ["rotate3d_x", [1.234]],
    ["rotate3d_y", [-0.7]],
    ["rotate3d_z", [math.pi / 2]],
    ["scale3d", [0.5, 2.0, 3.0]],
    ["scale3d", [2.0, 2.0, 2.0]],
    ["translate3d", [1.0, -2.0, 0.5]],
    ["translate3d", [100.0, 0.0, -50.0]],
]


def _call_builder(name, args):
    from swcgeom import utils as U

    if name == "rotate3d":
        return U.rotate3d(_axis_arg(tuple(args[0]), args[2]), args[1])
    return getattr(U, name)(*args)


def check_builder_pair(case, R):
    """Every ordered pair (triple) of matrix-builder calls: an earlier matrix keeps its content while later ones are built,
    and writing into a later matrix does not reach an earlier one (the transform classes store these arrays)."""
    seq = list(case)
    R.state(seq)
    mats = []
    for k in seq:
        name, args = BUILDER_PAIR_CASES[k]
        ok, m = R.impl(name, _call_builder, name, args)
        if not ok:
            return
        m = np.asarray(m)
        mats.append((name, args, m, m.tolist()))
    for name, args, m, first in mats[:-1]:
        R.check(m.tolist() == first, "builder-pair:earlier-matrix-changed",
                lambda: f"{name}{args} changed after later builder calls {[BUILDER_PAIR_CASES[k][0] for k in seq]}",
                f"builder-pair:earlier-matrix-changed:{name}")
    last = mats[-1][2]
    if last.flags.writeable:
        keep = last.copy()
        last += 1.0
        for name, args, m, first in mats[:-1]:
            if m is last or (name, args) == (mats[-1][0], mats[-1][1]):
                continue  # the same request again may legitimately be served from the same storage
            R.check(m.tolist() == first, "builder-pair:matrices-share-storage",
                    lambda: f"writing into the matrix of {mats[-1][0]} changed the earlier matrix of {name}{args}",
                    f"builder-pair:matrices-share-storage:{name}")
        last[...] = keep
    same = [i for i in range(len(mats) - 1) if mats[i][2] is last and (mats[i][0], mats[i][1]) != (mats[-1][0], mats[-1][1])]
    R.check(not same, "builder-pair:same-object", lambda: f"{mats[-1][0]} returned the array object of a different earlier call", "builder-pair:same-object")
    R.outcome(tuple(seq))


# ------------------------------------------------------------------ spaces


def _ops(tier):
    quick = tier == "quick"
    angles = ANGLES_Q if quick else ANGLES_T
    axes = AXES_Q if quick else AXES_T
    factors = FACTORS_Q if quick else FACTORS_T
    for t in TRANSLATIONS:
        for centre in (None, "root"):
            for via in ("call", "transform"):
                yield ["translate", list(t), centre, via]
    for via in ("call", "transform"):
        yield ["translate_origin", via]
    for centre in CENTRES:
        for sx in factors:
            for sy in factors:
                for sz in factors:
                    yield ["scale", [sx, sy, sz], centre, "call"]
        for s in ([2.0, 2.0, 2.0], [0.5, 2.0, 3.0]):
            yield ["scale", s, centre, "transform"]
    for kind in ("rotx", "roty", "rotz"):
        for th in angles:
            for centre in CENTRES:
                yield [kind, th, centre, "call"]
            yield [kind, th, None, "transform"]
            yield [kind, th, "origin", "transform"]
    for n in axes:
        for th in angles:
            for centre in CENTRES:
                yield ["rotate", list(n), th, centre, "call", "f64"]
            yield ["rotate", list(n), th, None, "transform", "f64"]
            if True:
                yield ["rotate", list(n), th, "root", "call", "f32"]
                yield ["rotate", list(n), th, "origin", "call", "list"]
    for s, th, t in (([2.0, 2.0, 2.0], math.pi / 2, [0.0, 0.0, 0.0]), ([0.5, 2.0, 3.0], 1.234, [1.0, -2.0, 0.5]), ([1.0, 1.0, 1.0], -math.pi / 3, [100.0, 0.0, -50.0])):
        for centre in (None, "root", "soma", "origin"):
            yield ["affine", s, th, t, centre]


def _builder_cases(tier):
    quick = tier == "quick"
    angles = ANGLES_Q if quick else ANGLES_T
    axes = AXES_Q if quick else AXES_T
    factors = FACTORS_Q if quick else FACTORS_T
    for sx in factors:
        for sy in factors:
            for sz in factors:
                yield ["scale3d", [sx, sy, sz]]
    for t in TRANSLATIONS + [(-1.5, 2.25, 1e3)]:
        yield ["translate3d", list(t)]
    for th in angles:
        for nm in ("rotate3d_x", "rotate3d_y", "rotate3d_z"):
            yield [nm, [th]]
        for n in axes:
            for form in ("f64", "f32", "list"):
                yield ["rotate3d", [list(n), th, form]]


def check_root_row(case, R):
    """The same transforms on trees whose ROOT IS NOT THE FIRST ROW (a file that lists the soma last and is read without sorting, a
    tree re-rooted without sorting): 'the root' is the node without a parent, wherever it is stored."""
    p0, ri, bank_k, op, where = list(case[0]), case[1], case[2], case[3], case[4]
    n = len(p0)
    root = ROOTS[ri]
    xyz0, r0 = _geometry(n, root, bank_k)
    # move the root row to `where` (last / middle): row order = the other nodes with the root inserted at that position
    rest = list(range(1, n))
    k = len(rest) if where == "last" else len(rest) // 2
    order = rest[:k] + [0] + rest[k:]
    new_of = {old: new for new, old in enumerate(order)}
    p = [-1 if p0[old] == -1 else new_of[p0[old]] for old in order]
    xyz32 = [xyz0[old] for old in order]
    rr = [r0[old] for old in order]
    types = [1 if old == 0 else 2 + (old % 3) for old in order]
    x = build.make_tree(p, xyz=xyz32, r=rr, types=types)
    xyz = [tuple(float(v) for v in q) for q in xyz32]
    rrow = order.index(0)
    R.state(p, ri, op, where)
    name, call = _make(op)
    snap = build.snapshot(x)
    ok, y = R.impl(name, call, x)
    if not ok:
        return
    got = [tuple(float(v) for v in row) for row in np.asarray(y.xyz(), dtype=np.float64).tolist()]
    fmap, amp, t1 = _ref_map(op, root)
    c = _centre_point(op, root)
    lab = _centre_label(op, root)
    for i in range(n):
        want = fmap(xyz[i])
        err = max(abs(got[i][k_] - want[k_]) for k_ in range(3))
        R.check(err <= _tol(xyz[i], c, amp, t1), "root-row:position",
                lambda: f"{name} op={op} on a tree whose root is row {rrow} of {n} (root at {root}): node {i} at {xyz[i]} -> {got[i]}, stated map gives "
                        f"{tuple(round(v, 6) for v in want)}", f"root-row:position:{lab}")
    R.check(_cols(y) == _cols(x) and build.snapshot(x) == snap, "root-row:column-changed", lambda: f"{name} op={op}", "root-row:columns")
    R.outcome(op[0], where)


def spaces(tier, seed):
    quick = tier == "quick"
    roots = [0, 1, 2]
    bank_k = seed % 4
    # every numbering (children may precede parents) up to 4 nodes; thorough adds all sorted 5-node trees
    trees = [p for n in range(1, 5) for p in S.labelled_trees(n)]
    if not quick:
        trees += list(S.sorted_trees(5))

    def gen():
        for p in trees:
            for ri in roots:
                for op in _ops(tier):
                    yield [list(p), ri, bank_k, op]

    def gen_root_row():
        rr_trees = [p for n in range(2, 5) for p in S.sorted_trees(n)]
        for p in rr_trees:
            for ri in (1, 2):
                for where in ("last", "middle"):
                    for op in _ops(tier):
                        if op[0] in ("scale", "rotate") and op[-1] != "call" and quick:
                            continue
                        if op[0] == "scale" and quick and sorted(set(op[1])) not in ([0.5, 2.0, 3.0], [2.0], [-1.0, 0.5, 2.0]) and op[1] != [2.0, 2.0, 2.0] and op[1] != [0.5, 2.0, 3.0]:
                            continue
                        yield [list(p), ri, bank_k, op, where]

    def gen_hist():
        k = len(HIST_INPUTS)
        for op in HIST_OPS:
            for i in range(k):
                for j in range(k):
                    yield [op, [i, j], bank_k]
            if not quick:
                for i in range(k):
                    for j in range(k):
                        for l in range(k):
                            yield [op, [i, j, l], bank_k]

    def gen_pairs():
        for ii in range(len(PAIR_INPUTS) if not quick else 1):
            for ia in range(len(PAIR_OPS)):
                for ib in range(len(PAIR_OPS)):
                    yield [ia, ib, ii, bank_k]

    def gen_bpairs():
        k = len(BUILDER_PAIR_CASES)
        for i in range(k):
            for j in range(k):
                yield [i, j]
        if not quick:
            for i in range(k):
                for j in range(k):
                    for l in range(k):
                        yield [i, j, l]

    bounds = {
        "trees": f"all labelled trees (every numbering, root = node 0) with <= 4 nodes{'' if quick else ' + all sorted trees with 5 nodes'} ({len(trees)})",
        "root_positions": [ROOTS[i] for i in roots],
        "children": f"root + generic bank {bank_k} (float32)",
        "translations": TRANSLATIONS,
        "scale_factors_per_axis": FACTORS_Q if quick else FACTORS_T,
        "axes": len(AXES_Q if quick else AXES_T),
        "angles": [round(a, 6) for a in (ANGLES_Q if quick else ANGLES_T)],
        "centres": ["default", "root", "soma", "origin"],
        "ops_per_tree": sum(1 for _ in _ops(tier)),
    }
    return [
        Space.of("root-not-first-row", gen_root_row, check_root_row,
                 bounds={"ST_nodes": [2, 4], "root_row": ["last", "middle"], "roots": [list(ROOTS[1]), list(ROOTS[2])], "ops": "the transform grid (quick: unit / mixed scale factors only)"}),
        Space.of("transforms", gen, check_transform, bounds=bounds, auto_retain=True),
        Space.of("call-histories", gen_hist, check_history, auto_retain=True,
                 bounds={"transform_objects": len(HIST_OPS), "inputs": HIST_INPUTS, "sequence_length": "2" if quick else "2 and 3",
                         "note": "object built once; same input index twice = the same tree object"}),
        Space.of("object-pairs", gen_pairs, check_pair, auto_retain=True,
                 bounds={"transform_objects": len(PAIR_OPS), "ordered_pairs": len(PAIR_OPS) ** 2, "inputs": PAIR_INPUTS,
                         "note": "both objects constructed before either is applied; A(x), B(A(x)), A(x) again, Transforms(A,B)(x)"}),
        Space.of("builder-pairs", gen_bpairs, check_builder_pair,
                 bounds={"builder_calls": len(BUILDER_PAIR_CASES), "sequence_length": "2" if quick else "2 and 3"}),
        Space.of("matrix-builders", lambda: _builder_cases(tier), check_builder,
                 bounds={"cases": sum(1 for _ in _builder_cases(tier)), "axis_forms": ["float64 array", "float32 array", "list"]}),
    ]
