"""C01 — SWC write -> read round trip reproduces the tree."""

from __future__ import annotations

import glob
import itertools
import os
import shutil
import tempfile

import numpy as np

from mc import build, kernel, spaces as S, swcio
from mc.kernel import Space

PROPERTY = "C01"
RULE = (
    "shapes: every labelled tree LT(n), n <= 6, x 5 id offsets (+ every LT(7) at the default offset 1 in thorough), each written "
    "with Tree.to_swc() / Tree.to_swc(fname) and read back through 5 source kinds (StringIO, BytesIO, path written by the "
    "library, path written by the harness, text-mode file handle) with Tree.from_swc, plus read_swc (default and "
    "reset_index=False) on the text; values: a 2-node tree whose x,y,z,r take every combination (thorough: full 4-fold "
    "product; quick: every triple of columns) of a 17-value alphabet with 4th-decimal boundaries, ties, huge and tiny "
    "magnitudes, and every pair of 8 node types; comments: every comment list of length <= 2 over a 9-string alphabet x "
    "source in {True, False, 'custom', ''} x comments flag x tree.source x 3 trees x 3 source kinds; history: BFS over "
    "write(options)+read(source kind) transitions from read-back states, exact canonical states; big: long chains, wide "
    "stars, the example reconstructions; sizes: chains of EVERY length 1..300 (thorough 1..1200) and combs; edits: write+read, "
    "then every single in-place edit (attribute via node handle / column array, column replaced, every admissible re-parenting "
    "x 3 ways, comment list edits, edit of a copy) on every LT(n<=4; thorough 5), then write+read judged against the edited "
    "content; calls: every ordered pair (thorough: triple) of round trips of 6 different trees x 3 source kinds, each result "
    "re-judged after the later calls; every tree returned by the library is also re-inspected after the next two cases "
    "(retained results). Non-trivial = every case (a single node is still a full write+parse); distinct = "
    "distinct case tuple."
)
ASSUMPTIONS = [
    "a tree stores float32 columns: 'original' means the float32 value; the read value must equal float32(d) (Tree) or "
    "float64(d) (read_swc table) for d a correct rounding of the exact original to 4 decimals (both neighbours allowed at "
    "exact ties) - no tolerance is used",
    "node types are non-negative integers; coordinates/radii finite (the statement's quantifier)",
    "comments are compared after str.lstrip() (leading blanks aside per the statement) and with a final line terminator removed; trailing "
    "blanks and tabs after visible text are part of the text and must come back (they do on the pinned tree)",
    "a user comment that itself starts with the column-header text 'id type x y z r pid' is outside the comment alphabet "
    "(the text format cannot distinguish it from the writer's header); the near miss 'id type' is inside",
    "the writer's source header is allowed to be absent, or any leading block with at most one non-blank line; its text is "
    "not asserted; with source=False nothing may be added",
    "tree.source of a read-back tree is not asserted and is reset to '' before the next write in the history BFS "
    "(it would embed the scratch directory name)",
]

COLS = ("x", "y", "z", "r")
OFFSETS = (0, 1, 2, 7, 1000)
KINDS = ("text", "bytes", "path-lib", "path-harness", "textfile", "path-bytes", "path-rel", "fd")

V = [0.0, 1.0, -1.0, 0.5, 0.03125, 0.00004, 0.00005, 0.00006, -0.00004, -0.00005, -0.00007, 1e-7, 0.99995, 1234.5678, 123456.789,
     2000000.125, 1e20, 3.4e38]
TYPES = [0, 1, 2, 3, 7, 255, 1000, 2**31 - 1]
COMMENT_ALPHABET = ["a", "two words", "  lead", "", "   ", "# hash", "trail  ", "id type", "café µm", "tab\t", "cell |  "]
HEADER_TEXT = "id type x y z r pid"


# ------------------------------------------------------------------ building and observing


def tagged(n):
    """Per-node values that are unique per node and not representable in 4 decimals."""
    f = swcio.f32
    return {
        "type": [1] + [2 + (i * 3) % 6 for i in range(1, n)],
        "x": [f(i + 0.12345) for i in range(n)],
        "y": [f(-0.33333 * i - 0.00005) for i in range(n)],
        "z": [f(100.00006 * i) for i in range(n)],
        "r": [f(0.5 + 0.00017 * i) for i in range(n)],
    }


def mk(p, vals, comments=None, source=""):
    n = len(p)
    t = build.make_tree(list(p), xyz=list(zip(vals["x"], vals["y"], vals["z"])), r=vals["r"], types=vals["type"],
                        comments=list(comments or []))
    t.source = source
    assert len(t) == n
    return t


def observe_tree(t):
    return {
        "id": [int(v) for v in t.id().tolist()],
        "pid": [int(v) for v in t.pid().tolist()],
        "type": [int(v) for v in t.type().tolist()],
        **{c: [float(v) for v in t.get_ndata(c).tolist()] for c in COLS},
        "float": str(t.x().dtype),
    }


def observe_df(df):
    return {
        "id": [int(v) for v in df["id"].tolist()],
        "pid": [int(v) for v in df["pid"].tolist()],
        "type": [int(v) for v in df["type"].tolist()],
        **{c: [float(v) for v in df[c].tolist()] for c in COLS},
        "float": "float64",
    }


def orig_of(t):
    o = observe_tree(t)
    return {"p": o["pid"], "type": o["type"], **{c: o[c] for c in COLS}}


# ------------------------------------------------------------------ oracles


def judge_tree(R, what, orig, got, text, relational_ids=False):
    """Topology, types, values of one read-back against the original (plain lists)."""
    p = orig["p"]
    n = len(p)
    ctx = lambda: f"{what}: p={p} got id={got['id'][:12]} pid={got['pid'][:12]} text={text[:400]!r}"  # noqa: E731
    if not R.check(len(got["id"]) == n, "node-count", lambda: ctx() + f" rows={len(got['id'])} want {n}", f"{what}:count"):
        return False
    ok = True
    if relational_ids:
        ids = got["id"]
        good = len(set(ids)) == n and all(
            (got["pid"][i] == -1) if p[i] == -1 else (got["pid"][i] == ids[p[i]]) for i in range(n))
        ok &= R.check(good, "parent", ctx, f"{what}:parent")
    else:
        ok &= R.check(got["id"] == list(range(n)), "ids", ctx, f"{what}:ids")
        ok &= R.check(got["pid"] == p, "parent", ctx, f"{what}:parent")
    ok &= R.check(got["type"] == orig["type"], "type", lambda: ctx() + f" types {got['type'][:12]} want {orig['type'][:12]}",
                  f"{what}:type")
    to_store = swcio.f32 if got["float"] == "float32" else float
    for c in COLS:
        for i in range(n):
            o, g = orig[c][i], got[c][i]
            allowed = [to_store(d) for d in swcio.round4_candidates(o)]
            if g not in allowed:
                ok = False
                R.fail("value", f"{what}: column {c} node {i}: original {o!r} read {g!r}, correct 4-decimal roundings "
                       f"{swcio.round4_candidates(o)} -> stored {allowed}; text={text[:300]!r}", f"{what}:value")
                break
    return ok


def judge_comments(R, what, written, read, source_opt, text):
    """read = [optional source header block] + written, compared with leading blanks aside."""
    norm = lambda c: c.lstrip().rstrip("\r\n")  # noqa: E731 - "leading blanks aside": trailing blanks and tabs belong to the text
    w = [norm(c) for c in written]
    g = [norm(c) for c in read]
    has_blank = any(c.strip() == "" and c != "" for c in written)
    extra_header = any(c.startswith(HEADER_TEXT) for c in g)

    def klass(base):
        if extra_header:
            return f"{what}:comments:column-header-returned"
        if has_blank:
            return f"{what}:comments:whitespace-only-comment"
        return f"{what}:comments:{base}"

    ctx = lambda: f"{what}: written={written!r} source={source_opt!r} read={read!r} text={text[:400]!r}"  # noqa: E731
    if not R.check(len(g) >= len(w), "comments-lost", ctx, klass("lost")):
        return False
    head, tail = g[: len(g) - len(w)], g[len(g) - len(w):]
    if not R.check(tail == w, "comments-differ", ctx, klass("differ")):
        return False
    if source_opt is False:
        return R.check(head == [], "comments-added", ctx, klass("added"))
    return R.check(sum(1 for h in head if h != "") <= 1, "comments-added", ctx, klass("added"))


# ------------------------------------------------------------------ one write + all reads


def write_and_read(R, t, kind, tmp, **wkw):
    """Returns (text or None, tree or None).  kind decides how the text travels."""
    from swcgeom.core import Tree

    if kind == "path-lib":
        path = os.path.join(tmp, "lib.swc")
        ok, _ = R.impl("to_swc(fname)", t.to_swc, path, **wkw)
        if not ok:
            return None, None
        with open(path, "rb") as f:
            text = f.read().decode("utf-8")
        src = path
    else:
        ok, text = R.impl("to_swc", t.to_swc, **wkw)
        if not ok:
            return None, None
        src = swcio.make_source({"path-harness": "path"}.get(kind, kind), text, tmp, "harness.swc")
    try:
        ok, t2 = R.impl(f"from_swc:{kind}", Tree.from_swc, src)
    finally:
        if kind == "textfile" and not src.closed:
            src.close()
    return text, (t2 if ok else None)


def check_shape(case, R):
    from swcgeom.core import swc_utils as su

    p, off = list(case[0]), int(case[1])
    n = len(p)
    R.state(p, off)
    vals = tagged(n)
    t = mk(p, vals, comments=["c0"])
    orig = orig_of(t)
    snap = build.snapshot(t)
    tmp = tempfile.mkdtemp(prefix="c01-")
    try:
        texts = set()
        for kind in KINDS:
            text, t2 = write_and_read(R, t, kind, tmp, id_offset=off)
            if text is not None:
                texts.add(text)
            if t2 is None:
                continue
            got = observe_tree(t2)
            what = f"shape:{kind}"
            judge_tree(R, what, orig, got, text)
            judge_comments(R, what, ["c0"], list(t2.comments), True, text)
            R.outcome(got["pid"], got["x"], tuple(t2.comments))
        # table-level reads of the same text
        ok, text = R.impl("to_swc", t.to_swc, id_offset=off, source=False)
        if ok:
            import io

            ok, res = R.impl("read_swc", su.read_swc, io.StringIO(text))
            if ok:
                judge_tree(R, "shape:read_swc", orig, observe_df(res[0]), text)
                judge_comments(R, "shape:read_swc", ["c0"], list(res[1]), False, text)
            ok, res = R.impl("read_swc(reset_index=False)", su.read_swc, io.StringIO(text), reset_index=False)
            if ok:
                judge_tree(R, "shape:read_swc-raw-ids", orig, observe_df(res[0]), text, relational_ids=True)
        R.check(build.snapshot(t) == snap, "input-modified", lambda: f"writing changed the tree p={p}", "shape:input-modified")
    finally:
        shutil.rmtree(tmp, ignore_errors=True)


def check_values(case, R):
    """case = [vx, vy, vz, vr] indices into V (child); the root gets the same values rotated by one column."""
    import io

    from swcgeom.core import Tree

    idx = [int(i) for i in case]
    child = [swcio.f32(V[i]) for i in idx]
    root = child[1:] + child[:1]
    vals = {"type": [1, 3]}
    for k, c in enumerate(COLS):
        vals[c] = [root[k], child[k]]
    R.state(idx)
    t = mk([-1, 0], vals)
    orig = orig_of(t)
    ok, text = R.impl("to_swc", t.to_swc, source=False)
    if not ok:
        return
    ok, t2 = R.impl("from_swc:text", Tree.from_swc, io.StringIO(text))
    if not ok:
        return
    got = observe_tree(t2)
    judge_tree(R, "values", orig, got, text)
    # the float64 table shows what the text carries before float32 storage can mask it
    from swcgeom.core import swc_utils as su

    ok, res = R.impl("read_swc", su.read_swc, io.StringIO(text))
    if ok:
        judge_tree(R, "values:read_swc", orig, observe_df(res[0]), text)
    if any(swcio.is_tie4(v) for v in child + root):
        R.note("cases-with-exact-4th-decimal-tie")
    R.outcome(got["x"], got["y"], got["z"], got["r"])


SWEEP_BASES = [0.0, 1.0, -1.0, 0.5, -0.03125, 99.9999, -1234.5]
SWEEP_STEP = 0.5e-5  # half of the 5th decimal: every 4th-decimal rounding boundary within the window is crossed on both sides
SWEEP_HALF = 60  # window = base +- 3e-4


def check_value_sweep(case, R):
    """case = [base index, k, column]: one coordinate/radius of the child is base + k * 0.5e-5 (float32), everything else
    tagged; closes the value axis around zero, around the sign change and around every rounding boundary of a window."""
    import io

    from swcgeom.core import Tree

    b, k, col = int(case[0]), int(case[1]), int(case[2])
    v = swcio.f32(SWEEP_BASES[b] + k * SWEEP_STEP)
    vals = tagged(2)
    vals[COLS[col]] = [vals[COLS[col]][0], v]
    R.state(repr(float(v)), col)
    t = mk([-1, 0], vals)
    orig = orig_of(t)
    ok, text = R.impl("to_swc", t.to_swc, source=False)
    if not ok:
        return
    for kind, mkse in (("text", lambda: io.StringIO(text)), ("bytes", lambda: io.BytesIO(text.encode()))):
        ok, t2 = R.impl(f"from_swc:{kind}", Tree.from_swc, mkse())
        if ok:
            judge_tree(R, f"value-sweep:{kind}", orig, observe_tree(t2), text)
            R.outcome(col, observe_tree(t2)[COLS[col]][1])
    if swcio.is_tie4(v):
        R.note("cases-with-exact-4th-decimal-tie")


def check_types(case, R):
    import io

    from swcgeom.core import Tree

    a, b = int(case[0]), int(case[1])
    vals = tagged(2)
    vals["type"] = [a, b]
    R.state(a, b)
    t = mk([-1, 0], vals)
    ok, text = R.impl("to_swc", t.to_swc, source=False)
    if not ok:
        return
    for kind, mkse in (("text", lambda: io.StringIO(text)), ("bytes", lambda: io.BytesIO(text.encode()))):
        ok, t2 = R.impl(f"from_swc:{kind}", Tree.from_swc, mkse())
        if ok:
            got = observe_tree(t2)
            judge_tree(R, "types", orig_of(t), got, text)
            R.outcome(got["type"])


COMMENT_TREES = ([-1], [-1, 0, 0], [-1, 0, 1, 1])
COMMENT_KINDS = ("text", "bytes", "path-lib")


def comment_lists(max_len):
    for k in range(max_len + 1):
        for tup in itertools.product(range(len(COMMENT_ALPHABET)), repeat=k):
            yield list(tup)


def check_comments(case, R):
    ti, cidx, source_opt, flag, tsource, kind = case
    p = COMMENT_TREES[int(ti)]
    comments = [COMMENT_ALPHABET[int(i)] for i in cidx]
    R.state(ti, cidx, source_opt, flag, tsource, kind)
    t = mk(p, tagged(len(p)), comments=comments, source=tsource)
    tmp = tempfile.mkdtemp(prefix="c01-")
    try:
        text, t2 = write_and_read(R, t, kind, tmp, source=source_opt, comments=bool(flag))
        if t2 is None:
            return
        written = comments if flag else []
        what = "comments"
        judge_tree(R, what, orig_of(t), observe_tree(t2), text)
        judge_comments(R, what, written, list(t2.comments), source_opt, text)
        R.check(list(t.comments) == comments, "input-modified", "writing changed tree.comments", "comments:input-modified")
        R.outcome(tuple(t2.comments))
    finally:
        shutil.rmtree(tmp, ignore_errors=True)


# ------------------------------------------------------------------ history BFS

WRITE_OPTS = (
    {"source": False, "comments": True, "id_offset": 1},
    {"source": False, "comments": True, "id_offset": 0},
    {"source": True, "comments": True, "id_offset": 1},
    {"source": "custom", "comments": True, "id_offset": 7},
    {"source": False, "comments": False, "id_offset": 1},
    {"source": True, "comments": False, "id_offset": 1000},
)
HISTORY_KINDS = ("text", "bytes", "path-lib")
HISTORY_TREES = ([-1], [-1, 0], [-1, 0, 0, 1])
HISTORY_COMMENTS = ([], ["a"], ["  lead", ""], ["   ", "b"], ["# hash", "trail  "])


def check_history(case, R):
    ti, ci, depth = int(case[0]), int(case[1]), int(case[2])
    p = HISTORY_TREES[ti]
    t0 = mk(p, tagged(len(p)), comments=HISTORY_COMMENTS[ci])
    tmp = tempfile.mkdtemp(prefix="c01-")

    def canon(t):
        return build.canon_tree(t)

    def enabled(_t):
        return [(oi, k) for oi in range(len(WRITE_OPTS)) for k in HISTORY_KINDS]

    def step(t, ev):
        oi, kind = ev
        text, t2 = write_and_read(R, t, kind, tmp, **WRITE_OPTS[oi])
        if t2 is None:
            return None
        t2._c01_text = text
        t2.source = ""  # owned nondeterminism: would embed the scratch path
        return t2

    def invariant(prev, ev, nxt, d):
        oi, kind = ev
        o = WRITE_OPTS[oi]
        what = "history"
        text = nxt._c01_text
        judge_tree(R, what, orig_of(prev), observe_tree(nxt), text)
        written = list(prev.comments) if o["comments"] else []
        # with source=False this makes the comment list a fixpoint of write o read (up to blanks)
        judge_comments(R, what, written, list(nxt.comments), o["source"], text)

    try:
        st = kernel.bfs(R, [t0], enabled, step, canon, invariant, max_depth=depth)
        R.outcome(st["states"], st["transitions"])
        R.note("bfs-states", st["states"])
        if st["fixpoint"]:
            R.note("bfs-fixpoint")
    finally:
        shutil.rmtree(tmp, ignore_errors=True)


# ------------------------------------------------------------------ big instances


def big_parent(kind, n):
    if kind == "chain":
        return [-1] + list(range(n - 1))
    if kind == "star":
        return [-1] + [0] * (n - 1)
    if kind == "comb":  # spine 0,1,3,5,... with one tip hanging from every spine node
        return [-1] + [(0 if i == 1 else i - 2) if i % 2 == 1 else i - 1 for i in range(1, n)]
    raise ValueError(kind)


def check_big(case, R):
    from swcgeom.core import Tree

    kind = case[0]
    tmp = tempfile.mkdtemp(prefix="c01-")
    try:
        if kind == "file":
            path = os.path.join(os.environ.get("VERIF_REPO", "/repo"), case[1])
            ok, t = R.impl("from_swc(example)", Tree.from_swc, path)
            if not ok:
                return
            wf, why = build.wellformed(t)
            if not wf:
                R.skip("example-not-wellformed")
                return
            t.source = ""
            comments = list(t.comments)
            if any(c.strip().startswith(HEADER_TEXT) for c in comments):
                R.skip("example-comment-is-column-header")
                return
        else:
            n = int(case[1])
            p = big_parent(kind, n)
            comments = ["big"]
            t = mk(p, tagged(n), comments=comments)
        R.state(case)
        orig = orig_of(t)
        for k, off in (("text", 1), ("bytes", 0), ("path-lib", 1000)):
            text, t2 = write_and_read(R, t, k, tmp, id_offset=off, source=False)
            if t2 is None:
                continue
            judge_tree(R, f"big:{k}", orig, observe_tree(t2), text)
            judge_comments(R, f"big:{k}", comments, list(t2.comments), False, text)
            R.outcome(len(t2), k)
    finally:
        shutil.rmtree(tmp, ignore_errors=True)


# ------------------------------------------------------------------ size sweep (lesson 3)


def check_size(case, R):
    """Every size in a range that crosses buffer / chunk thresholds (a row is ~45 bytes: 8 KiB at ~180 rows)."""
    shape, n = case[0], int(case[1])
    p = big_parent(shape, n)
    R.state(shape, n)
    t = mk(p, tagged(n), comments=["s"])
    orig = orig_of(t)
    tmp = tempfile.mkdtemp(prefix="c01-")
    try:
        for k in ("text", "bytes", "path-lib"):
            text, t2 = write_and_read(R, t, k, tmp, source=False)
            if t2 is None:
                continue
            judge_tree(R, f"size:{k}", orig, observe_tree(t2), text)
            judge_comments(R, f"size:{k}", ["s"], list(t2.comments), False, text)
        R.outcome(n)
    finally:
        shutil.rmtree(tmp, ignore_errors=True)


# ------------------------------------------------------------------ write -> edit in place -> write again (lesson 2)

NEWV = {"x": 77.77777, "y": -0.00005, "z": 2000000.125, "r": 3.33333}


def edits_for(p, comments):
    n = len(p)
    out = []
    for i in range(n):
        out.append(["attr-handle", i, "x"])
        out.append(["attr-column", i, "r"])
        out.append(["type-handle", i])
    out.append(["column-replaced", "y"])
    out.append(["copy-then-attr", n - 1, "z"])
    for i, j in build.reparent_edits(p):
        for how in build.EDIT_HOWS:
            out.append(["reparent", i, j, how])
    out.append(["comments-append"])
    out.append(["comments-assign"])
    if comments:
        out.append(["comments-setitem"])
        out.append(["comments-clear"])
    return out


def check_edit(case, R):
    p, comments, edit = list(case[0]), list(case[1]), list(case[2])
    n = len(p)
    R.state(p, comments, edit)
    model = {"p": list(p), **{k: list(v) for k, v in tagged(n).items()}}
    mcomments = list(comments)
    t = mk(p, model, comments=comments)
    tmp = tempfile.mkdtemp(prefix="c01-")

    def roundtrip(obj, mdl, mcom, tag):
        for k in ("text", "path-lib"):
            text, t2 = write_and_read(R, obj, k, tmp, source=False)
            if t2 is None:
                continue
            orig = {"p": mdl["p"], "type": mdl["type"], **{c: [swcio.f32(v) for v in mdl[c]] for c in COLS}}
            judge_tree(R, f"edit:{tag}:{k}", orig, observe_tree(t2), text)
            judge_comments(R, f"edit:{tag}:{k}", mcom, list(t2.comments), False, text)

    try:
        roundtrip(t, model, mcomments, "warm")  # warm every cache a writer might keep
        kind = edit[0]
        other = None
        target = t
        new_model = {k: list(v) for k, v in model.items()}
        new_comments = list(mcomments)
        if kind == "attr-handle":
            i, c = int(edit[1]), edit[2]
            setattr(t.node(i), c, NEWV[c])
            new_model[c][i] = NEWV[c]
        elif kind == "attr-column":
            i, c = int(edit[1]), edit[2]
            t.get_ndata(c)[i] = NEWV[c]
            new_model[c][i] = NEWV[c]
        elif kind == "type-handle":
            i = int(edit[1])
            t.node(i).type = 9
            new_model["type"][i] = 9
        elif kind == "column-replaced":
            c = edit[1]
            t.ndata[c] = (t.ndata[c] + np.float32(1.00001)).astype(np.float32)
            new_model[c] = [float(v) for v in t.ndata[c].tolist()]
        elif kind == "copy-then-attr":
            i, c = int(edit[1]), edit[2]
            target = t.copy()
            setattr(target.node(i), c, NEWV[c])
            new_model[c][i] = NEWV[c]
            other = (t, model, mcomments)
        elif kind == "reparent":
            i, j, how = int(edit[1]), int(edit[2]), edit[3]
            target, q, oth, _ = build.apply_reparent(t, p, (i, j, how))
            new_model["p"] = list(q)
            if oth is not None:
                other = (oth, model, mcomments)
        elif kind == "comments-append":
            t.comments.append("later")
            new_comments.append("later")
        elif kind == "comments-assign":
            t.comments = ["fresh", "list"]
            new_comments = ["fresh", "list"]
        elif kind == "comments-setitem":
            t.comments[0] = "changed"
            new_comments[0] = "changed"
        elif kind == "comments-clear":
            t.comments.clear()
            new_comments = []
        else:
            raise ValueError(kind)
        roundtrip(target, new_model, new_comments, kind)
        if other is not None:
            roundtrip(other[0], other[1], other[2], kind + ":original-after-copy-edit")
        R.outcome(kind, new_model["p"], tuple(new_comments))
    finally:
        shutil.rmtree(tmp, ignore_errors=True)


# ------------------------------------------------------------------ call histories on different fresh inputs (lesson 1)

CALL_POOL = (([-1], ["a"]), ([-1, 0], []), ([-1, 0], ["b", "c"]), ([-1, 0, 0], ["d"]), ([-1, 0, 1], ["   ", "e"]), ([-1, 0, 1, 1], []))
CALL_KINDS = ("text", "bytes", "path-lib")


def check_calls(case, R):
    """A sequence of round trips of different trees; every read-back is judged when returned AND again after all later
    calls; two reads of one text must be independent objects."""
    seq = [(int(a), k) for a, k in case]
    R.state(seq)
    tmp = tempfile.mkdtemp(prefix="c01-")
    live = []
    try:
        for pos, (ti, kind) in enumerate(seq):
            if ti < 0:
                _other_reader_use(R, kind)
                continue
            p, comments = CALL_POOL[ti]
            vals = tagged(len(p))
            vals["x"] = [swcio.f32(v + 10.0 * ti) for v in vals["x"]]
            t = mk(p, vals, comments=comments)
            orig = orig_of(t)
            text, t2 = write_and_read(R, t, kind, tmp, source=False)
            if t2 is None:
                continue
            good = judge_tree(R, f"calls:{kind}", orig, observe_tree(t2), text)
            good &= judge_comments(R, f"calls:{kind}", comments, list(t2.comments), False, text)
            R.outcome(ti, kind, tuple(t2.comments), observe_tree(t2)["x"])
            if good:
                live.append((orig, comments, t2, text, kind, t))
            if pos == 0:
                _, t3 = write_and_read(R, t, kind, tmp, source=False)
                if t3 is not None:
                    why = build.independent(t2, t3)
                    R.check(why == "", "reads-share-state", lambda: f"two reads of the same text: {why}", "calls:reads-share-state")
        for orig, comments, t2, text, kind, t in live:
            judge_tree(R, f"calls:{kind}:re-inspected-after-later-calls", orig, observe_tree(t2), text)
            judge_comments(R, f"calls:{kind}:re-inspected-after-later-calls", comments, list(t2.comments), False, text)
            R.check(orig_of(t) == orig and list(t.comments) == list(comments), "input-modified", "a written tree changed after later calls",
                    "calls:input-modified")
    finally:
        shutil.rmtree(tmp, ignore_errors=True)


OTHER_USES = ("extra-cols", "eswc", "malformed", "extra-cols-malformed")


def _other_reader_use(R, what):
    """Other uses of the same reader/writer in between two round trips (not judged here - C02 does - only that they leave no trace):
    a file with extra columns, an ESWC file, a malformed file (rejected), a malformed file with extra columns."""
    import io

    from swcgeom.core import Tree
    from swcgeom.core import swc_utils as su

    if what == "extra-cols":
        R.attempt(su.read_swc, io.StringIO("1 1 0 0 0 1 -1 7.5 3\n2 3 1 0 0 1 1 8.5 4\n"), extra_cols=["a", "b"])
        R.attempt(Tree.from_swc, io.StringIO("1 1 0 0 0 1 -1 7.5\n2 3 1 0 0 1 1 8.5\n"), extra_cols=["a"])
    elif what == "eswc":
        R.attempt(Tree.from_eswc, io.StringIO("1 1 0 0 0 1 -1 1 2 3 4 5\n2 3 1 0 0 1 1 1 2 3 4 5\n"))
    elif what == "malformed":
        R.attempt(Tree.from_swc, io.StringIO("1 1 0 0 0 1 -1\n2 3 1 0 0 x 1\n3 3 2 0 0 1 2\n"))
        R.attempt(su.read_swc, io.BytesIO(b"1 1 0 0 0 1 -1\n2 3 1 0 0 1\n"))
    else:
        R.attempt(su.read_swc, io.StringIO("1 1 0 0 0 1 -1 7.5\n2 3 1 0 0 1 1 oops\n"), extra_cols=["a"])


# ------------------------------------------------------------------ spaces


def spaces(tier, seed):
    quick = tier == "quick"
    lt_hi = 6

    def gen_shapes():
        for n in range(1, lt_hi + 1):
            for p in S.labelled_trees(n):
                for off in OFFSETS:
                    yield [list(p), off]
        if not quick:
            for p in S.labelled_trees(7):  # ST(7) is a subset
                yield [list(p), 1]

    def gen_values():
        nv = len(V)
        if quick:
            seen = set()
            base = 3  # index of 0.5
            for cols in itertools.combinations(range(4), 3):
                for ijk in itertools.product(range(nv), repeat=3):
                    idx = [base] * 4
                    for c, i in zip(cols, ijk):
                        idx[c] = i
                    if tuple(idx) not in seen:
                        seen.add(tuple(idx))
                        yield idx
        else:
            for idx in itertools.product(range(nv), repeat=4):
                yield list(idx)

    def gen_types():
        for a in TYPES:
            for b in TYPES:
                yield [a, b]

    def gen_comments():
        for cl in comment_lists(2):
            for ti in range(len(COMMENT_TREES)):
                for source_opt in (True, False, "custom", ""):
                    for flag in (1, 0):
                        for tsource in ("", "orig.swc"):
                            for kind in COMMENT_KINDS:
                                yield [ti, cl, source_opt, flag, tsource, kind]

    depth = 3 if quick else 4

    def gen_history():
        for ti in range(len(HISTORY_TREES)):
            for ci in range(len(HISTORY_COMMENTS)):
                yield [ti, ci, depth]

    repo = os.environ.get("VERIF_REPO", "/repo")
    files = sorted(os.path.relpath(f, repo) for f in glob.glob(os.path.join(repo, "examples/data/*.swc")))

    def gen_big():
        if quick:
            yield ["chain", 500]
            yield ["star", 100]
            yield ["comb", 301]
        else:
            yield ["chain", 5000]
            yield ["star", 300]
            yield ["star", 3000]
            yield ["comb", 2001]
            for f in files:
                yield ["file", f]

    size_hi = 300 if quick else 1200

    def gen_sizes():
        for n in range(1, size_hi + 1):
            yield ["chain", n]
        for n in range(2, (size_hi // 4) + 1):
            yield ["comb", n]

    edit_hi = 4 if quick else 5
    edit_comments = ([], ["k", "  lead"])

    def gen_edits():
        for n in range(1, edit_hi + 1):
            for p in S.labelled_trees(n):
                for com in edit_comments:
                    for e in edits_for(list(p), com):
                        yield [list(p), list(com), e]

    elems = [(a, k) for a in range(len(CALL_POOL)) for k in CALL_KINDS]

    def gen_calls():
        for pair in itertools.product(elems, repeat=2):
            yield [list(e) for e in pair]
        # another use of the reader (extra columns, ESWC, a rejected file) before / between round trips
        for use in OTHER_USES:
            for e in elems:
                yield [[-1, use], list(e)]
                for e2 in elems[:: (3 if quick else 1)]:
                    yield [list(e2), [-1, use], list(e)]
        if not quick:
            for tri in itertools.product(elems, repeat=3):
                yield [list(e) for e in tri]

    def gen_sweep():
        for k in sorted(range(-SWEEP_HALF, SWEEP_HALF + 1), key=abs):
            for b in range(len(SWEEP_BASES)):
                for col in range(4):
                    yield [b, k, col]

    out = _base_spaces(quick, lt_hi, depth, gen_shapes, gen_values, gen_types, gen_comments, gen_history, gen_big)
    out += [
        Space.of("value-sweep", gen_sweep, check_value_sweep,
                 bounds={"bases": SWEEP_BASES, "step": SWEEP_STEP, "steps_each_side": SWEEP_HALF, "columns": list(COLS),
                         "note": "every float32 value base + k*0.5e-5, |k| <= 60: both signs around zero, every 4th-decimal boundary of the window"}),
        Space.of("sizes", gen_sizes, check_size, bounds={"chain_nodes": [1, size_hi], "comb_nodes": [2, size_hi // 4], "every_size": True,
                                                          "source_kinds": ["text", "bytes", "path-lib"]}, case_timeout=600.0),
        Space.of("edits", gen_edits, check_edit,
                 bounds={"LT_max_nodes": edit_hi, "comments": [list(c) for c in edit_comments],
                         "edits": "per node: coordinate via handle, radius via column array, type via handle; column replaced; copy then edit; "
                                  "every admissible re-parenting x (handle, column, copy-then-handle); comments append/assign/setitem/clear",
                         "protocol": "write+read (warm), edit in place, write+read judged against the edited content"}),
        Space.of("calls", gen_calls, check_calls,
                 bounds={"pool": [[list(p), list(c)] for p, c in CALL_POOL], "source_kinds": list(CALL_KINDS),
                         "sequences": "all ordered pairs" + ("" if quick else " and triples") + "; every round trip preceded by, and every pair of round trips separated by, another use of the reader",
                         "other_uses": list(OTHER_USES)}),
    ]
    for sp in out:
        sp.auto_retain = True
    return out


def _base_spaces(quick, lt_hi, depth, gen_shapes, gen_values, gen_types, gen_comments, gen_history, gen_big):
    return [
        Space.of("shapes", gen_shapes, check_shape,
                 bounds={"LT_max_nodes": lt_hi, "id_offsets": list(OFFSETS), "LT7_id_offsets": None if quick else [1], "source_kinds": list(KINDS),
                         "table_reads": ["read_swc", "read_swc(reset_index=False)"]}),
        Space.of("values", gen_values, check_values,
                 bounds={"alphabet": V, "columns": list(COLS), "combination": "every triple of columns, the fourth 0.5" if quick else f"full product {len(V)}^4"}),
        Space.of("types", gen_types, check_types, bounds={"types": TYPES, "nodes": 2}),
        Space.of("comments", gen_comments, check_comments,
                 bounds={"alphabet": COMMENT_ALPHABET, "max_len": 2, "source": [True, False, "custom", ""], "comments_flag": [True, False],
                         "tree_source": ["", "orig.swc"], "trees": [list(p) for p in COMMENT_TREES], "source_kinds": list(COMMENT_KINDS)}),
        Space.of("history", gen_history, check_history,
                 bounds={"depth": depth, "write_options": [dict(o) for o in WRITE_OPTS], "source_kinds": list(HISTORY_KINDS),
                         "initial_trees": [list(p) for p in HISTORY_TREES], "initial_comments": [list(c) for c in HISTORY_COMMENTS]},
                 case_timeout=600.0),
        Space.of("big", gen_big, check_big, bounds={"instances": list(gen_big())}, case_timeout=600.0),
    ]
