"""C01 — SWC write -> read round trip reproduces the tree."""

from __future__ import annotations

import glob
import itertools
import os
import shutil
import tempfile

import numpy as np

from mc import build, kernel, spaces as S, swcio
from mc.kernel import Space

PROPERTY = "C01"
RULE = (
    "shapes: every labelled tree LT(n), n <= 6, x 5 id offsets (+ every LT(7) x offsets {0,1} in thorough), each written "
    "with Tree.to_swc() / Tree.to_swc(fname) and read back through 5 source kinds (StringIO, BytesIO, path written by the "
    "library, path written by the harness, text-mode file handle) with Tree.from_swc, plus read_swc (default and "
    "reset_index=False) on the text; values: a 2-node tree whose x,y,z,r take every combination (thorough: full 4-fold "
    "product; quick: every triple of columns) of a 17-value alphabet with 4th-decimal boundaries, ties, huge and tiny "
    "magnitudes, and every pair of 8 node types; comments: every comment list of length <= 2 over a 9-string alphabet x "
    "source in {True, False, custom} x comments flag x tree.source x 3 trees x 3 source kinds; history: BFS over "
    "write(options)+read(source kind) transitions from read-back states, exact canonical states; big: long chains, wide "
    "stars, the example reconstructions. Non-trivial = every case (a single node is still a full write+parse); distinct = "
    "distinct case tuple."
)
ASSUMPTIONS = [
    "a tree stores float32 columns: 'original' means the float32 value; the read value must equal float32(d) (Tree) or "
    "float64(d) (read_swc table) for d a correct rounding of the exact original to 4 decimals (both neighbours allowed at "
    "exact ties) - no tolerance is used",
    "node types are non-negative integers; coordinates/radii finite (the statement's quantifier)",
    "comments are compared after str.strip(): leading blanks aside per the statement, trailing blanks not asserted (DESIGN)",
    "a user comment that itself starts with the column-header text 'id type x y z r pid' is outside the comment alphabet "
    "(the text format cannot distinguish it from the writer's header); the near miss 'id type' is inside",
    "the writer's source header is allowed to be absent, or any leading block with at most one non-blank line; its text is "
    "not asserted; with source=False nothing may be added",
    "tree.source of a read-back tree is not asserted and is reset to '' before the next write in the history BFS "
    "(it would embed the scratch directory name)",
]

COLS = ("x", "y", "z", "r")
OFFSETS = (0, 1, 2, 7, 1000)
KINDS = ("text", "bytes", "path-lib", "path-harness", "textfile")

V = [0.0, 1.0, -1.0, 0.5, 0.03125, 0.00004, 0.00005, 0.00006, -0.00004, -0.00005, 1e-7, 0.99995, 1234.5678, 123456.789,
     2000000.125, 1e20, 3.4e38]
TYPES = [0, 1, 2, 3, 7, 255, 1000, 2**31 - 1]
COMMENT_ALPHABET = ["a", "two words", "  lead", "", "   ", "# hash", "trail  ", "id type", "café µm"]
HEADER_TEXT = "id type x y z r pid"


# ------------------------------------------------------------------ building and observing


def tagged(n):
    """Per-node values that are unique per node and not representable in 4 decimals."""
    f = swcio.f32
    return {
        "type": [1] + [2 + (i * 3) % 6 for i in range(1, n)],
        "x": [f(i + 0.12345) for i in range(n)],
        "y": [f(-0.33333 * i - 0.00005) for i in range(n)],
        "z": [f(100.00006 * i) for i in range(n)],
        "r": [f(0.5 + 0.00017 * i) for i in range(n)],
    }


def mk(p, vals, comments=None, source=""):
    n = len(p)
    t = build.make_tree(list(p), xyz=list(zip(vals["x"], vals["y"], vals["z"])), r=vals["r"], types=vals["type"],
                        comments=list(comments or []))
    t.source = source
    assert len(t) == n
    return t


def observe_tree(t):
    return {
        "id": [int(v) for v in t.id().tolist()],
        "pid": [int(v) for v in t.pid().tolist()],
        "type": [int(v) for v in t.type().tolist()],
        **{c: [float(v) for v in t.get_ndata(c).tolist()] for c in COLS},
        "float": str(t.x().dtype),
    }


def observe_df(df):
    return {
        "id": [int(v) for v in df["id"].tolist()],
        "pid": [int(v) for v in df["pid"].tolist()],
        "type": [int(v) for v in df["type"].tolist()],
        **{c: [float(v) for v in df[c].tolist()] for c in COLS},
        "float": "float64",
    }


def orig_of(t):
    o = observe_tree(t)
    return {"p": o["pid"], "type": o["type"], **{c: o[c] for c in COLS}}


# ------------------------------------------------------------------ oracles


def judge_tree(R, what, orig, got, text, relational_ids=False):
    """Topology, types, values of one read-back against the original (plain lists)."""
    p = orig["p"]
    n = len(p)
    ctx = lambda: f"{what}: p={p} got id={got['id'][:12]} pid={got['pid'][:12]} text={text[:400]!r}"  # noqa: E731
    if not R.check(len(got["id"]) == n, "node-count", lambda: ctx() + f" rows={len(got['id'])} want {n}", f"{what}:count"):
        return False
    ok = True
    if relational_ids:
        ids = got["id"]
        good = len(set(ids)) == n and all(
            (got["pid"][i] == -1) if p[i] == -1 else (got["pid"][i] == ids[p[i]]) for i in range(n))
        ok &= R.check(good, "parent", ctx, f"{what}:parent")
    else:
        ok &= R.check(got["id"] == list(range(n)), "ids", ctx, f"{what}:ids")
        ok &= R.check(got["pid"] == p, "parent", ctx, f"{what}:parent")
    ok &= R.check(got["type"] == orig["type"], "type", lambda: ctx() + f" types {got['type'][:12]} want {orig['type'][:12]}",
                  f"{what}:type")
    to_store = swcio.f32 if got["float"] == "float32" else float
    for c in COLS:
        for i in range(n):
            o, g = orig[c][i], got[c][i]
            allowed = [to_store(d) for d in swcio.round4_candidates(o)]
            if g not in allowed:
                ok = False
                R.fail("value", f"{what}: column {c} node {i}: original {o!r} read {g!r}, correct 4-decimal roundings "
                       f"{swcio.round4_candidates(o)} -> stored {allowed}; text={text[:300]!r}", f"{what}:value")
                break
    return ok


def judge_comments(R, what, written, read, source_opt, text):
    """read = [optional source header block] + written, compared after strip()."""
    w = [c.strip() for c in written]
    g = [c.strip() for c in read]
    has_blank = any(c.strip() == "" and c != "" for c in written)
    extra_header = any(c.startswith(HEADER_TEXT) for c in g)

    def klass(base):
        if extra_header:
            return f"{what}:comments:column-header-returned"
        if has_blank:
            return f"{what}:comments:whitespace-only-comment"
        return f"{what}:comments:{base}"

    ctx = lambda: f"{what}: written={written!r} source={source_opt!r} read={read!r} text={text[:400]!r}"  # noqa: E731
    if not R.check(len(g) >= len(w), "comments-lost", ctx, klass("lost")):
        return False
    head, tail = g[: len(g) - len(w)], g[len(g) - len(w):]
    if not R.check(tail == w, "comments-differ", ctx, klass("differ")):
        return False
    if source_opt is False:
        return R.check(head == [], "comments-added", ctx, klass("added"))
    return R.check(sum(1 for h in head if h != "") <= 1, "comments-added", ctx, klass("added"))


# ------------------------------------------------------------------ one write + all reads


def write_and_read(R, t, kind, tmp, **wkw):
    """Returns (text or None, tree or None).  kind decides how the text travels."""
    from swcgeom.core import Tree

    if kind == "path-lib":
        path = os.path.join(tmp, "lib.swc")
        ok, _ = R.impl("to_swc(fname)", t.to_swc, path, **wkw)
        if not ok:
            return None, None
        with open(path, "rb") as f:
            text = f.read().decode("utf-8")
        src = path
    else:
        ok, text = R.impl("to_swc", t.to_swc, **wkw)
        if not ok:
            return None, None
        src = swcio.make_source({"path-harness": "path"}.get(kind, kind), text, tmp, "harness.swc")
    try:
        ok, t2 = R.impl(f"from_swc:{kind}", Tree.from_swc, src)
    finally:
        if kind == "textfile" and not src.closed:
            src.close()
    return text, (t2 if ok else None)


def check_shape(case, R):
    from swcgeom.core import swc_utils as su

    p, off = list(case[0]), int(case[1])
    n = len(p)
    R.state(p, off)
    vals = tagged(n)
    t = mk(p, vals, comments=["c0"])
    orig = orig_of(t)
    snap = build.snapshot(t)
    tmp = tempfile.mkdtemp(prefix="c01-")
    try:
        texts = set()
        for kind in KINDS:
            text, t2 = write_and_read(R, t, kind, tmp, id_offset=off)
            if text is not None:
                texts.add(text)
            if t2 is None:
                continue
            got = observe_tree(t2)
            what = f"shape:{kind}"
            judge_tree(R, what, orig, got, text)
            judge_comments(R, what, ["c0"], list(t2.comments), True, text)
            R.outcome(got["pid"], got["x"], tuple(t2.comments))
        # table-level reads of the same text
        ok, text = R.impl("to_swc", t.to_swc, id_offset=off, source=False)
        if ok:
            import io

            ok, res = R.impl("read_swc", su.read_swc, io.StringIO(text))
            if ok:
                judge_tree(R, "shape:read_swc", orig, observe_df(res[0]), text)
                judge_comments(R, "shape:read_swc", ["c0"], list(res[1]), False, text)
            ok, res = R.impl("read_swc(reset_index=False)", su.read_swc, io.StringIO(text), reset_index=False)
            if ok:
                judge_tree(R, "shape:read_swc-raw-ids", orig, observe_df(res[0]), text, relational_ids=True)
        R.check(build.snapshot(t) == snap, "input-modified", lambda: f"writing changed the tree p={p}", "shape:input-modified")
    finally:
        shutil.rmtree(tmp, ignore_errors=True)


def check_values(case, R):
    """case = [vx, vy, vz, vr] indices into V (child); the root gets the same values rotated by one column."""
    import io

    from swcgeom.core import Tree

    idx = [int(i) for i in case]
    child = [swcio.f32(V[i]) for i in idx]
    root = child[1:] + child[:1]
    vals = {"type": [1, 3]}
    for k, c in enumerate(COLS):
        vals[c] = [root[k], child[k]]
    R.state(idx)
    t = mk([-1, 0], vals)
    orig = orig_of(t)
    ok, text = R.impl("to_swc", t.to_swc, source=False)
    if not ok:
        return
    ok, t2 = R.impl("from_swc:text", Tree.from_swc, io.StringIO(text))
    if not ok:
        return
    got = observe_tree(t2)
    judge_tree(R, "values", orig, got, text)
    if any(swcio.is_tie4(v) for v in child + root):
        R.note("cases-with-exact-4th-decimal-tie")
    R.outcome(got["x"], got["y"], got["z"], got["r"])


def check_types(case, R):
    import io

    from swcgeom.core import Tree

    a, b = int(case[0]), int(case[1])
    vals = tagged(2)
    vals["type"] = [a, b]
    R.state(a, b)
    t = mk([-1, 0], vals)
    ok, text = R.impl("to_swc", t.to_swc, source=False)
    if not ok:
        return
    for kind, mkse in (("text", lambda: io.StringIO(text)), ("bytes", lambda: io.BytesIO(text.encode()))):
        ok, t2 = R.impl(f"from_swc:{kind}", Tree.from_swc, mkse())
        if ok:
            got = observe_tree(t2)
            judge_tree(R, "types", orig_of(t), got, text)
            R.outcome(got["type"])


COMMENT_TREES = ([-1], [-1, 0, 0], [-1, 0, 1, 1])
COMMENT_KINDS = ("text", "bytes", "path-lib")


def comment_lists(max_len):
    for k in range(max_len + 1):
        for tup in itertools.product(range(len(COMMENT_ALPHABET)), repeat=k):
            yield list(tup)


def check_comments(case, R):
    ti, cidx, source_opt, flag, tsource, kind = case
    p = COMMENT_TREES[int(ti)]
    comments = [COMMENT_ALPHABET[int(i)] for i in cidx]
    R.state(ti, cidx, source_opt, flag, tsource, kind)
    t = mk(p, tagged(len(p)), comments=comments, source=tsource)
    tmp = tempfile.mkdtemp(prefix="c01-")
    try:
        text, t2 = write_and_read(R, t, kind, tmp, source=source_opt, comments=bool(flag))
        if t2 is None:
            return
        written = comments if flag else []
        what = "comments"
        judge_tree(R, what, orig_of(t), observe_tree(t2), text)
        judge_comments(R, what, written, list(t2.comments), source_opt, text)
        R.check(list(t.comments) == comments, "input-modified", "writing changed tree.comments", "comments:input-modified")
        R.outcome(tuple(t2.comments))
    finally:
        shutil.rmtree(tmp, ignore_errors=True)


# ------------------------------------------------------------------ history BFS

WRITE_OPTS = (
    {"source": False, "comments": True, "id_offset": 1},
    {"source": False, "comments": True, "id_offset": 0},
    {"source": True, "comments": True, "id_offset": 1},
    {"source": "custom", "comments": True, "id_offset": 7},
    {"source": False, "comments": False, "id_offset": 1},
    {"source": True, "comments": False, "id_offset": 1000},
)
HISTORY_KINDS = ("text", "bytes", "path-lib")
HISTORY_TREES = ([-1], [-1, 0], [-1, 0, 0, 1])
HISTORY_COMMENTS = ([], ["a"], ["  lead", ""], ["   ", "b"], ["# hash", "trail  "])


def check_history(case, R):
    ti, ci, depth = int(case[0]), int(case[1]), int(case[2])
    p = HISTORY_TREES[ti]
    t0 = mk(p, tagged(len(p)), comments=HISTORY_COMMENTS[ci])
    tmp = tempfile.mkdtemp(prefix="c01-")

    def canon(t):
        return build.canon_tree(t)

    def enabled(_t):
        return [(oi, k) for oi in range(len(WRITE_OPTS)) for k in HISTORY_KINDS]

    def step(t, ev):
        oi, kind = ev
        text, t2 = write_and_read(R, t, kind, tmp, **WRITE_OPTS[oi])
        if t2 is None:
            return None
        t2._c01_text = text
        t2.source = ""  # owned nondeterminism: would embed the scratch path
        return t2

    def invariant(prev, ev, nxt, d):
        oi, kind = ev
        o = WRITE_OPTS[oi]
        what = "history"
        text = nxt._c01_text
        judge_tree(R, what, orig_of(prev), observe_tree(nxt), text)
        written = list(prev.comments) if o["comments"] else []
        # with source=False this makes the comment list a fixpoint of write o read (up to blanks)
        judge_comments(R, what, written, list(nxt.comments), o["source"], text)

    try:
        st = kernel.bfs(R, [t0], enabled, step, canon, invariant, max_depth=depth)
        R.outcome(st["states"], st["transitions"])
        R.note("bfs-states", st["states"])
        if st["fixpoint"]:
            R.note("bfs-fixpoint")
    finally:
        shutil.rmtree(tmp, ignore_errors=True)


# ------------------------------------------------------------------ big instances


def big_parent(kind, n):
    if kind == "chain":
        return [-1] + list(range(n - 1))
    if kind == "star":
        return [-1] + [0] * (n - 1)
    if kind == "comb":  # spine 0,1,3,5,... with one tip hanging from every spine node
        return [-1] + [(0 if i == 1 else i - 2) if i % 2 == 1 else i - 1 for i in range(1, n)]
    raise ValueError(kind)


def check_big(case, R):
    from swcgeom.core import Tree

    kind = case[0]
    tmp = tempfile.mkdtemp(prefix="c01-")
    try:
        if kind == "file":
            path = os.path.join(os.environ.get("VERIF_REPO", "/repo"), case[1])
            ok, t = R.impl("from_swc(example)", Tree.from_swc, path)
            if not ok:
                return
            wf, why = build.wellformed(t)
            if not wf:
                R.skip("example-not-wellformed")
                return
            t.source = ""
            comments = list(t.comments)
            if any(c.strip().startswith(HEADER_TEXT) for c in comments):
                R.skip("example-comment-is-column-header")
                return
        else:
            n = int(case[1])
            p = big_parent(kind, n)
            comments = ["big"]
            t = mk(p, tagged(n), comments=comments)
        R.state(case)
        orig = orig_of(t)
        for k, off in (("text", 1), ("bytes", 0), ("path-lib", 1000)):
            text, t2 = write_and_read(R, t, k, tmp, id_offset=off, source=False)
            if t2 is None:
                continue
            judge_tree(R, f"big:{k}", orig, observe_tree(t2), text)
            judge_comments(R, f"big:{k}", comments, list(t2.comments), False, text)
            R.outcome(len(t2), k)
    finally:
        shutil.rmtree(tmp, ignore_errors=True)


# ------------------------------------------------------------------ spaces


def spaces(tier, seed):
    quick = tier == "quick"
    lt_hi = 6

    def gen_shapes():
        for n in range(1, lt_hi + 1):
            for p in S.labelled_trees(n):
                for off in OFFSETS:
                    yield [list(p), off]
        if not quick:
            for p in S.labelled_trees(7):  # ST(7) is a subset
                for off in (0, 1):
                    yield [list(p), off]

    def gen_values():
        nv = len(V)
        if quick:
            seen = set()
            base = 3  # index of 0.5
            for cols in itertools.combinations(range(4), 3):
                for ijk in itertools.product(range(nv), repeat=3):
                    idx = [base] * 4
                    for c, i in zip(cols, ijk):
                        idx[c] = i
                    if tuple(idx) not in seen:
                        seen.add(tuple(idx))
                        yield idx
        else:
            for idx in itertools.product(range(nv), repeat=4):
                yield list(idx)

    def gen_types():
        for a in TYPES:
            for b in TYPES:
                yield [a, b]

    def gen_comments():
        for cl in comment_lists(2):
            for ti in range(len(COMMENT_TREES)):
                for source_opt in (True, False, "custom"):
                    for flag in (1, 0):
                        for tsource in ("", "orig.swc"):
                            for kind in COMMENT_KINDS:
                                yield [ti, cl, source_opt, flag, tsource, kind]

    depth = 3 if quick else 4

    def gen_history():
        for ti in range(len(HISTORY_TREES)):
            for ci in range(len(HISTORY_COMMENTS)):
                yield [ti, ci, depth]

    repo = os.environ.get("VERIF_REPO", "/repo")
    files = sorted(os.path.relpath(f, repo) for f in glob.glob(os.path.join(repo, "examples/data/*.swc")))

    def gen_big():
        if quick:
            yield ["chain", 500]
            yield ["star", 100]
            yield ["comb", 301]
        else:
            yield ["chain", 5000]
            yield ["star", 300]
            yield ["star", 3000]
            yield ["comb", 2001]
            for f in files:
                yield ["file", f]

    return [
        Space.of("shapes", gen_shapes, check_shape,
                 bounds={"LT_max_nodes": lt_hi, "id_offsets": list(OFFSETS), "LT7_id_offsets": None if quick else [0, 1], "source_kinds": list(KINDS),
                         "table_reads": ["read_swc", "read_swc(reset_index=False)"]}),
        Space.of("values", gen_values, check_values,
                 bounds={"alphabet": V, "columns": list(COLS), "combination": "every triple of columns, the fourth 0.5" if quick else "full product 17^4"}),
        Space.of("types", gen_types, check_types, bounds={"types": TYPES, "nodes": 2}),
        Space.of("comments", gen_comments, check_comments,
                 bounds={"alphabet": COMMENT_ALPHABET, "max_len": 2, "source": [True, False, "custom"], "comments_flag": [True, False],
                         "tree_source": ["", "orig.swc"], "trees": [list(p) for p in COMMENT_TREES], "source_kinds": list(COMMENT_KINDS)}),
        Space.of("history", gen_history, check_history,
                 bounds={"depth": depth, "write_options": [dict(o) for o in WRITE_OPTS], "source_kinds": list(HISTORY_KINDS),
                         "initial_trees": [list(p) for p in HISTORY_TREES], "initial_comments": [list(c) for c in HISTORY_COMMENTS]},
                 case_timeout=600.0),
        Space.of("big", gen_big, check_big, bounds={"instances": list(gen_big())}, case_timeout=600.0),
    ]
