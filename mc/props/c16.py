"""C16 — resampling and smoothing keep the neuron's shape."""

from __future__ import annotations

import itertools
import math
import os
import traceback

import numpy as np

from mc import build, ref, spaces as S
from mc.kernel import Space

PROPERTY = "C16"
RULE = (
    "tree level: every sorted tree ST(n) (plus unsorted labelled trees LT(n)) up to the tier bound x every edge-length vector over "
    "{0, 0.5, 1, 2.3} (zero-length edges and whole zero-length branches included) laid out along one of two direction banks "
    "(axis/3-4-5 'lattice' and generic unit vectors), float32 coordinates; per tree x root type {1,3,0}: IsometricResampler(d) "
    "for every spacing of the tier (both adjust_last_gap modes), the generic Resampler with BranchLinearResampler(n) and with the "
    "identity, BranchTreeAssembler(BranchTree.from_tree(t)) also with the remembered branch lists rotated / reversed, TreeSmoother(w) for every window. Branch level: every polyline of 2..m "
    "points over the same length alphabet, as a free Branch.from_xyzr (float32 and float64) and as a branch attached to a tree at "
    "non-zero indices x BranchLinearResampler(n) x BranchIsometricResampler(d, both modes) x BranchConvSmoother(w). "
    "Oracle: pure-Python polyline / arc-length reference on the float32 input coordinates; the result's own branch decomposition is "
    "matched (backtracking over sibling permutations, so coincident critical nodes are decided exactly) against the original's. "
    "Non-trivial = at least one edge; distinct = distinct (parent table, length vector, bank)."
)
ASSUMPTIONS = [
    "coordinates are stored as float32 with |coordinate| < 16: a correctly interpolated node is within 1e-4 of the float64 reference "
    "point (float32 ulp 9.5e-7 at 8..16, arc lengths accumulated in float32 over <= 6 segments), so POS_TOL = 1e-4",
    "the resampled node count k per branch is read off the result, not asserted (k = ceil(L/d) flips by one when L/d is an integer "
    "up to float32 rounding); asserted: equal arc steps L/k <= d(1+1e-4), nodes at arc j*L/k on the original polyline",
    "radius of a node at arc length s must lie in the range of the piecewise-linear radius profile over [s-1e-4, s+1e-4] (+-1e-5): "
    "this turns the position tolerance into the matching radius tolerance and makes zero-length segments (radius jump at one arc "
    "length) a reference-declared tie: any value between the two radii is accepted",
    "total length <= original (1+1e-5) + 1e-6 (rounding of collinear points to float32 changes the length only to second order)",
    "adjust_last_gap=False is read as: all steps equal the spacing except the last, which is shorter; only 'on the polyline, steps "
    "<= spacing, radii linear, critical nodes kept' is asserted there, not equality of steps",
    "smoothing: only node count, ids/parents, radii and the positions of root/furcations/tips (branch: both ends) are asserted",
]

POS_TOL = 1e-4
R_TOL = 1e-5
LENGTHS = (0.0, 0.5, 1.0, 2.3)
RADII = (1.0, 1.75, 0.5, 2.25, 1.25, 0.75, 2.0, 1.5)

_s = 1 / math.sqrt(3)
DIRS = {
    "lattice": [(1, 0, 0), (0, 1, 0), (0, 0, 1), (0.6, 0.8, 0), (0, -0.6, 0.8), (-0.8, 0, 0.6), (0, 0, -1)],
    "generic": [
        (0.36, 0.48, 0.8), (-0.48, 0.64, 0.6), (0.8, -0.36, 0.48), (-0.6, -0.64, 0.48),
        (2 / 7, 3 / 7, -6 / 7), (-6 / 7, 2 / 7, 3 / 7), (3 / 7, -6 / 7, -2 / 7),
    ],
}
ROOTS = {"lattice": (0.25, -0.5, 0.75), "generic": (3.37, -2.81, 1.93)}


# ------------------------------------------------------------------ reference polyline geometry (float64, plain Python)


def layout(p, lens, bank):
    """Positions (float32-representable floats) of a tree whose edge i has length lens[i-1] along DIRS[bank][i % 7]."""
    n = len(p)
    pos = [None] * n
    order = sorted(range(n), key=lambda i: ref.depth(p, i))
    dirs = DIRS[bank]
    for i in order:
        if p[i] == -1:
            pos[i] = tuple(build.f32(v) for v in ROOTS[bank])
        else:
            d = dirs[i % len(dirs)]
            q = pos[p[i]]
            pos[i] = tuple(build.f32(q[k] + lens[i - 1] * d[k]) for k in range(3))
    return pos


def arc_table(P):
    """Cumulative arc lengths of the polyline P = [(xyz, r), ...]."""
    cum = [0.0]
    for a, b in zip(P[:-1], P[1:]):
        cum.append(cum[-1] + ref.dist(a[0], b[0]))
    return cum


def point_at(P, cum, s):
    """Point of the polyline at arc length s (clamped)."""
    if s <= 0:
        return P[0][0]
    for i in range(len(P) - 1):
        a, b = cum[i], cum[i + 1]
        if b > a and s <= b:
            t = (s - a) / (b - a)
            return tuple(P[i][0][k] + t * (P[i + 1][0][k] - P[i][0][k]) for k in range(3))
    return P[-1][0]


def radius_range(P, cum, s, delta):
    """Range of the piecewise-linear radius profile over arc lengths [s-delta, s+delta]."""
    lo, hi = math.inf, -math.inf
    u0, v0 = s - delta, s + delta
    for i in range(len(P) - 1):
        a, b = cum[i], cum[i + 1]
        u, v = max(a, u0), min(b, v0)
        if u > v:
            continue
        ra, rb = P[i][1], P[i + 1][1]
        if b > a:
            vals = (ra + (u - a) / (b - a) * (rb - ra), ra + (v - a) / (b - a) * (rb - ra))
        else:
            vals = (ra, rb)
        lo, hi = min(lo, *vals), max(hi, *vals)
    if lo is math.inf:  # s outside [0, L] by more than delta: clamp
        r = P[0][1] if s < 0 else P[-1][1]
        return r, r
    return lo, hi


def judge_branch(P, Q, mode, param):
    """Is the node sequence Q a valid resampling of the polyline P?  Returns a list of (kind, detail)."""
    fails = []
    k = len(Q) - 1
    if k < 1:
        return [("branch:too-few-nodes", f"resampled branch has {len(Q)} node(s)")]
    cum = arc_table(P)
    L = cum[-1]
    if mode == "id":
        if len(Q) != len(P):
            return [("identity:node-count", f"branch has {len(P)} nodes, reassembled {len(Q)}")]
        arcs = cum
    elif mode == "lin":
        if len(Q) != param:
            fails.append(("linear:node-count", f"asked for {param} nodes per branch, got {len(Q)}"))
        arcs = [j * L / k for j in range(k + 1)]
    elif mode == "iso":
        step = L / k
        if step > param * (1 + 1e-4) + 1e-9:
            fails.append(("spacing:step-too-long", f"branch of length {L:.6f} resampled into {k} steps of {step:.6f} > spacing {param}"))
        arcs = [j * L / k for j in range(k + 1)]
    elif mode == "iso-nogap":
        last = L - (k - 1) * param
        if last > param * (1 + 1e-4) + 1e-9 or last < -1e-4 * (1 + L):
            fails.append(("spacing:last-step", f"branch of length {L:.6f}, {k} steps at spacing {param}: last step {last:.6f}"))
        arcs = [min(j * param, L) for j in range(k)] + [L]
    else:
        raise AssertionError(mode)
    # Euclidean steps can never exceed the spacing either (chord <= arc)
    if mode in ("iso", "iso-nogap"):
        for j in range(k):
            e = ref.dist(Q[j][0], Q[j + 1][0])
            if e > param * (1 + 1e-4) + 1e-6:
                fails.append(("spacing:step-too-long", f"nodes {j},{j + 1} of a resampled branch are {e:.6f} apart > spacing {param}"))
                break
    for j, (q, s) in enumerate(zip(Q, arcs)):
        want = point_at(P, cum, s)
        dev = ref.dist(q[0], want)
        end = j in (0, k)
        if dev > POS_TOL:
            kind = "endpoint-moved" if end else "off-polyline-or-unequal-steps"
            fails.append((kind, f"node {j}/{k} at {q[0]} but arc {s:.6f} of the original branch is {tuple(round(v, 6) for v in want)} (dev {dev:.2e}); "
                                f"L={L:.6f}"))
            break
        lo, hi = radius_range(P, cum, s, POS_TOL)
        if not (lo - R_TOL <= q[1] <= hi + R_TOL):
            kind = "endpoint-radius" if end else "radius-not-linear"
            fails.append((kind, f"node {j}/{k} at arc {s:.6f} has r={q[1]:.6f}, linear interpolation gives [{lo:.6f}, {hi:.6f}]"))
            break
    return fails


# ------------------------------------------------------------------ tree-level oracle


def read_tree(t):
    xyz = build.tags_xyz(t)
    r = [float(v) for v in t.r().tolist()]
    return [int(v) for v in t.pid().tolist()], list(zip(xyz, r))


def judge_tree(R, what, klass, p, pts, res, mode, param):
    """pts = [(xyz, r)] of the original; res = resulting Tree."""
    ctx = lambda: f"{what} p={list(p)}"  # noqa: E731
    wf, why = build.wellformed(res)
    if not R.check(wf, "result-malformed", lambda: f"{ctx()}: {why}", f"{klass}:malformed"):
        return False
    rp, rpts = read_tree(res)
    obr, rbr = {}, {}
    for b in ref.branches(p):
        obr.setdefault(b[0], []).append(b)
    for b in ref.branches(rp):
        rbr.setdefault(b[0], []).append(b)
    R.note(f"{mode}:branches", sum(len(v) for v in obr.values()))

    # root at its position
    d0 = ref.dist(pts[0][0], rpts[0][0])
    ok = R.check(d0 <= POS_TOL and abs(pts[0][1] - rpts[0][1]) <= R_TOL, "root-moved",
                 lambda: f"{ctx()}: root {pts[0]} -> {rpts[0]}", f"{klass}:root-moved")

    cache = {}

    def bfail(ob, rb):
        key = (tuple(ob), tuple(rb))
        if key not in cache:
            cache[key] = judge_branch([pts[i] for i in ob], [rpts[i] for i in rb], mode, param)
        return cache[key]

    def match(o, r):
        A, B = obr.get(o, []), rbr.get(r, [])
        if len(A) != len(B):
            return [("connectivity", f"original node {o} at {pts[o][0]} starts {len(A)} branch(es), its image (result node {r}) {len(B)}")]
        if not A:
            return []
        best = None
        for perm in itertools.permutations(range(len(B))):
            fails = []
            for i, j in enumerate(perm):
                f = bfail(A[i], B[j])
                fails += f
                if not f:
                    fails += match(A[i][-1], B[j][-1])
            if not fails:
                return []
            # prefer the pairing whose end points agree (so the reported reason is the informative one)
            score = (sum(1 for k, _ in fails if k in ("endpoint-moved", "connectivity")), len(fails))
            if best is None or score < best[0]:
                best = (score, fails)
        return best[1]

    fails = match(0, 0)
    for kind, detail in fails[:1]:
        R.fail(kind, f"{ctx()}: {detail}; result pid={rp} xyz={[tuple(round(v, 4) for v in q[0]) for q in rpts]}", f"{klass}:{kind}")
    ok = ok and not fails

    # total length never grows
    if mode != "smooth":
        L0 = sum(ref.dist(pts[i][0], pts[q][0]) for q, i in ref.edges(p))
        L1 = sum(ref.dist(rpts[i][0], rpts[q][0]) for q, i in ref.edges(rp))
        ok = R.check(L1 <= L0 * (1 + 1e-5) + 1e-6, "length-grows", lambda: f"{ctx()}: total length {L0:.6f} -> {L1:.6f}", f"{klass}:length-grows") and ok
        if mode in ("iso", "iso-nogap"):
            # diagnostic only: node count vs ceil(L/d)
            for o, lst in obr.items():
                for b in lst:
                    Lb = sum(ref.dist(pts[i][0], pts[j][0]) for i, j in zip(b, b[1:]))
                    R.note("iso:L/d-within-1e-6-of-an-integer", int(Lb > 0 and abs(Lb / param - round(Lb / param)) < 1e-6))
    R.outcome(what.split("(")[0], len(rp), tuple(sorted(len(b) for v in rbr.values() for b in v)))
    return ok


def mk_tree(p, pos, rtype):
    n = len(p)
    return build.make_tree(list(p), xyz=pos, r=[RADII[i % len(RADII)] for i in range(n)], types=[rtype] + [3] * (n - 1))


SP_Q = (0.4, 1.0, 1.7, 10.0)
SP_T = (0.25, 0.4, 0.5, 1.0, 1.15, 1.7, 2.3, 10.0)
ASM = "BranchTreeAssembler(BranchTree.from_tree(t))"
RID = "Resampler(identity)"
ROT = "BranchTreeAssembler(from_tree(t) with every branch list rotated by one)"
REV = "BranchTreeAssembler(from_tree(t) with every branch list reversed)"
ISOROT = "BranchTreeAssembler(from_tree(t), branches resampled at spacing 1.0, every branch list rotated by one)"

# menu tag -> [(root type or 'parity', operations)]; the tag is part of the case so that a replay is self-contained
MENUS = {
    "q": [
        (1, dict(iso=SP_Q, nogap=SP_Q, lin=(2, 3, 5), ident=(ASM, RID, ROT, REV, ISOROT), win=(1, 2, 3, 5, 7))),
        (3, dict(iso=SP_Q, nogap=(), lin=(), ident=(ASM,), win=())),
    ],
    "t": [
        (1, dict(iso=SP_T, nogap=SP_T, lin=(2, 3, 4, 5, 10), ident=(ASM, RID, ROT, REV, ISOROT), win=(1, 2, 3, 4, 5, 7, 9))),
        (3, dict(iso=SP_T, nogap=(1.0,), lin=(3,), ident=(ASM,), win=(3,))),
        (0, dict(iso=SP_T, nogap=(1.0,), lin=(3,), ident=(ASM,), win=(3,))),
    ],
    # largest size of the thorough tier: fewer operations per tree; root type alternates with the parity of the parent table
    "t6": [("parity", dict(iso=SP_Q, nogap=(1.0,), lin=(3,), ident=(ASM, ROT), win=(3,)))],
    # unsorted labelled trees
    "l": [(1, dict(iso=(0.4, 1.0, 1.7), nogap=(1.0,), lin=(3,), ident=(ASM,), win=(3,)))],
}
BRANCH_MENUS = {
    "q": dict(lin=(2, 3, 5, 10), iso=SP_Q, win=(1, 2, 3, 5, 7)),
    "t": dict(lin=(2, 3, 4, 5, 10, 33), iso=SP_T, win=(1, 2, 3, 4, 5, 7, 9)),
    # length sweeps: one spacing, isometric resampler only
    "sw:1.0": dict(lin=(), iso=(1.0,), win=()),
    "sw:0.4": dict(lin=(), iso=(0.4,), win=()),
    "sw:2.5": dict(lin=(), iso=(2.5,), win=()),
}
SWEEP_FINE = (1e-4, 3e-4, 1e-3, 2e-3, 4e-3, 8e-3)  # |length / spacing - k| for the ladder around every whole number of steps


def check_tree(case, R):
    from swcgeom.core import BranchTree
    from swcgeom.transforms import BranchLinearResampler, BranchTreeAssembler, IsometricResampler, TreeSmoother
    from swcgeom.transforms.branch import BranchIsometricResampler
    from swcgeom.transforms.tree import Resampler

    p, lens, bank, menu = list(case[0]), list(case[1]), case[2], case[3]
    n = len(p)
    R.state(p, lens, bank)
    if n < 2:
        R.trivial()
    pos = layout(p, lens, bank)
    zero = ":zero-length-branch" if any(
        all(pos[a] == pos[b] for a, b in zip(br, br[1:])) for br in ref.branches(p)) else ""
    # two branches leaving the same node and ending at the same point: a branch list without its order does not say which end
    # node is whose (specification tie for the permuted-list calls only)
    ends = {}
    for br in ref.branches(p):
        ends.setdefault(br[0], []).append(pos[br[-1]])
    pairing_tie = any(ref.dist(a, b) < 1e-3 for v in ends.values() for a, b in itertools.combinations(v, 2))
    kept = []
    for rtype, ops in MENUS[menu]:
        if rtype == "parity":
            rtype = (1, 3)[sum(p) % 2]
        t = mk_tree(p, pos, rtype)
        _, pts = read_tree(t)
        sfx = ("" if rtype == 1 else ":non-soma-root") + zero
        geo = f"root type {rtype} lens={lens} bank={bank} p={p}"
        for adjust, key in ((True, "iso"), (False, "nogap")):
            for d in ops[key]:
                nm = f"IsometricResampler({d}{'' if adjust else ', adjust_last_gap=False'}) {geo}"
                kl = "iso" if adjust else "iso-nogap"
                ok, res = call(R, kl, sfx, nm, lambda: IsometricResampler(d, adjust_last_gap=adjust)(t), kept)
                if ok:
                    judge_tree(R, nm, kl, p, pts, res, kl, d)
        for m in ops["lin"]:
            nm = f"Resampler(BranchLinearResampler({m})) {geo}"
            ok, res = call(R, "lin", sfx, nm, lambda: Resampler(BranchLinearResampler(m))(t), kept)
            if ok:
                judge_tree(R, nm, "lin", p, pts, res, "lin", m)
        for nm in ops["ident"]:
            if nm in (ROT, REV, ISOROT):
                if max(len(c) for c in ref.children(p)) < 2:
                    continue  # no list with two branches: same call as ASM
                if pairing_tie:
                    R.skip("permuted-branch-list:coincident-branch-ends")
                    continue

            def permuted(nm=nm):
                # the order of the branches remembered for a node carries no meaning: the assembler pairs them with the
                # node's children by position
                bt = BranchTree.from_tree(t)
                f = BranchIsometricResampler(1.0) if nm == ISOROT else (lambda br: br)
                bt.branches = {k: [f(b) for b in (v[::-1] if nm == REV else v[1:] + v[:1])] for k, v in bt.branches.items()}
                return BranchTreeAssembler()(bt)

            fn = {ASM: lambda: BranchTreeAssembler()(BranchTree.from_tree(t)), RID: lambda: Resampler(lambda br: br)(t)}.get(nm, permuted)
            ok, res = call(R, "identity", sfx, f"{nm} {geo}", fn, kept)
            if ok:
                if nm == ISOROT:
                    judge_tree(R, f"{nm} {geo}", "iso", p, pts, res, "iso", 1.0)
                else:
                    judge_tree(R, f"{nm} {geo}", "identity", p, pts, res, "id", None)
        for w in ops["win"]:
            nm = f"TreeSmoother({w}) {geo}"
            ok, res = call(R, "TreeSmoother", sfx, nm, lambda: TreeSmoother(w)(t), kept)
            if ok:
                judge_smooth_tree(R, nm, p, pts, t, res)
    recheck_kept(R, kept)


def content(v):
    """Observable content of a result (tree or branch) as bytes, for 'did it change later' comparisons."""
    if hasattr(v, "xyzr") and not hasattr(v, "ndata"):
        return ("branch", np.asarray(v.xyzr(), dtype=np.float64).tobytes(), v.id().tobytes(), v.pid().tobytes())
    return build.snapshot(v)


def recheck_kept(R, kept):
    """Every result obtained in this case still has the content it was returned with."""
    for nm, v, snap in kept:
        R.check(content(v) == snap, "result-changed-by-later-calls", lambda: f"{nm}: the returned object changed after later library calls",
                "result-changed-by-later-calls")
    for nm, v, _ in kept[-2:]:
        R.retain(nm.split(" ")[0], lambda v=v: content(v))


def call(R, what, suffix, ctx, fn, kept=None):
    """R.impl with a klass that also names the input class (suffix) the exception was seen on."""
    ok, v = R.attempt(fn)
    if ok and kept is not None:
        kept.append((ctx, v, content(v)))
    if not ok:
        where = ""
        for fr in reversed(traceback.extract_tb(v.__traceback__)):
            if "/swcgeom/" in fr.filename:
                where = f"{os.path.basename(fr.filename)}:{fr.name}"
                break
        R.fail(f"raises:{what}", f"{ctx}: {type(v).__name__}: {v} @ {where}", f"raises:{what}:{type(v).__name__}@{where}{suffix}")
    return ok, v


def judge_smooth_tree(R, what, p, pts, t, res):
    n = len(p)
    if not R.check(len(res) == n, "smooth:node-count", lambda: f"{what} p={p}: {n} nodes -> {len(res)}", "smooth-tree:node-count"):
        return
    rp, rpts = read_tree(res)
    R.check(rp == list(p) and [int(i) for i in res.id().tolist()] == list(range(n)), "smooth:connectivity",
            lambda: f"{what} p={p}: ids {res.id().tolist()} pids {rp}", "smooth-tree:connectivity")
    R.check(all(abs(a[1] - b[1]) <= 1e-6 for a, b in zip(pts, rpts)), "smooth:radii",
            lambda: f"{what} p={p}: radii {[a[1] for a in pts]} -> {[b[1] for b in rpts]}", "smooth-tree:radii")
    ch = ref.children(p)
    crit = [i for i in range(n) if p[i] == -1 or len(ch[i]) != 1]
    moved = [i for i in crit if ref.dist(pts[i][0], rpts[i][0]) > 1e-6]
    R.check(not moved, "smooth:critical-node-moved",
            lambda: f"{what} p={p}: root/furcation/tip nodes {moved} moved: {[(pts[i][0], rpts[i][0]) for i in moved]}", "smooth-tree:critical-node-moved")
    R.outcome("smooth", sum(1 for a, b in zip(pts, rpts) if a[0] != b[0]))


# ------------------------------------------------------------------ branch-level


def polyline(lens, bank, start=0):
    dirs = DIRS[bank]
    pos = [tuple(build.f32(v) for v in ROOTS[bank])]
    for i, L in enumerate(lens):
        d = dirs[(start + i + 1) % len(dirs)]
        q = pos[-1]
        pos.append(tuple(build.f32(q[k] + L * d[k]) for k in range(3)))
    return pos


def make_branch(kind, pos, rad):
    """The same polyline as a free branch (float32 / float64 array) or attached to a tree at indices != 0.."""
    from swcgeom.core import Branch

    m = len(pos)
    if kind in ("xyzr32", "xyzr64"):
        arr = np.array([list(q) + [r] for q, r in zip(pos, rad)], dtype=np.float32 if kind == "xyzr32" else np.float64)
        return Branch.from_xyzr(arr)
    # tree: root = pos[0] with a stub child (node 1) and the chain as nodes 2..m
    p = [-1, 0, 0] + list(range(2, m))
    stub = tuple(build.f32(pos[0][k] + (0.5, -0.25, 0.125)[k]) for k in range(3))
    xyz = [pos[0], stub] + list(pos[1:])
    r = [rad[0], 0.625] + list(rad[1:])
    t = build.make_tree(p, xyz=xyz, r=r)
    want = [0] + list(range(2, m + 1))
    for b in t.get_branches():
        if [int(i) for i in b.origin_id().tolist()] == want:
            return b
    raise RuntimeError(f"harness: branch {want} not found among {[b.origin_id().tolist() for b in t.get_branches()]}")


def read_branch(b):
    a = np.asarray(b.xyzr(), dtype=np.float64)
    return [((float(row[0]), float(row[1]), float(row[2])), float(row[3])) for row in a]


def judge_branch_op(R, op, param, P, res, what):
    """op in lin / iso / iso-nogap / smooth; P = input polyline [(xyz, r)]; res = returned Branch."""
    Q = read_branch(res)
    if op == "smooth":
        if not R.check(len(Q) == len(P), "smooth:node-count", f"{what}: {len(P)} -> {len(Q)}", "smooth-branch:node-count"):
            return
        n = len(P)
        R.check([int(i) for i in res.id().tolist()] == list(range(n)) and [int(i) for i in res.pid().tolist()] == list(range(-1, n - 1)),
                "smooth:connectivity", lambda: f"{what}: id/pid {res.id().tolist()} {res.pid().tolist()}", "smooth-branch:connectivity")
        R.check(all(abs(a[1] - b[1]) <= 1e-6 for a, b in zip(P, Q)), "smooth:radii", lambda: f"{what}: radii {[b[1] for b in Q]}", "smooth-branch:radii")
        R.check(ref.dist(P[0][0], Q[0][0]) <= 1e-6 and ref.dist(P[-1][0], Q[-1][0]) <= 1e-6, "smooth:endpoint-moved",
                lambda: f"{what}: ends {Q[0][0]} {Q[-1][0]} want {P[0][0]} {P[-1][0]}", "smooth-branch:endpoint-moved")
        R.outcome("smooth", param, sum(1 for a, b in zip(P, Q) if a[0] != b[0]))
        return
    if op != "lin" and len(Q) == 1 and P[0][0] == P[-1][0]:
        # a whole zero-length branch collapses to one node at that point: both end points are there
        R.note("iso:zero-length-branch-collapsed")
        f = judge_branch(P, Q + Q, op, param)
    else:
        # lin, as worded: n points, end points unchanged (the interior is the arc-length rule of the first sentence)
        f = judge_branch(P, Q, op, param)
    for kindf, detail in f[:1]:
        R.fail(kindf, f"{what}: {detail}", f"branch-{op}:{kindf}")
    R.outcome(op, param, len(Q))


def check_branch(case, R):
    from swcgeom.transforms import BranchConvSmoother, BranchLinearResampler
    from swcgeom.transforms.branch import BranchIsometricResampler

    lens, bank, kind, menu = list(case[0]), case[1], case[2], case[3]
    cfg = BRANCH_MENUS[menu]
    R.state(lens, bank, kind)
    pos = polyline(lens, bank)
    rad = [RADII[(i + 1) % len(RADII)] for i in range(len(pos))]
    zero = ":zero-length-branch" if all(a == b for a, b in zip(pos, pos[1:])) else ""
    ctx = f"lens={lens} bank={bank} source={kind}"
    ok, br = call(R, "make-branch", zero, ctx, lambda: make_branch(kind, pos, rad))
    if not ok:
        return
    P = read_branch(br)
    R.check(all(ref.dist(a[0], q) == 0 for a, q in zip(P, pos)), "harness:branch-readback", f"{ctx}: {P} vs {pos}")
    kept = []

    for m in cfg["lin"]:
        what = f"BranchLinearResampler({m}) {ctx}"
        ok, res = call(R, "BranchLinearResampler", zero, what, lambda: BranchLinearResampler(m)(br), kept)
        if ok:
            judge_branch_op(R, "lin", m, P, res, what)
    for d in cfg["iso"]:
        for adjust in (True, False):
            mode = "iso" if adjust else "iso-nogap"
            what = f"BranchIsometricResampler({d}, adjust_last_gap={adjust}) {ctx}"
            ok, res = call(R, f"BranchIsometricResampler[{mode}]", zero, what, lambda: BranchIsometricResampler(d, adjust_last_gap=adjust)(br), kept)
            if ok:
                judge_branch_op(R, mode, d, P, res, what)
    for w in cfg["win"]:
        what = f"BranchConvSmoother({w}) {ctx}"
        ok, res = call(R, "BranchConvSmoother", zero, what, lambda: BranchConvSmoother(w)(br), kept)
        if ok:
            judge_branch_op(R, "smooth", w, P, res, what)
    # the input branch is what it was
    R.check(read_branch(br) == P, "input-modified", f"{ctx}", "branch:input-modified")
    recheck_kept(R, kept)


# ------------------------------------------------------------------ call histories (one transform instance, several inputs)

TREE_INSTANCES = ("iso(1.0)", "iso(0.4,nogap)", "lin(3)", "smooth(3)", "assembler")
BRANCH_INSTANCES = ("lin(3)", "iso(1.0)", "smooth(3)")


def history_tree_pool(nmax):
    """Small fixed pool of (p, lens, bank): every sorted tree up to nmax nodes, one mixed and one zero-first length vector."""
    out = [((-1,), (), "generic")]
    mixed = (0.5, 2.3, 1.0, 1.0, 0.5)
    zerof = (0.0, 2.3, 1.0, 0.5, 1.0)
    for n in range(2, nmax + 1):
        for p in S.sorted_trees(n):
            out.append((p, mixed[: n - 1], "generic"))
            out.append((p, zerof[: n - 1], "lattice"))
    return out


def check_history_tree(case, R):
    """One transform instance applied to A, B(, C), then A again, then A edited in place: every result is judged when
    returned, the earlier results are re-judged after the later calls."""
    from swcgeom.core import BranchTree
    from swcgeom.transforms import BranchLinearResampler, BranchTreeAssembler, IsometricResampler, TreeSmoother
    from swcgeom.transforms.tree import Resampler

    kind, seq = case[0], [(list(c[0]), list(c[1]), c[2]) for c in case[1]]
    R.state(kind, seq)
    if kind == "iso(1.0)":
        inst, mode, param = IsometricResampler(1.0), "iso", 1.0
    elif kind == "iso(0.4,nogap)":
        inst, mode, param = IsometricResampler(0.4, adjust_last_gap=False), "iso-nogap", 0.4
    elif kind == "lin(3)":
        inst, mode, param = Resampler(BranchLinearResampler(3)), "lin", 3
    elif kind == "smooth(3)":
        inst, mode, param = TreeSmoother(3), "smooth", 3
    else:
        asm = BranchTreeAssembler()
        inst, mode, param = (lambda t: asm(BranchTree.from_tree(t))), "id", None
    klass = {"iso": "iso", "iso-nogap": "iso-nogap", "lin": "lin", "id": "identity", "smooth": "smooth"}[mode]

    def judge(nm, p, pts, t, res):
        if mode == "smooth":
            judge_smooth_tree(R, nm, p, pts, t, res)
        else:
            judge_tree(R, nm, klass, p, pts, res, mode, param)

    trees = []
    for p, lens, bank in seq:
        t = mk_tree(p, layout(p, lens, bank), 1)
        trees.append((p, lens, bank, t, read_tree(t)[1]))
    live = []
    order = list(range(len(trees))) + [0]

    def failing_calls():
        """Calls that the library is entitled to refuse (a tree with custom column names - refused inside the assembler on the pinned
        tree -, non-finite coordinates, not a tree at all): whatever they leave behind in the instance must not reach the next result."""
        from swcgeom.core import Tree
        from swcgeom.core.swc_utils import SWCNames

        p0, _l, _b, t0, _pts = trees[0]
        nm_ = SWCNames(id="n", type="t", x="xx", y="yy", z="zz", r="radius", pid="parent")
        ren = {"id": "n", "type": "t", "x": "xx", "y": "yy", "z": "zz", "r": "radius", "pid": "parent"}
        bad1 = Tree(len(p0), names=nm_, **{ren[k_]: t0.get_ndata(k_).copy() for k_ in ren})
        bad2 = t0.copy()
        bad2.ndata["x"][-1] = np.nan
        for b_ in (bad1, bad2, None):
            R.attempt(inst, b_)

    for step, k in enumerate(order):
        if step == 1:
            failing_calls()  # after the first good call and before the second
        p, lens, bank, t, pts = trees[k]
        nm = f"history[{kind}] call {step + 1} of {len(order) + 1} on p={p} lens={lens} bank={bank} (inputs so far: {[trees[j][0] for j in order[:step]]})"
        ok, res = call(R, f"history:{klass}", "", nm, lambda: inst(t))
        if ok:
            judge(nm, p, pts, t, res)
            live.append((nm, p, pts, t, res, content(res)))
    for nm, p, pts, t, res, snap in live[:-1]:
        if not R.check(content(res) == snap, "result-changed-by-later-calls", f"{nm}: result changed after later calls of the same instance",
                       "history:result-changed-by-later-calls"):
            judge(nm + " [re-judged after later calls]", p, pts, t, res)
    if len(live) == len(order):
        R.note("history:repeat-call-identical", int(content(live[0][4]) == content(live[-1][4])))
    # edit the first input in place (move its last node, change its radius): the same instance must describe the new content
    p, lens, bank, t, _ = trees[0]
    n = len(p)
    t.ndata["x"][n - 1] += 0.75
    t.ndata["y"][n - 1] -= 0.5
    t.ndata["r"][n - 1] += 0.375
    pts2 = read_tree(t)[1]
    nm = f"history[{kind}] call on p={p} lens={lens} bank={bank} after moving node {n - 1} in place to {pts2[n - 1]}"
    ok, res = call(R, f"history:{klass}", "", nm, lambda: inst(t))
    if ok:
        judge(nm, p, pts2, t, res)
    R.retain(f"history[{kind}]", lambda v=live[0][4] if live else None: content(v) if v is not None else None)


def history_branch_pool(mmax):
    out = []
    for m in range(2, mmax + 1):
        for lens in itertools.product(LENGTHS if m <= 3 else (0.0, 1.0, 2.3), repeat=m - 1):
            for kind in ("xyzr32", "tree"):
                out.append((lens, "generic" if sum(1 for v in lens if v == 0) % 2 == 0 else "lattice", kind))
    return out


def check_history_branch(case, R):
    from swcgeom.transforms import BranchConvSmoother, BranchLinearResampler
    from swcgeom.transforms.branch import BranchIsometricResampler

    kind, seq = case[0], [(list(c[0]), c[1], c[2]) for c in case[1]]
    R.state(kind, seq)
    inst, op, param = {"lin(3)": (BranchLinearResampler(3), "lin", 3), "iso(1.0)": (BranchIsometricResampler(1.0), "iso", 1.0),
                       "smooth(3)": (BranchConvSmoother(3), "smooth", 3)}[kind]
    brs = []
    for lens, bank, src in seq:
        pos = polyline(lens, bank)
        br = make_branch(src, pos, [RADII[(i + 1) % len(RADII)] for i in range(len(pos))])
        brs.append((lens, bank, src, br, read_branch(br)))
    live = []
    order = list(range(len(brs))) + [0]
    for step, k in enumerate(order):
        lens, bank, src, br, P = brs[k]
        nm = f"history[{kind}] call {step + 1} on lens={lens} bank={bank} source={src} (inputs so far: {[brs[j][0] for j in order[:step]]})"
        ok, res = call(R, f"history:branch-{op}", "", nm, lambda: inst(br))
        if ok:
            judge_branch_op(R, op, param, P, res, nm)
            live.append((nm, P, res, content(res)))
    for nm, P, res, snap in live[:-1]:
        if not R.check(content(res) == snap, "result-changed-by-later-calls", f"{nm}: result changed after later calls of the same instance",
                       "history:branch-result-changed-by-later-calls"):
            judge_branch_op(R, op, param, P, res, nm + " [re-judged after later calls]")
    lens, bank, src, br, _ = brs[0]
    last = int(br.idx[-1])
    br.attach.ndata["x"][last] += 0.75
    br.attach.ndata["z"][last] -= 0.5
    br.attach.ndata["r"][last] += 0.375
    P2 = read_branch(br)
    nm = f"history[{kind}] call on lens={lens} bank={bank} source={src} after moving its last node in place to {P2[-1]}"
    ok, res = call(R, f"history:branch-{op}", "", nm, lambda: inst(br))
    if ok:
        judge_branch_op(R, op, param, P2, res, nm)


# ------------------------------------------------------------------ spaces


def spaces(tier, seed):
    q = tier == "quick"
    st_hi = 5 if q else 6
    lt_hi = 5
    pl_hi = 4 if q else 6
    banks = ("lattice", "generic")
    tg = "q" if q else "t"

    def gen_trees():
        yield ((-1,), (), "lattice", tg)
        for n in range(2, st_hi + 1):
            for p in S.sorted_trees(n):
                for lens in itertools.product(LENGTHS, repeat=n - 1):
                    if n <= 4:
                        for bank in banks:
                            yield (p, lens, bank, tg)
                    elif n == 5:
                        # quick: one bank per tree (alternating with the parent table); thorough: both
                        for bank in (banks[sum(p) % 2],) if q else banks:
                            yield (p, lens, bank, tg)
                    else:
                        yield (p, lens, banks[(sum(p) // 2) % 2], "t6")
        for n in range(3, lt_hi + 1):
            for p in S.labelled_trees(n):
                if ref.is_sorted(p):
                    continue
                for lens in itertools.product(LENGTHS if n <= 4 else ((0.0, 1.0) if q else (0.0, 1.0, 2.3)), repeat=n - 1):
                    yield (p, lens, "generic", "l")

    def gen_branches():
        for m in range(2, pl_hi + 1):
            for lens in itertools.product(LENGTHS, repeat=m - 1):
                for bank in banks:
                    for kind in ("xyzr32", "xyzr64", "tree"):
                        yield (lens, bank, kind, tg)

    def gen_length_sweep():
        """Branch length / spacing = every multiple of 1/256 in [1/8, r_hi] and a fine ladder on both sides of every whole number:
        the node count changes at whole ratios, and 'round-off guards' bite just beside them."""
        r_hi = 4 if q else 9
        ratios = [j / 256 for j in range(32, 256 * r_hi + 1)]
        for k in range(1, r_hi + 1):
            for e in SWEEP_FINE:
                ratios += [k + e, k - e]
        for d in (1.0, 0.4, 2.5):
            for r in ratios:
                L = r * d
                for split in ((1.0,), (0.3, 0.7)) if d == 1.0 or r == int(r) or abs(r - round(r)) < 0.01 else ((1.0,),):
                    yield (tuple(L * f for f in split), "generic", "xyzr32" if len(split) == 1 else "tree", f"sw:{d}")

    tpool = history_tree_pool(4 if q else 5)
    tpool3 = history_tree_pool(3)
    bpool = history_branch_pool(3 if q else 4)
    bpool3 = history_branch_pool(2)

    def gen_history_tree():
        for kind in TREE_INSTANCES:
            for a in tpool:
                for b in tpool:
                    yield (kind, (a, b))
        if not q:
            for kind in TREE_INSTANCES:
                for tr in itertools.product(tpool3, repeat=3):
                    yield (kind, tr)

    def gen_history_branch():
        for kind in BRANCH_INSTANCES:
            for a in bpool:
                for b in bpool:
                    yield (kind, (a, b))
        if not q:
            for kind in BRANCH_INSTANCES:
                for tr in itertools.product(bpool3, repeat=3):
                    yield (kind, tr)

    bm = BRANCH_MENUS[tg]
    return [
        Space.of("history-branch", gen_history_branch, check_history_branch,
                 bounds={"instances": list(BRANCH_INSTANCES), "pool": len(bpool), "sequences": "every ordered pair of pool inputs (A, B): A, B, A again, "
                         "A edited in place" + ("" if q else f"; every ordered triple of the {len(bpool3)} two-point inputs")}),
        Space.of("history-tree", gen_history_tree, check_history_tree,
                 bounds={"instances": list(TREE_INSTANCES), "pool": len(tpool), "pool_rule": "every sorted tree up to "
                         f"{4 if q else 5} nodes x {{mixed lengths on the generic bank, zero-first lengths on the lattice bank}}",
                         "sequences": "every ordered pair (A, B): A, B, A again, A edited in place" + ("" if q else f"; every ordered triple of the {len(tpool3)} trees up to 3 nodes")}),
        Space.of("branch-length-sweep", gen_length_sweep, check_branch,
                 bounds={"spacings": [1.0, 0.4, 2.5], "length_over_spacing": f"every multiple of 1/256 in [1/8, {4 if q else 9}] and k +- {list(SWEEP_FINE)} for every whole k",
                         "polylines": "one segment; two segments (0.3 / 0.7 of the length) for spacing 1.0 and beside whole ratios", "adjust_last_gap": [True, False]}),
        Space.of("branch-transforms", gen_branches, check_branch,
                 bounds={"polyline_points": [2, pl_hi], "segment_lengths": list(LENGTHS), "direction_banks": list(banks),
                         "sources": ["from_xyzr float32", "from_xyzr float64", "attached tree branch"],
                         "linear_n": list(bm["lin"]), "spacings": list(bm["iso"]), "adjust_last_gap": [True, False], "windows": list(bm["win"])}),
        Space.of("tree-transforms", gen_trees, check_tree,
                 bounds={"ST_max_nodes": st_hi, "LT_unsorted_max_nodes": lt_hi, "edge_lengths": list(LENGTHS),
                         "direction_banks": "both for n <= 4" + ("; n = 5: one per tree, alternating with the parent table" if q else
                                                                 " and n = 5; n = 6: one per tree, alternating with the parent table"),
                         "LT_edge_lengths": "full alphabet for n <= 4; n = 5: " + ("{0, 1}" if q else "{0, 1, 2.3}"),
                         "menus (root type -> operations)": {k: [[rt, {kk: list(vv) for kk, vv in ops.items()}] for rt, ops in MENUS[k]]
                                                             for k in (("q", "l") if q else ("t", "t6", "l"))}}),
    ]
