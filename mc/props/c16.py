"""C16 — resampling and smoothing keep the neuron's shape."""

from __future__ import annotations

import itertools
import math
import os
import traceback

import numpy as np

from mc import build, ref, spaces as S
from mc.kernel import Space

PROPERTY = "C16"
RULE = (
    "tree level: every sorted tree ST(n) (plus unsorted labelled trees LT(n)) up to the tier bound x every edge-length vector over "
    "{0, 0.5, 1, 2.3} (zero-length edges and whole zero-length branches included) laid out along one of two direction banks "
    "(axis/3-4-5 'lattice' and generic unit vectors), float32 coordinates; per tree x root type {1,3,0}: IsometricResampler(d) "
    "for every spacing of the tier (both adjust_last_gap modes), the generic Resampler with BranchLinearResampler(n) and with the "
    "identity, BranchTreeAssembler(BranchTree.from_tree(t)) also with the remembered branch lists rotated / reversed, TreeSmoother(w) for every window. Branch level: every polyline of 2..m "
    "points over the same length alphabet, as a free Branch.from_xyzr (float32 and float64) and as a branch attached to a tree at "
    "non-zero indices x BranchLinearResampler(n) x BranchIsometricResampler(d, both modes) x BranchConvSmoother(w). "
    "Oracle: pure-Python polyline / arc-length reference on the float32 input coordinates; the result's own branch decomposition is "
    "matched (backtracking over sibling permutations, so coincident critical nodes are decided exactly) against the original's. "
    "Non-trivial = at least one edge; distinct = distinct (parent table, length vector, bank)."
)
ASSUMPTIONS = [
    "coordinates are stored as float32 with |coordinate| < 16: a correctly interpolated node is within 1e-4 of the float64 reference "
    "point (float32 ulp 9.5e-7 at 8..16, arc lengths accumulated in float32 over <= 6 segments), so POS_TOL = 1e-4",
    "the resampled node count k per branch is read off the result, not asserted (k = ceil(L/d) flips by one when L/d is an integer "
    "up to float32 rounding); asserted: equal arc steps L/k <= d(1+1e-4), nodes at arc j*L/k on the original polyline",
    "radius of a node at arc length s must lie in the range of the piecewise-linear radius profile over [s-1e-4, s+1e-4] (+-1e-5): "
    "this turns the position tolerance into the matching radius tolerance and makes zero-length segments (radius jump at one arc "
    "length) a reference-declared tie: any value between the two radii is accepted",
    "total length <= original (1+1e-5) + 1e-6 (rounding of collinear points to float32 changes the length only to second order)",
    "adjust_last_gap=False is read as: all steps equal the spacing except the last, which is shorter; only 'on the polyline, steps "
    "<= spacing, radii linear, critical nodes kept' is asserted there, not equality of steps",
    "smoothing: only node count, ids/parents, radii and the positions of root/furcations/tips (branch: both ends) are asserted",
]

POS_TOL = 1e-4
R_TOL = 1e-5
LENGTHS = (0.0, 0.5, 1.0, 2.3)
RADII = (1.0, 1.75, 0.5, 2.25, 1.25, 0.75, 2.0, 1.5)

_s = 1 / math.sqrt(3)
DIRS = {
    "lattice": [(1, 0, 0), (0, 1, 0), (0, 0, 1), (0.6, 0.8, 0), (0, -0.6, 0.8), (-0.8, 0, 0.6), (0, 0, -1)],
    "generic": [
        (0.36, 0.48, 0.8), (-0.48, 0.64, 0.6), (0.8, -0.36, 0.48), (-0.6, -0.64, 0.48),
        (2 / 7, 3 / 7, -6 / 7), (-6 / 7, 2 / 7, 3 / 7), (3 / 7, -6 / 7, -2 / 7),
    ],
}
ROOTS = {"lattice": (0.25, -0.5, 0.75), "generic": (3.37, -2.81, 1.93)}


# ------------------------------------------------------------------ reference polyline geometry (float64, plain Python)


def layout(p, lens, bank):
    """Positions (float32-representable floats) of a tree whose edge i has length lens[i-1] along DIRS[bank][i % 7]."""
    n = len(p)
    pos = [None] * n
    order = sorted(range(n), key=lambda i: ref.depth(p, i))
    dirs = DIRS[bank]
    for i in order:
        if p[i] == -1:
            pos[i] = tuple(build.f32(v) for v in ROOTS[bank])
        else:
            d = dirs[i % len(dirs)]
            q = pos[p[i]]
            pos[i] = tuple(build.f32(q[k] + lens[i - 1] * d[k]) for k in range(3))
    return pos


def arc_table(P):
    """Cumulative arc lengths of the polyline P = [(xyz, r), ...]."""
    cum = [0.0]
    for a, b in zip(P[:-1], P[1:]):
        cum.append(cum[-1] + ref.dist(a[0], b[0]))
    return cum


def point_at(P, cum, s):
    """Point of the polyline at arc length s (clamped)."""
    if s <= 0:
        return P[0][0]
    for i in range(len(P) - 1):
        a, b = cum[i], cum[i + 1]
        if b > a and s <= b:
            t = (s - a) / (b - a)
            return tuple(P[i][0][k] + t * (P[i + 1][0][k] - P[i][0][k]) for k in range(3))
    return P[-1][0]


def radius_range(P, cum, s, delta):
    """Range of the piecewise-linear radius profile over arc lengths [s-delta, s+delta]."""
    lo, hi = math.inf, -math.inf
    u0, v0 = s - delta, s + delta
    for i in range(len(P) - 1):
        a, b = cum[i], cum[i + 1]
        u, v = max(a, u0), min(b, v0)
        if u > v:
            continue
        ra, rb = P[i][1], P[i + 1][1]
        if b > a:
            vals = (ra + (u - a) / (b - a) * (rb - ra), ra + (v - a) / (b - a) * (rb - ra))
        else:
            vals = (ra, rb)
        lo, hi = min(lo, *vals), max(hi, *vals)
    if lo is math.inf:  # s outside [0, L] by more than delta: clamp
        r = P[0][1] if s < 0 else P[-1][1]
        return r, r
    return lo, hi


def judge_branch(P, Q, mode, param):
    """Is the node sequence Q a valid resampling of the polyline P?  Returns a list of (kind, detail)."""
    fails = []
    k = len(Q) - 1
    if k < 1:
        return [("branch:too-few-nodes", f"resampled branch has {len(Q)} node(s)")]
    cum = arc_table(P)
    L = cum[-1]
    if mode == "id":
        if len(Q) != len(P):
            return [("identity:node-count", f"branch has {len(P)} nodes, reassembled {len(Q)}")]
        arcs = cum
    elif mode == "lin":
        if len(Q) != param:
            fails.append(("linear:node-count", f"asked for {param} nodes per branch, got {len(Q)}"))
        arcs = [j * L / k for j in range(k + 1)]
    elif mode == "iso":
        step = L / k
        if step > param * (1 + 1e-4) + 1e-9:
            fails.append(("spacing:step-too-long", f"branch of length {L:.6f} resampled into {k} steps of {step:.6f} > spacing {param}"))
        arcs = [j * L / k for j in range(k + 1)]
    elif mode == "iso-nogap":
        last = L - (k - 1) * param
        if last > param * (1 + 1e-4) + 1e-9 or last < -1e-4 * (1 + L):
            fails.append(("spacing:last-step", f"branch of length {L:.6f}, {k} steps at spacing {param}: last step {last:.6f}"))
        arcs = [min(j * param, L) for j in range(k)] + [L]
    else:
        raise AssertionError(mode)
    # Euclidean steps can never exceed the spacing either (chord <= arc)
    if mode in ("iso", "iso-nogap"):
        for j in range(k):
            e = ref.dist(Q[j][0], Q[j + 1][0])
            if e > param * (1 + 1e-4) + 1e-6:
                fails.append(("spacing:step-too-long", f"nodes {j},{j + 1} of a resampled branch are {e:.6f} apart > spacing {param}"))
                break
    for j, (q, s) in enumerate(zip(Q, arcs)):
        want = point_at(P, cum, s)
        dev = ref.dist(q[0], want)
        end = j in (0, k)
        if dev > POS_TOL:
            kind = "endpoint-moved" if end else "off-polyline-or-unequal-steps"
            fails.append((kind, f"node {j}/{k} at {q[0]} but arc {s:.6f} of the original branch is {tuple(round(v, 6) for v in want)} (dev {dev:.2e}); "
                                f"L={L:.6f}"))
            break
        lo, hi = radius_range(P, cum, s, POS_TOL)
        if not (lo - R_TOL <= q[1] <= hi + R_TOL):
            kind = "endpoint-radius" if end else "radius-not-linear"
            fails.append((kind, f"node {j}/{k} at arc {s:.6f} has r={q[1]:.6f}, linear interpolation gives [{lo:.6f}, {hi:.6f}]"))
            break
    return fails


# ------------------------------------------------------------------ tree-level oracle


def read_tree(t):
    xyz = build.tags_xyz(t)
    r = [float(v) for v in t.r().tolist()]
    return [int(v) for v in t.pid().tolist()], list(zip(xyz, r))


def judge_tree(R, what, klass, p, pts, res, mode, param):
    """pts = [(xyz, r)] of the original; res = resulting Tree."""
    ctx = lambda: f"{what} p={list(p)}"  # noqa: E731
    wf, why = build.wellformed(res)
    if not R.check(wf, "result-malformed", lambda: f"{ctx()}: {why}", f"{klass}:malformed"):
        return False
    rp, rpts = read_tree(res)
    obr, rbr = {}, {}
    for b in ref.branches(p):
        obr.setdefault(b[0], []).append(b)
    for b in ref.branches(rp):
        rbr.setdefault(b[0], []).append(b)
    R.note(f"{mode}:branches", sum(len(v) for v in obr.values()))

    # root at its position
    d0 = ref.dist(pts[0][0], rpts[0][0])
    ok = R.check(d0 <= POS_TOL and abs(pts[0][1] - rpts[0][1]) <= R_TOL, "root-moved",
                 lambda: f"{ctx()}: root {pts[0]} -> {rpts[0]}", f"{klass}:root-moved")

    cache = {}

    def bfail(ob, rb):
        key = (tuple(ob), tuple(rb))
        if key not in cache:
            cache[key] = judge_branch([pts[i] for i in ob], [rpts[i] for i in rb], mode, param)
        return cache[key]

    def match(o, r):
        A, B = obr.get(o, []), rbr.get(r, [])
        if len(A) != len(B):
            return [("connectivity", f"original node {o} at {pts[o][0]} starts {len(A)} branch(es), its image (result node {r}) {len(B)}")]
        if not A:
            return []
        best = None
        for perm in itertools.permutations(range(len(B))):
            fails = []
            for i, j in enumerate(perm):
                f = bfail(A[i], B[j])
                fails += f
                if not f:
                    fails += match(A[i][-1], B[j][-1])
            if not fails:
                return []
            # prefer the pairing whose end points agree (so the reported reason is the informative one)
            score = (sum(1 for k, _ in fails if k in ("endpoint-moved", "connectivity")), len(fails))
            if best is None or score < best[0]:
                best = (score, fails)
        return best[1]

    fails = match(0, 0)
    for kind, detail in fails[:1]:
        R.fail(kind, f"{ctx()}: {detail}; result pid={rp} xyz={[tuple(round(v, 4) for v in q[0]) for q in rpts]}", f"{klass}:{kind}")
    ok = ok and not fails

    # total length never grows
    if mode != "smooth":
        L0 = sum(ref.dist(pts[i][0], pts[q][0]) for q, i in ref.edges(p))
        L1 = sum(ref.dist(rpts[i][0], rpts[q][0]) for q, i in ref.edges(rp))
        ok = R.check(L1 <= L0 * (1 + 1e-5) + 1e-6, "length-grows", lambda: f"{ctx()}: total length {L0:.6f} -> {L1:.6f}", f"{klass}:length-grows") and ok
        if mode in ("iso", "iso-nogap"):
            # diagnostic only: node count vs ceil(L/d)
            for o, lst in obr.items():
                for b in lst:
                    Lb = sum(ref.dist(pts[i][0], pts[j][0]) for i, j in zip(b, b[1:]))
                    R.note("iso:L/d-within-1e-6-of-an-integer", int(Lb > 0 and abs(Lb / param - round(Lb / param)) < 1e-6))
    R.outcome(what.split("(")[0], len(rp), tuple(sorted(len(b) for v in rbr.values() for b in v)))
    return ok


def mk_tree(p, pos, rtype):
    n = len(p)
    return build.make_tree(list(p), xyz=pos, r=[RADII[i % len(RADII)] for i in range(n)], types=[rtype] + [3] * (n - 1))


SP_Q = (0.4, 1.0, 1.7, 10.0)
SP_T = (0.25, 0.4, 0.5, 1.0, 1.15, 1.7, 2.3, 10.0)
ASM = "BranchTreeAssembler(BranchTree.from_tree(t))"
RID = "Resampler(identity)"
ROT = "BranchTreeAssembler(from_tree(t) with every branch list rotated by one)"
REV = "BranchTreeAssembler(from_tree(t) with every branch list reversed)"
ISOROT = "BranchTreeAssembler(from_tree(t), branches resampled at spacing 1.0, every branch list rotated by one)"

# menu tag -> [(root type or 'parity', operations)]; the tag is part of the case so that a replay is self-contained
MENUS = {
    "q": [
        (1, dict(iso=SP_Q, nogap=SP_Q, lin=(2, 3, 5), ident=(ASM, RID, ROT, REV, ISOROT), win=(1, 2, 3, 5, 7))),
        (3, dict(iso=SP_Q, nogap=(), lin=(), ident=(ASM,), win=())),
    ],
    "t": [
        (1, dict(iso=SP_T, nogap=SP_T, lin=(2, 3, 4, 5, 10), ident=(ASM, RID, ROT, REV, ISOROT), win=(1, 2, 3, 4, 5, 7, 9))),
        (3, dict(iso=SP_T, nogap=(1.0,), lin=(3,), ident=(ASM,), win=(3,))),
        (0, dict(iso=SP_T, nogap=(1.0,), lin=(3,), ident=(ASM,), win=(3,))),
    ],
    # largest size of the thorough tier: fewer operations per tree; root type alternates with the parity of the parent table
    "t6": [("parity", dict(iso=SP_Q, nogap=(1.0,), lin=(3,), ident=(ASM, ROT), win=(3,)))],
    # unsorted labelled trees
    "l": [(1, dict(iso=(0.4, 1.0, 1.7), nogap=(1.0,), lin=(3,), ident=(ASM,), win=(3,)))],
}
BRANCH_MENUS = {
    "q": dict(lin=(2, 3, 5, 10), iso=SP_Q, win=(1, 2, 3, 5, 7)),
    "t": dict(lin=(2, 3, 4, 5, 10, 33), iso=SP_T, win=(1, 2, 3, 4, 5, 7, 9)),
}


def check_tree(case, R):
    from swcgeom.core import BranchTree
    from swcgeom.transforms import BranchLinearResampler, BranchTreeAssembler, IsometricResampler, TreeSmoother
    from swcgeom.transforms.branch import BranchIsometricResampler
    from swcgeom.transforms.tree import Resampler

    p, lens, bank, menu = list(case[0]), list(case[1]), case[2], case[3]
    n = len(p)
    R.state(p, lens, bank)
    if n < 2:
        R.trivial()
    pos = layout(p, lens, bank)
    zero = ":zero-length-branch" if any(
        all(pos[a] == pos[b] for a, b in zip(br, br[1:])) for br in ref.branches(p)) else ""
    for rtype, ops in MENUS[menu]:
        if rtype == "parity":
            rtype = (1, 3)[sum(p) % 2]
        t = mk_tree(p, pos, rtype)
        _, pts = read_tree(t)
        sfx = ("" if rtype == 1 else ":non-soma-root") + zero
        geo = f"root type {rtype} lens={lens} bank={bank} p={p}"
        for adjust, key in ((True, "iso"), (False, "nogap")):
            for d in ops[key]:
                nm = f"IsometricResampler({d}{'' if adjust else ', adjust_last_gap=False'}) {geo}"
                kl = "iso" if adjust else "iso-nogap"
                ok, res = call(R, kl, sfx, nm, lambda: IsometricResampler(d, adjust_last_gap=adjust)(t))
                if ok:
                    judge_tree(R, nm, kl, p, pts, res, kl, d)
        for m in ops["lin"]:
            nm = f"Resampler(BranchLinearResampler({m})) {geo}"
            ok, res = call(R, "lin", sfx, nm, lambda: Resampler(BranchLinearResampler(m))(t))
            if ok:
                judge_tree(R, nm, "lin", p, pts, res, "lin", m)
        for nm in ops["ident"]:
            if nm in (ROT, REV, ISOROT) and max(len(c) for c in ref.children(p)) < 2:
                continue  # no list with two branches: same call as ASM

            def permuted(nm=nm):
                # the order of the branches remembered for a node carries no meaning: the assembler pairs them with the
                # node's children by position
                bt = BranchTree.from_tree(t)
                f = BranchIsometricResampler(1.0) if nm == ISOROT else (lambda br: br)
                bt.branches = {k: [f(b) for b in (v[::-1] if nm == REV else v[1:] + v[:1])] for k, v in bt.branches.items()}
                return BranchTreeAssembler()(bt)

            fn = {ASM: lambda: BranchTreeAssembler()(BranchTree.from_tree(t)), RID: lambda: Resampler(lambda br: br)(t)}.get(nm, permuted)
            ok, res = call(R, "identity", sfx, f"{nm} {geo}", fn)
            if ok:
                if nm == ISOROT:
                    judge_tree(R, f"{nm} {geo}", "iso", p, pts, res, "iso", 1.0)
                else:
                    judge_tree(R, f"{nm} {geo}", "identity", p, pts, res, "id", None)
        for w in ops["win"]:
            nm = f"TreeSmoother({w}) {geo}"
            ok, res = call(R, "TreeSmoother", sfx, nm, lambda: TreeSmoother(w)(t))
            if ok:
                judge_smooth_tree(R, nm, p, pts, t, res)


def call(R, what, suffix, ctx, fn):
    """R.impl with a klass that also names the input class (suffix) the exception was seen on."""
    ok, v = R.attempt(fn)
    if not ok:
        where = ""
        for fr in reversed(traceback.extract_tb(v.__traceback__)):
            if "/swcgeom/" in fr.filename:
                where = f"{os.path.basename(fr.filename)}:{fr.name}"
                break
        R.fail(f"raises:{what}", f"{ctx}: {type(v).__name__}: {v} @ {where}", f"raises:{what}:{type(v).__name__}@{where}{suffix}")
    return ok, v


def judge_smooth_tree(R, what, p, pts, t, res):
    n = len(p)
    if not R.check(len(res) == n, "smooth:node-count", lambda: f"{what} p={p}: {n} nodes -> {len(res)}", "smooth-tree:node-count"):
        return
    rp, rpts = read_tree(res)
    R.check(rp == list(p) and [int(i) for i in res.id().tolist()] == list(range(n)), "smooth:connectivity",
            lambda: f"{what} p={p}: ids {res.id().tolist()} pids {rp}", "smooth-tree:connectivity")
    R.check(all(abs(a[1] - b[1]) <= 1e-6 for a, b in zip(pts, rpts)), "smooth:radii",
            lambda: f"{what} p={p}: radii {[a[1] for a in pts]} -> {[b[1] for b in rpts]}", "smooth-tree:radii")
    ch = ref.children(p)
    crit = [i for i in range(n) if p[i] == -1 or len(ch[i]) != 1]
    moved = [i for i in crit if ref.dist(pts[i][0], rpts[i][0]) > 1e-6]
    R.check(not moved, "smooth:critical-node-moved",
            lambda: f"{what} p={p}: root/furcation/tip nodes {moved} moved: {[(pts[i][0], rpts[i][0]) for i in moved]}", "smooth-tree:critical-node-moved")
    R.outcome("smooth", sum(1 for a, b in zip(pts, rpts) if a[0] != b[0]))


# ------------------------------------------------------------------ branch-level


def polyline(lens, bank, start=0):
    dirs = DIRS[bank]
    pos = [tuple(build.f32(v) for v in ROOTS[bank])]
    for i, L in enumerate(lens):
        d = dirs[(start + i + 1) % len(dirs)]
        q = pos[-1]
        pos.append(tuple(build.f32(q[k] + L * d[k]) for k in range(3)))
    return pos


def make_branch(kind, pos, rad):
    """The same polyline as a free branch (float32 / float64 array) or attached to a tree at indices != 0.."""
    from swcgeom.core import Branch

    m = len(pos)
    if kind in ("xyzr32", "xyzr64"):
        arr = np.array([list(q) + [r] for q, r in zip(pos, rad)], dtype=np.float32 if kind == "xyzr32" else np.float64)
        return Branch.from_xyzr(arr)
    # tree: root = pos[0] with a stub child (node 1) and the chain as nodes 2..m
    p = [-1, 0, 0] + list(range(2, m))
    stub = tuple(build.f32(pos[0][k] + (0.5, -0.25, 0.125)[k]) for k in range(3))
    xyz = [pos[0], stub] + list(pos[1:])
    r = [rad[0], 0.625] + list(rad[1:])
    t = build.make_tree(p, xyz=xyz, r=r)
    want = [0] + list(range(2, m + 1))
    for b in t.get_branches():
        if [int(i) for i in b.origin_id().tolist()] == want:
            return b
    raise RuntimeError(f"harness: branch {want} not found among {[b.origin_id().tolist() for b in t.get_branches()]}")


def read_branch(b):
    a = np.asarray(b.xyzr(), dtype=np.float64)
    return [((float(row[0]), float(row[1]), float(row[2])), float(row[3])) for row in a]


def check_branch(case, R):
    from swcgeom.transforms import BranchConvSmoother, BranchLinearResampler
    from swcgeom.transforms.branch import BranchIsometricResampler

    lens, bank, kind, menu = list(case[0]), case[1], case[2], case[3]
    cfg = BRANCH_MENUS[menu]
    R.state(lens, bank, kind)
    pos = polyline(lens, bank)
    rad = [RADII[(i + 1) % len(RADII)] for i in range(len(pos))]
    zero = ":zero-length-branch" if all(a == b for a, b in zip(pos, pos[1:])) else ""
    ctx = f"lens={lens} bank={bank} source={kind}"
    ok, br = call(R, "make-branch", zero, ctx, lambda: make_branch(kind, pos, rad))
    if not ok:
        return
    P = read_branch(br)
    R.check(all(ref.dist(a[0], q) == 0 for a, q in zip(P, pos)), "harness:branch-readback", f"{ctx}: {P} vs {pos}")

    for m in cfg["lin"]:
        ok, res = call(R, "BranchLinearResampler", zero, f"n_nodes={m} {ctx}", lambda: BranchLinearResampler(m)(br))
        if not ok:
            continue
        Q = read_branch(res)
        # as worded: n points, end points unchanged; (the interior is the arc-length rule of the first sentence)
        f = judge_branch(P, Q, "lin", m)
        for kindf, detail in f[:1]:
            R.fail(kindf, f"BranchLinearResampler({m}) {ctx}: {detail}", f"branch-linear:{kindf}")
        R.outcome("lin", m, len(Q))
    for d in cfg["iso"]:
        for adjust in (True, False):
            mode = "iso" if adjust else "iso-nogap"
            ok, res = call(R, f"BranchIsometricResampler[{mode}]", zero, f"distance={d} {ctx}",
                           lambda: BranchIsometricResampler(d, adjust_last_gap=adjust)(br))
            if not ok:
                continue
            Q = read_branch(res)
            if len(Q) == 1 and P[0][0] == P[-1][0]:
                # a whole zero-length branch collapses to one node at that point: both end points are there
                R.note("iso:zero-length-branch-collapsed")
                f = judge_branch(P, Q + Q, mode, d)
            else:
                f = judge_branch(P, Q, mode, d)
            for kindf, detail in f[:1]:
                R.fail(kindf, f"BranchIsometricResampler({d}, adjust_last_gap={adjust}) {ctx}: {detail}", f"branch-{mode}:{kindf}")
            R.outcome(mode, d, len(Q))
    ids = [int(i) for i in br.id().tolist()]
    pids = [int(i) for i in br.pid().tolist()]
    for w in cfg["win"]:
        what = f"BranchConvSmoother({w}) {ctx}"
        ok, res = call(R, "BranchConvSmoother", zero, what, lambda: BranchConvSmoother(w)(br))
        if not ok:
            continue
        Q = read_branch(res)
        if not R.check(len(Q) == len(P), "smooth:node-count", f"{what}: {len(P)} -> {len(Q)}", "smooth-branch:node-count"):
            continue
        R.check([int(i) for i in res.id().tolist()] == ids and [int(i) for i in res.pid().tolist()] == pids, "smooth:connectivity",
                lambda: f"{what}: id/pid {res.id().tolist()} {res.pid().tolist()}", "smooth-branch:connectivity")
        R.check(all(abs(a[1] - b[1]) <= 1e-6 for a, b in zip(P, Q)), "smooth:radii", lambda: f"{what}: radii {[b[1] for b in Q]}", "smooth-branch:radii")
        R.check(ref.dist(P[0][0], Q[0][0]) <= 1e-6 and ref.dist(P[-1][0], Q[-1][0]) <= 1e-6, "smooth:endpoint-moved",
                lambda: f"{what}: ends {Q[0][0]} {Q[-1][0]} want {P[0][0]} {P[-1][0]}", "smooth-branch:endpoint-moved")
        R.outcome("smooth", w, sum(1 for a, b in zip(P, Q) if a[0] != b[0]))
    # the input branch is what it was
    R.check(read_branch(br) == P, "input-modified", f"{ctx}", "branch:input-modified")


# ------------------------------------------------------------------ spaces


def spaces(tier, seed):
    q = tier == "quick"
    st_hi = 5 if q else 6
    lt_hi = 4 if q else 5
    pl_hi = 4 if q else 6
    banks = ("lattice", "generic")
    tg = "q" if q else "t"

    def gen_trees():
        yield ((-1,), (), "lattice", tg)
        for n in range(2, st_hi + 1):
            for p in S.sorted_trees(n):
                for lens in itertools.product(LENGTHS, repeat=n - 1):
                    if n <= 4:
                        for bank in banks:
                            yield (p, lens, bank, tg)
                    elif n == 5:
                        # quick: one bank per tree (alternating with the parent table); thorough: both
                        for bank in (banks[sum(p) % 2],) if q else banks:
                            yield (p, lens, bank, tg)
                    else:
                        yield (p, lens, banks[(sum(p) // 2) % 2], "t6")
        for n in range(3, lt_hi + 1):
            for p in S.labelled_trees(n):
                if ref.is_sorted(p):
                    continue
                for lens in itertools.product(LENGTHS if n <= 4 else (0.0, 1.0, 2.3), repeat=n - 1):
                    yield (p, lens, "generic", "l")

    def gen_branches():
        for m in range(2, pl_hi + 1):
            for lens in itertools.product(LENGTHS, repeat=m - 1):
                for bank in banks:
                    for kind in ("xyzr32", "xyzr64", "tree"):
                        yield (lens, bank, kind, tg)

    bm = BRANCH_MENUS[tg]
    return [
        Space.of("branch-transforms", gen_branches, check_branch,
                 bounds={"polyline_points": [2, pl_hi], "segment_lengths": list(LENGTHS), "direction_banks": list(banks),
                         "sources": ["from_xyzr float32", "from_xyzr float64", "attached tree branch"],
                         "linear_n": list(bm["lin"]), "spacings": list(bm["iso"]), "adjust_last_gap": [True, False], "windows": list(bm["win"])}),
        Space.of("tree-transforms", gen_trees, check_tree,
                 bounds={"ST_max_nodes": st_hi, "LT_unsorted_max_nodes": lt_hi, "edge_lengths": list(LENGTHS),
                         "direction_banks": "both for n <= 4" + ("; n = 5: one per tree, alternating with the parent table" if q else
                                                                 " and n = 5; n = 6: one per tree, alternating with the parent table"),
                         "LT_edge_lengths": "full alphabet for n <= 4, {0, 1, 2.3} for n = 5",
                         "menus (root type -> operations)": {k: [[rt, {kk: list(vv) for kk, vv in ops.items()}] for rt, ops in MENUS[k]]
                                                             for k in (("q", "l") if q else ("t", "t6", "l"))}}),
    ]
