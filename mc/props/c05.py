"""C05 — node renumbering is a pure relabelling with parents before children."""

from __future__ import annotations

import io
import itertools

import numpy as np

from mc import build, ref, spaces as S
from mc.kernel import Space

PROPERTY = "C05"
RULE = (
    "tree form: every labelled tree LT(n) x extra-column sets x {tagged, all-equal attributes}; table and file forms: "
    "every LT(n) x every row order (quick: all n! for n<=4, cyclic shifts + reversal for n=5) x 5 id maps "
    "(identity, +1, 10i+3, reversed, scattered) x extra-column sets; oracle: ids 0..n-1, root 0, parents first, "
    "attribute-preserving bijection (recovered from unique tags) that maps parent to parent, idempotence, is_sorted, "
    "copying forms leave their argument unchanged; histories: every ordered pair/triple of sorts (4 forms x small trees) with each "
    "result re-judged after the later sorts. Non-trivial = at least 2 nodes."
)
ASSUMPTIONS = [
    "values written to text are exactly representable with 4 decimals, so the file form compares exactly",
    "with all attributes equal the isomorphism is checked structurally (AHU canonical form)",
]

ID_MAPS = ("ident", "plus1", "10i+3", "reversed", "scattered")
SCATTER = [7, 2, 9, 4, 11, 5, 13, 1]
EXTRAS = ((), ("a",), ("a", "b"))
# table / tree forms also carry non-float columns: 64-bit integers beyond 2^53 (not representable as doubles) and strings
EXTRAS_TYPED = (("big",), ("a", "big"), ("big", "s"), ("nan",), ("a", "nan", "obj"), ("allnan", "a"))
EXTRAS_ND = (("vec",), ("a", "vec", "mat"))  # tree form only: columns of shape (n, 3) and (n, 2, 2)
FILE_COLS = ("a", "b")


def id_map(kind, n):
    if kind == "ident":
        return list(range(n))
    if kind == "plus1":
        return [i + 1 for i in range(n)]
    if kind == "10i+3":
        return [10 * i + 3 for i in range(n)]
    if kind == "reversed":
        return [n - 1 - i for i in range(n)]
    return SCATTER[:n]


def attrs(n, tagged):
    """Per-node attribute rows; column x is the unique tag when tagged."""
    rows = []
    for i in range(n):
        if tagged:
            rows.append({"type": 1 + (i * 2) % 5, "x": 100.0 + i, "y": 0.5 * i, "z": -1.25 * i, "r": 0.25 + i, "a": 7.5 - i, "b": float(3 * i % 4),
                         "big": 2**53 + 1 + 2 * i, "s": f"n{i}",
                         # columns with missing values: NaN at every other node / None in an object column / all NaN
                         "nan": float("nan") if i % 2 else 20.5 + i, "obj": None if i % 3 == 1 else f"o{i}", "allnan": float("nan"),
                         # per-node data with more than one value per node: a direction vector, a 2x2 block
                         "vec": [1.0 + i, -2.0 * i, 0.5], "mat": [[float(i), 1.0], [2.0, float(-i)]]})
        else:
            rows.append({"type": 3, "x": 1.0, "y": 2.0, "z": 3.0, "r": 0.5, "a": 4.0, "b": 6.0, "big": 2**53 + 1, "s": "n", "nan": float("nan"), "obj": None, "allnan": float("nan"), "vec": [1.0, 2.0, 3.0], "mat": [[0.0, 1.0], [2.0, 3.0]]})
    return rows


def _plain(d):
    """Column lists with NaN spelled out, so that == compares missing values as equal."""
    return {k: ["missing" if v is None or (isinstance(v, float) and v != v) else v for v in vs] for k, vs in d.items()}


def _same(a, b):
    """Cell equality; a missing value (NaN / None) equals a missing value of the same kind."""
    ma, mb = a is None or (isinstance(a, float) and a != a), b is None or (isinstance(b, float) and b != b)
    if ma or mb:  # a table may spell a missing cell None or NaN (pandas converts between them on construction)
        return ma and mb
    return a == b


def judge(R, what, p, rows, extras, tagged, out_ids, out_pids, out_cols):
    """out_* are plain lists.  Returns True if a correct relabelling."""
    n = len(p)
    ctx = lambda: f"{what} p={p} extras={list(extras)} tagged={tagged}: ids={out_ids} pids={out_pids}"  # noqa: E731
    if not R.check(len(out_ids) == n and out_ids == list(range(n)), "ids-not-0..n-1", ctx, f"{what}:ids"):
        return False
    if not R.check(out_pids[0] == -1 and all(0 <= out_pids[i] < i for i in range(1, n)), "parents-not-first", ctx, f"{what}:order"):
        return False
    keys = ["type", "x", "y", "z", "r"] + list(extras)
    if tagged:
        tag2orig = {rows[i]["x"]: i for i in range(n)}
        orig = []
        for j in range(n):
            o = tag2orig.get(out_cols["x"][j])
            if o is None:
                R.fail("attribute-changed", ctx() + f" unknown tag {out_cols['x'][j]}", f"{what}:attrs")
                return False
            orig.append(o)
        if not R.check(sorted(orig) == list(range(n)), "not-a-bijection", ctx, f"{what}:bijection"):
            return False
        for j in range(n):
            o = orig[j]
            for k in keys:
                if not _same(out_cols[k][j], rows[o][k]):
                    R.fail("attribute-changed", ctx() + f" node tag {rows[o]['x']} column {k}: {out_cols[k][j]} != {rows[o][k]}", f"{what}:attrs:{'extra' if k in extras else 'std'}")
                    return False
            want_parent = p[o]
            got_parent = orig[out_pids[j]] if out_pids[j] != -1 else -1
            if got_parent != want_parent:
                R.fail("parent-relation-changed", ctx() + f" node {o}: parent {got_parent} != {want_parent}", f"{what}:parents")
                return False
    else:
        for k in keys:
            if any(not _same(out_cols[k][j], rows[0][k]) for j in range(n)):
                R.fail("attribute-changed", ctx() + f" column {k}", f"{what}:attrs")
                return False
        if not R.check(ref.ahu(out_pids) == ref.ahu(p), "not-isomorphic", ctx, f"{what}:iso"):
            return False
    return True


# ------------------------------------------------------------------ tree form


def check_tree_form(case, R):
    from swcgeom.core import sort_tree
    from swcgeom.core.swc_utils import is_sorted

    p, extras, tagged = list(case[0]), tuple(case[1]), bool(case[2])
    n = len(p)
    if n < 2:
        R.trivial()
    R.state(p, extras, tagged)
    rows = attrs(n, tagged)
    dt = {"a": np.float64, "b": np.float32, "big": np.int64, "s": "U6", "nan": np.float64, "obj": object, "allnan": np.float32, "vec": np.float64, "mat": np.float32}
    extra = {k: np.array([rows[i][k] for i in range(n)], dtype=dt[k]) for k in extras}
    t = build.make_tree(p, xyz=[(rows[i]["x"], rows[i]["y"], rows[i]["z"]) for i in range(n)], r=[rows[i]["r"] for i in range(n)],
                        types=[rows[i]["type"] for i in range(n)], extra=extra)
    snap = build.snapshot(t)
    ok, s1 = R.impl("sort_tree", sort_tree, t)
    if not ok:
        return
    R.check(build.snapshot(t) == snap, "input-modified", f"sort_tree p={p}", "sort_tree:input-modified")
    R.retain("sort_tree", lambda s1=s1: build.canon_tree(s1))  # a later sort (this case or the next) must not alter this result
    R.check(set(s1.keys()) == set(t.keys()), "columns-lost", f"sort_tree p={p}: {sorted(s1.keys())} vs {sorted(t.keys())}", "sort_tree:columns")
    cols = build.tree_cols(s1)
    if not all(k in cols for k in ["type", "x", "y", "z", "r"] + list(extras)):
        return
    good = judge(R, "sort_tree", p, rows, extras, tagged, [int(i) for i in cols["id"]], [int(i) for i in cols["pid"]], cols)
    R.outcome(tuple(int(i) for i in cols["pid"]))
    if not good:
        return
    ok, srt = R.impl("is_sorted", is_sorted, (s1.id(), s1.pid()))
    if ok:
        R.check(bool(srt), "is_sorted-false-on-result", f"p={p}", "sort_tree:is_sorted")
    # idempotence: same attributed tree, still sorted
    ok, s2 = R.impl("sort_tree(sort_tree)", sort_tree, s1)
    if ok:
        R.retain("sort_tree(sort_tree)", lambda s2=s2: build.canon_tree(s2))
        c2 = build.tree_cols(s2)
        p1 = [int(i) for i in cols["pid"]]
        rows1 = [{k: cols[k][j] for k in ["type", "x", "y", "z", "r"] + list(extras)} for j in range(n)]
        judge(R, "sort_tree(idempotence)", p1, rows1, extras, tagged, [int(i) for i in c2["id"]], [int(i) for i in c2["pid"]], c2)


# ------------------------------------------------------------------ table / file forms


def make_rows(p, order, idmap, rows, extras):
    """Table rows (dicts) in the given row order with mapped ids."""
    out = []
    for i in order:
        d = {"id": idmap[i], "type": rows[i]["type"], "x": rows[i]["x"], "y": rows[i]["y"], "z": rows[i]["z"], "r": rows[i]["r"],
             "pid": idmap[p[i]] if p[i] != -1 else -1}
        for k in extras:
            d[k] = rows[i][k]
        out.append(d)
    return out


def check_table_form(case, R):
    import pandas as pd

    from swcgeom.core import Tree
    from swcgeom.core.swc_utils import is_sorted, read_swc, sort_nodes, sort_nodes_

    p, order, mapk, extras, tagged = list(case[0]), list(case[1]), case[2], tuple(case[3]), bool(case[4])
    n = len(p)
    if n < 2:
        R.trivial()
    R.state(p, order, mapk, extras, tagged)
    rows = attrs(n, tagged)
    idmap = id_map(mapk, n)
    trows = make_rows(p, order, idmap, rows, extras)
    cols = ["id", "type", "x", "y", "z", "r", "pid"] + list(extras)
    df = pd.DataFrame({c: [d[c] for d in trows] for c in cols})
    before = _plain({c: df[c].tolist() for c in cols})

    def as_lists(d):
        return [int(i) for i in d["id"].tolist()], [int(i) for i in d["pid"].tolist()], {c: d[c].tolist() for c in d.columns}

    # copying form
    ok, out = R.impl("sort_nodes", sort_nodes, df)
    if ok:
        R.check(_plain({c: df[c].tolist() for c in cols}) == before and list(df.columns) == cols, "input-modified", f"sort_nodes p={p} order={order}", "sort_nodes:input-modified")
        R.check(list(out.columns) == cols, "columns-lost", f"sort_nodes columns {list(out.columns)}", "sort_nodes:columns")
        if list(out.columns) == cols:
            R.retain("sort_nodes", lambda out=out: {c: out[c].tolist() for c in out.columns})
            i_, p_, c_ = as_lists(out)
            if judge(R, "sort_nodes", p, rows, extras, tagged, i_, p_, c_):
                R.outcome(tuple(p_))
                ok2, srt = R.impl("is_sorted", is_sorted, (out["id"].to_numpy(), out["pid"].to_numpy()))
                if ok2:
                    R.check(bool(srt), "is_sorted-false-on-result", f"p={p} order={order}", "sort_nodes:is_sorted")
                ok2, out2 = R.impl("sort_nodes(sort_nodes)", sort_nodes, out)
                if ok2:
                    rows1 = [{k: c_[k][j] for k in ["type", "x", "y", "z", "r"] + list(extras)} for j in range(n)]
                    i2, p2, c2 = as_lists(out2)
                    judge(R, "sort_nodes(idempotence)", p_, rows1, extras, tagged, i2, p2, c2)
    # in-place form
    df2 = df.copy()
    ok, _ = R.impl("sort_nodes_", sort_nodes_, df2)
    if ok and list(df2.columns) == cols:
        i_, p_, c_ = as_lists(df2)
        judge(R, "sort_nodes_", p, rows, extras, tagged, i_, p_, c_)

    # file form (only the columns a text file can carry exactly)
    if any(e not in FILE_COLS for e in extras):
        return
    text = "# header\n" + "".join(" ".join(_fmt(d[c]) for c in cols) + "\n" for d in trows)
    ok, res = R.impl("read_swc(sort_nodes=True)", lambda: read_swc(io.StringIO(text), extra_cols=list(extras) or None, sort_nodes=True))
    if ok:
        fdf, _ = res
        if R.check(list(fdf.columns) == cols, "columns-lost", f"read_swc columns {list(fdf.columns)}", "read_swc:columns"):
            R.retain("read_swc(sort_nodes=True)", lambda fdf=fdf: {c: fdf[c].tolist() for c in fdf.columns})
            i_, p_, c_ = as_lists(fdf)
            judge(R, "read_swc(sort)", p, rows, extras, tagged, i_, p_, c_)
    if not extras:
        ok, t = R.impl("Tree.from_swc(sort_nodes=True)", lambda: Tree.from_swc(io.StringIO(text), sort_nodes=True))
        if ok:
            R.retain("Tree.from_swc(sort_nodes=True)", lambda t=t: build.canon_tree(t))
            c_ = build.tree_cols(t)
            judge(R, "Tree.from_swc(sort)", p, rows, (), tagged, [int(i) for i in c_["id"]], [int(i) for i in c_["pid"]], c_)


# ------------------------------------------------------------------ histories of sorts

FORMS = ("tree", "table", "table-inplace", "file")


def _do_sort(R, form, p, rows):
    """One sort on a fresh input; returns a reader () -> (ids, pids, cols) of the RESULT object, or None."""
    import pandas as pd

    from swcgeom.core import sort_tree
    from swcgeom.core.swc_utils import read_swc, sort_nodes, sort_nodes_

    n = len(p)
    if form == "tree":
        t = build.make_tree(p, xyz=[(rows[i]["x"], rows[i]["y"], rows[i]["z"]) for i in range(n)], r=[rows[i]["r"] for i in range(n)],
                            types=[rows[i]["type"] for i in range(n)])
        ok, out = R.impl("sort_tree", sort_tree, t)
        if not ok:
            return None

        def read(out=out):
            c = build.tree_cols(out)
            return [int(i) for i in c["id"]], [int(i) for i in c["pid"]], c
        return read
    idmap = id_map("10i+3", n)
    order = list(range(n - 1, -1, -1))
    trows = make_rows(p, order, idmap, rows, ())
    cols = ["id", "type", "x", "y", "z", "r", "pid"]
    if form == "file":
        text = "".join(" ".join(_fmt(d[c]) for c in cols) + "\n" for d in trows)
        ok, res = R.impl("read_swc(sort_nodes=True)", lambda: read_swc(io.StringIO(text), sort_nodes=True))
        if not ok:
            return None
        out = res[0]
    else:
        df = pd.DataFrame({c: [d[c] for d in trows] for c in cols})
        if form == "table":
            ok, out = R.impl("sort_nodes", sort_nodes, df)
        else:
            ok, _ = R.impl("sort_nodes_", sort_nodes_, df)
            out = df
        if not ok:
            return None

    def read_df(out=out):
        return [int(i) for i in out["id"].tolist()], [int(i) for i in out["pid"].tolist()], {c: out[c].tolist() for c in out.columns}
    return read_df


def check_history(case, R):
    """A sequence of sorts on different fresh inputs; every result is judged when returned AND again after all
    later sorts (a result must not change because the library was called again)."""
    seq = [(f, list(p)) for f, p in case]
    R.state(seq)
    live = []
    for k, (form, p) in enumerate(seq):
        rows = attrs(len(p), True)
        rd = _do_sort(R, form, p, rows)
        if rd is None:
            continue
        i_, p_, c_ = rd()
        good = judge(R, f"history:{form}", p, rows, (), True, i_, p_, c_)
        if good:
            live.append((k, form, p, rows, rd))
        R.outcome(form, tuple(p_))
    for k, form, p, rows, rd in live[:-1]:
        i_, p_, c_ = rd()
        judge(R, f"history:{form}:re-inspected-after-later-sorts", p, rows, (), True, i_, p_, c_)


def _fmt(v):
    if isinstance(v, int):
        return str(v)
    return f"{v:.4f}"


def row_orders(n, full):
    if full:
        yield from itertools.permutations(range(n))
    else:
        base = list(range(n))
        for k in range(n):
            yield tuple(base[k:] + base[:k])
        yield tuple(reversed(base))


# ------------------------------------------------------------------ sort -> in-place edit -> sort; columns sharing storage


def check_sort_edit_sort(case, R):
    """A tree that HAS been sorted (or has been asked whether it is) is edited in place - one node re-parented through a node
    handle, through the column, or re-rooted without sorting - and sorted again: the second sort must be a sort of the CURRENT
    table (nothing remembered from the first)."""
    from swcgeom.core import redirect_tree, sort_tree
    from swcgeom.core.swc_utils import is_sorted

    p, edit = list(case[0]), case[1]
    n = len(p)
    R.state(p, edit)
    rows = attrs(n, True)
    t0 = build.make_tree(p, xyz=[(rows[i]["x"], rows[i]["y"], rows[i]["z"]) for i in range(n)], r=[rows[i]["r"] for i in range(n)],
                         types=[rows[i]["type"] for i in range(n)], extra={"a": np.array([rows[i]["a"] for i in range(n)])})
    ok, s1 = R.impl("sort_tree", sort_tree, t0)
    if not ok:
        return
    R.impl("is_sorted", is_sorted, (s1.id(), s1.pid()))
    ok, s1b = R.impl("sort_tree(sort_tree)", sort_tree, s1)  # warm: a sorted tree sorted again
    c1 = build.tree_cols(s1)
    p1 = [int(v) for v in c1["pid"]]
    rows1 = [{k: c1[k][j] for k in ["type", "x", "y", "z", "r", "a"]} for j in range(n)]
    if edit[0] == "redirect":
        k = int(edit[1])
        ok, e = R.impl("redirect_tree(sort=False)", lambda: redirect_tree(s1, k, sort=False))
        if not ok:
            return
        ce = build.tree_cols(e)
        pe = [int(v) for v in ce["pid"]]
        rows_e = [{kk: ce[kk][j] for kk in ["type", "x", "y", "z", "r", "a"]} for j in range(n)]
        what = f"sort_tree after redirect_tree(sorted tree, {k}, sort=False)"
        obj = e
    else:
        i, j, how = int(edit[1]), int(edit[2]), edit[3]
        if (i, j) not in build.reparent_edits(p1):
            R.trivial()
            return
        obj, pe, other, other_p = build.apply_reparent(s1, p1, (i, j, how), None)
        rows_e = rows1
        what = f"sort_tree after re-parenting node {i} to {j} ({how}) in a sorted tree"
        if other is not None:  # the untouched original must still sort as itself
            ok, so = R.impl("sort_tree(original of the edited copy)", sort_tree, other)
            if ok:
                co = build.tree_cols(so)
                judge(R, "sort_tree(original-after-copy-edit)", other_p, rows1, ("a",), True, [int(v) for v in co["id"]], [int(v) for v in co["pid"]], co)
    ok, s2 = R.impl(what, sort_tree, obj)
    if ok:
        c2 = build.tree_cols(s2)
        # the edited table may have its root anywhere (redirect): judge against the edited relation, tags identify nodes
        judge(R, "sort-edit-sort", pe, rows_e, ("a",), True, [int(v) for v in c2["id"]], [int(v) for v in c2["pid"]], c2)
        R.outcome(tuple(int(v) for v in c2["pid"]))


def check_shared_columns(case, R):
    """Two column names bound to ONE array object (t.ndata['r_raw'] = t.r(), a habit when stashing the raw radii before editing),
    and a column that is a view of another: after sorting each column must still carry every node's own value."""
    from swcgeom.core import sort_tree

    p, kind = list(case[0]), case[1]
    n = len(p)
    R.state(p, kind)
    rows = attrs(n, True)
    t = build.make_tree(p, xyz=[(rows[i]["x"], rows[i]["y"], rows[i]["z"]) for i in range(n)], r=[rows[i]["r"] for i in range(n)],
                        types=[rows[i]["type"] for i in range(n)])
    if kind == "same-object":
        t.ndata["r_raw"] = t.ndata["r"]
    elif kind == "view":
        t.ndata["r_raw"] = t.ndata["r"][:]
    else:  # two columns carved out of one 2-d block
        block = np.zeros((2, n), dtype=np.float32)
        block[0], block[1] = t.ndata["r"], t.ndata["r"]
        t.ndata["r"], t.ndata["r_raw"] = block[0], block[1]
    rows2 = [dict(r_, r_raw=r_["r"]) for r_ in rows]
    ok, s1 = R.impl("sort_tree", sort_tree, t)
    if ok and R.check("r_raw" in s1.keys(), "columns-lost", f"sort_tree p={p}: {sorted(s1.keys())}", "shared-columns:columns"):
        c = build.tree_cols(s1)
        judge(R, f"sort_tree(columns sharing storage: {kind})", p, rows2, ("r_raw",), True, [int(v) for v in c["id"]], [int(v) for v in c["pid"]], c)
        R.outcome(kind, tuple(int(v) for v in c["pid"]))



def check_tree_ids(case, R):
    """The tree form with an ID COLUMN that is not the row position (rows in any order, ids 1-based / scattered / reversed, parents
    named by id): sort_tree must relabel it like any other numbering."""
    from swcgeom.core import Tree, sort_tree

    p, order, mapk = list(case[0]), list(case[1]), case[2]
    n = len(p)
    R.state(p, order, mapk)
    rows = attrs(n, True)
    idmap = id_map(mapk, n)
    trows = make_rows(p, order, idmap, rows, ("a",))
    col = lambda k, dt: np.array([d[k] for d in trows], dtype=dt)  # noqa: E731
    t = Tree(n, id=col("id", np.int32), pid=col("pid", np.int32), type=col("type", np.int32), x=col("x", np.float32), y=col("y", np.float32),
             z=col("z", np.float32), r=col("r", np.float32), a=col("a", np.float64))
    snap = build.snapshot(t)
    ok, s1 = R.impl("sort_tree", sort_tree, t, klass="raises:sort_tree:id-column-not-row-position")
    if not ok:
        return
    R.check(build.snapshot(t) == snap, "input-modified", f"sort_tree p={p} order={order} ids={mapk}", "sort_tree:input-modified")
    c = build.tree_cols(s1)
    if all(k in c for k in ("type", "x", "y", "z", "r", "a")):
        judge(R, "sort_tree(id column != row position)", p, rows, ("a",), True, [int(v) for v in c["id"]], [int(v) for v in c["pid"]], c)
        R.outcome(tuple(int(v) for v in c["pid"]))



def spaces(tier, seed):
    tree_hi = 6 if tier == "quick" else 7
    tab_full = 4 if tier == "quick" else 5
    tab_hi = 5 if tier == "quick" else 6

    def gen_tree():
        for n in range(1, tree_hi + 1):
            for p in S.labelled_trees(n):
                for ex in EXTRAS + (EXTRAS_TYPED + EXTRAS_ND if n <= tree_hi - 1 else EXTRAS_TYPED[-1:] + EXTRAS_ND[-1:]):
                    for tagged in (True, False):
                        yield (p, ex, tagged)

    def gen_table():
        for n in range(1, tab_hi + 1):
            for p in S.labelled_trees(n):
                slim = tier == "quick" and n > tab_full  # quick: the largest size only with the two non-monotone id maps and both extras
                for order in row_orders(n, n <= tab_full):
                    for mk in (("10i+3", "reversed") if slim else ID_MAPS):
                        for ex in ((("a", "b"),) if slim else EXTRAS):
                            yield (p, order, mk, ex, True)
                    yield (p, order, "10i+3", ("a",), False)
                    for ex in (EXTRAS_TYPED[-1:] if slim else EXTRAS_TYPED):
                        yield (p, order, "scattered", ex, True)

    h2 = 4 if tier == "quick" else 5
    h3 = 3  # triples over LT(3) in both tiers (LT(4) gave 76^3 = 439k triples: 25 minutes for little)

    def gen_hist():
        pool2 = [(f, p) for n in range(2, h2 + 1) for p in (S.labelled_trees(n) if n < h2 else S.sorted_trees(n)) for f in FORMS]
        for a in pool2:
            for b in pool2:
                yield (a, b)
        pool3 = [(f, p) for n in range(3, h3 + 1) for p in S.labelled_trees(n) for f in FORMS]
        for a in pool3:
            for b in pool3:
                for c in pool3:
                    yield (a, b, c)

    ses_hi = 5 if tier == "quick" else 6

    def gen_ses():
        for n in range(2, ses_hi + 1):
            for p in S.labelled_trees(n):
                for k in range(n):
                    yield (p, ("redirect", k))
                if n <= ses_hi - 1:
                    # edits are enumerated on the SORTED table (what the first sort returns); every pair is tried, inadmissible ones are trivial
                    for i in range(1, n):
                        for j in range(n):
                            for how in build.EDIT_HOWS:
                                yield (p, ("reparent", i, j, how))

    def gen_shared():
        for n in range(2, tree_hi + 1):
            for p in S.labelled_trees(n):
                for kind in ("same-object", "view", "one-block"):
                    yield (p, kind)

    return [
        Space.of("tree-form-id-column", lambda: ((p, order, mk) for n in range(1, tab_full + 1) for p in S.labelled_trees(n) for order in row_orders(n, True) for mk in ID_MAPS),
                 check_tree_ids, bounds={"LT_max_nodes": tab_full, "row_orders": "all", "id_maps": list(ID_MAPS)}),
        Space.of("sort-edit-sort", gen_ses, check_sort_edit_sort,
                 bounds={"LT_max_nodes": ses_hi, "edits": "re-rooting at every node without sorting; every single re-parenting of the sorted tree (node handle / column / on a copy)"}),
        Space.of("columns-sharing-storage", gen_shared, check_shared_columns, bounds={"LT_max_nodes": tree_hi, "kinds": ["same-object", "view", "one-block"]}),
        Space.of("sort-histories", gen_hist, check_history,
                 bounds={"sequences": f"all ordered pairs of (form, tree) over LT(2..{h2 - 1}) + ST({h2}) x {FORMS}; all ordered triples over LT(3..{h3})"}),
        Space.of("tree-form", gen_tree, check_tree_form, bounds={"LT_max_nodes": tree_hi, "extras": EXTRAS + EXTRAS_TYPED, "typed_columns": "big = int64 beyond 2^53, s = strings"}),
        Space.of("table-and-file-forms", gen_table, check_table_form,
                 bounds={"LT_max_nodes": tab_hi, "all_row_orders_up_to": tab_full, "id_maps": ID_MAPS, "extras": EXTRAS, "typed_extras (table forms, id map scattered)": EXTRAS_TYPED,
                         "largest_size_in_quick": "cyclic shifts + reversal x id maps {10i+3, reversed} x extras (a,b)"}),
    ]
