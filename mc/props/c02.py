"""C02 — SWC reading keeps every data row, in order, or fails loudly."""

from __future__ import annotations

import io
import itertools
import os
import shutil
import tempfile

from mc import build, ref, spaces as S, swcio
from mc.kernel import Space

PROPERTY = "C02"
RULE = (
    "grammar: every sequence of <= 4 line kinds {data, comment, blank} (120 skeletons) x id base {0,1,5} x line ending "
    "{LF, CRLF, LF without final newline}, canonical spelling read under 14 option sets (reset_index, extra_cols, encoding, "
    "source kind incl. short-read byte streams, Tree.from_swc); then lexical deviations counted per line: every data row "
    "replaced by every single-dimension spelling variant (leading blanks, separators, trailing fields, float spellings of "
    "each float field, leading zeros in integer fields), every comment/blank line by every variant; thorough adds the full "
    "product leading x separator x trailing x float spelling per row (skeletons <= 3 lines) and all pairs of single-dimension variants on two-row "
    "skeletons; encodings: documents with non-ASCII comments written in utf-8/latin-1/utf-16 and read with each encoding "
    "(expected = reference applied to bytes.decode(), or an error when undecodable); faults: every placement (insert "
    "before / replace, every line position) of k=1 fault from a 55-entry menu (short rows, non-numeric token at each of "
    "the 7 fields and as trailing field, bare words, undecodable bytes) in 6 base documents x 6 sources (StringIO, BytesIO, "
    "BytesIO with 1/2/7-byte reads, path) and 3 APIs (read_swc, Tree.from_swc, lazy Population; 10 source/API pairs), k=2 placements of a 8-entry "
    "menu on the documents with <= 5 lines (quick: <= 3), and a 6-entry menu at the listed positions (thorough: all) of a "
    "400-row document that spans two decode chunks; sizes: chain documents of EVERY size 1..450 (thorough 900), valid "
    "(must return exactly n rows through 4 sources) and with a fault at the first/middle/last/appended line; calls: every "
    "ordered pair (thorough: triple) of reads of 8 different documents (valid, warning, malformed, undecodable, comment-only) x "
    "sources incl. one file name rewritten between reads x 2 APIs, every returned object re-inspected after later reads; sort: every labelled tree LT(n) x every row order (n=5 quick: "
    "rotations + reversal; n=5 thorough: all 120 orders x 3 non-identity id maps) x 5 id maps, tagged and all-equal attributes, read with sort_nodes=True (read_swc, read_swc with "
    "an extra column, Tree.from_swc) and without. Oracle: an independent tokenizer (str.split + per-token regexes + int()/float()). "
    "Non-trivial = the document has at least one data row; distinct = distinct case tuple."
)
ASSUMPTIONS = [
    "a numeric token is [+-]?(digits[.digits]|.digits)([eE][+-]?digits)?; id/type are unsigned digit strings, pid an "
    "optionally negative digit string; nan/inf/hex/underscore spellings and signed ids are in neither the accepted nor the "
    "fault alphabet (DESIGN: debatable numeric status)",
    "a float spelling in an integer column ('1.5' as id/type/pid) is judged softly: raising is fine, returning the row is "
    "fine only if the returned value is numerically equal to the token",
    "trailing fields beyond the requested columns are numeric tokens without exponent in the accepted alphabet; trailing "
    "fault tokens contain a character that occurs in no numeric literal ('x', ',')",
    "documents have a single root that is the first data row except in the sort space; documents without any data row are "
    "not judged (empty table and error are both accepted)",
    "comments are compared after str.strip(); a comment starting with the column-header text is not in the alphabet",
    "line terminators are LF and CRLF only (lone CR splits lines for files but not for StringIO)",
    "values that reach a Tree are compared as float32(float(token)); read_swc tables as float(token), exactly",
    "the exception type and message are not asserted",
]

# ------------------------------------------------------------------ document model (generator side)

LEAD = ["", " ", "\t", "   "]
SEP = [" ", "\t", "  ", " \t "]
TRAIL = ["", " ", "\t", " 0 0", " 1.5 -2 3", " +1 .5"]
FSPELL = ["0", "1", "-1", "+1", "1.", "1.5", ".5", "-.5", "1e2", "1E-2", "1.5e+3", "007.50", "-0", "1.e1",
          "12345678901234567890", "0.00001"]
FSPELL_FEW = ["+1", "1.", ".5", "1E-2"]
COMMENTS = ["# c", "  #c", "#", "#  two  words ", "\t# t", "## x", "#1 1 0 0 0 1 -1"]
BLANKS = ["", "   ", "\t"]
EOLS = ["\n", "\r\n", "\n-nofinal"]
BASES = [0, 1, 5]
EXTRA_NAMES = ["a", "b"]

# option sets: (kind, api, reset_index, n_extra, encoding)
OPTS = [
    ("text", "read_swc", True, 0, "utf-8"),
    ("text", "read_swc", False, 0, "utf-8"),
    ("text", "read_swc", True, 1, "utf-8"),
    ("text", "read_swc", False, 2, "utf-8"),
    ("text", "read_swc", True, 2, "utf-8"),
    ("bytes", "read_swc", True, 0, "utf-8"),
    ("bytes", "read_swc", True, 1, "detect"),
    ("path", "read_swc", False, 0, "utf-8"),
    ("path", "read_swc", True, 2, "detect"),
    ("bytes:1", "read_swc", True, 0, "utf-8"),
    ("bytes:7", "read_swc", False, 1, "utf-8"),
    ("text", "from_swc", True, 0, "utf-8"),
    ("path", "from_swc", True, 1, "utf-8"),
    ("text", "read_swc[]", True, 0, "utf-8"),
    ("path-bytes", "read_swc", True, 0, "utf-8"),
    ("path-rel", "from_swc", True, 1, "utf-8"),
    ("fd", "read_swc", False, 2, "utf-8"),
]
OPT_DEFAULT, OPT_EXTRA1, OPT_EXTRA2, OPT_TREE = 0, 2, 4, 11


def row_values(j, base):
    """Canonical field spellings of data row j of a chain whose ids start at base (7 std + 2 extra fields)."""
    return [str(base + j), "1" if j == 0 else "3", f"{j}.5", str(-j), f"{0.25 * j}", f"{1 + 0.5 * j}",
            "-1" if j == 0 else str(base + j - 1), f"{7.5 + j}", str(2 * j)]


def build_line(spec, j, base, n_extra):
    """spec: ['d', lead, sep, trail, field, spelling] | ['c', i] | ['b', i]; j = index among data rows.

    A data row carries exactly the 7 + n_extra requested fields, then the trailing variant."""
    k = spec[0]
    if k == "c":
        return COMMENTS[int(spec[1])]
    if k == "b":
        return BLANKS[int(spec[1])]
    _, lead, sep, trail, field, spell = spec
    vals = row_values(j, base)
    if field is not None and int(field) >= 0:
        vals[int(field)] = spell
    vals = vals[: 7 + n_extra]
    return LEAD[int(lead)] + SEP[int(sep)].join(vals) + TRAIL[int(trail)]


def build_text(lines, base, eol, n_extra):
    out, j = [], 0
    for spec in lines:
        out.append(build_line(spec, j, base, n_extra))
        if spec[0] == "d":
            j += 1
    e = EOLS[int(eol)]
    if e.endswith("-nofinal"):
        return "\n".join(out)
    return "".join(x + e for x in out)


def canonical_line(kind, pos):
    if kind == "d":
        return ["d", 0, 0, 0, -1, ""]
    if kind == "c":
        return ["c", pos % 3]
    return ["b", pos % 3]


def single_dim_variants(n_extra_for_fields=2):
    """Data-row spelling variants that differ from the canonical one in exactly one dimension."""
    out = []
    for i in range(1, len(LEAD)):
        out.append(["d", i, 0, 0, -1, ""])
    for i in range(1, len(SEP)):
        out.append(["d", 0, i, 0, -1, ""])
    for i in range(1, len(TRAIL)):
        out.append(["d", 0, 0, i, -1, ""])
    for s in FSPELL:
        out.append(["d", 0, 0, 0, 2, s])
    for f in (3, 4, 5):
        for s in FSPELL_FEW:
            out.append(["d", 0, 0, 0, f, s])
    for f in (7, 8):  # extra columns (last requested column when extra_cols is given)
        for s in FSPELL_FEW + ["1e2", "-.5"]:
            out.append(["d", 0, 0, 0, f, s])
    for f in (0, 1, 6):  # leading zeros in integer fields; handled in build via marker
        out.append(["d", 0, 0, 0, f, "LZ"])
    return out


def apply_lz(lines, base):
    """Resolve the 'LZ' marker: prefix the canonical integer spelling with a zero (sign kept in front)."""
    out, j = [], 0
    for spec in lines:
        if spec[0] == "d":
            if spec[5] == "LZ":
                v = row_values(j, base)[int(spec[4])]
                v = ("-0" + v[1:]) if v.startswith("-") else ("0" + v)
                spec = spec[:5] + [v]
            j += 1
        out.append(spec)
    return out


# ------------------------------------------------------------------ reference


def reference(text, n_extra):
    """('ok', rows, comments, n_rows_with_trailing) | ('bad', line_no, why) from the independent tokenizer."""
    rows, comments, trailing = [], [], 0
    for ln, line in enumerate(swcio.split_lines(text)):
        c = swcio.classify_line(line, n_extra)
        if c[0] == "bad":
            return ("bad", ln, c[1])
        if c[0] == "comment":
            comments.append(c[1].strip())
        elif c[0] == "data":
            rows.append(c[1])
            trailing += 1 if c[2] else 0
    return ("ok", rows, comments, trailing)


def expected_table(rows, reset_index, n_extra):
    """The table the rows spell.  With reset_index the library re-bases the ids; the statement fixes the fields only up
    to that re-basing, so the expectation is marked and compare_table accepts ANY common integer offset applied to
    every id and every non-root parent id (root parents stay -1)."""
    cols = ["id", "type", "x", "y", "z", "r", "pid"] + EXTRA_NAMES[:n_extra]
    tab = {c: [r[k] for r in rows] for k, c in enumerate(cols)}
    if reset_index and rows:
        tab["__rebased__"] = True
    return tab


def observe_df(df, n_extra):
    cols = ["id", "type", "x", "y", "z", "r", "pid"] + EXTRA_NAMES[:n_extra]
    out = {}
    for c in cols:
        vals = df[c].tolist()
        out[c] = [v if isinstance(v, int) and not isinstance(v, bool) else (int(v) if c in ("id", "type", "pid") and float(v) == int(v) else float(v)) for v in vals]
    return out


def observe_tree(t):
    out = {}
    for c in ("id", "type", "pid"):
        out[c] = [int(v) for v in t.get_ndata(c).tolist()]
    for c in ("x", "y", "z", "r"):
        out[c] = [float(v) for v in t.get_ndata(c).tolist()]
    return out


def do_read(R, opt, data, tmp, attempt=False, extra_cols_as=None, **more):
    """Run one read under option set opt.  Returns (ok, result, warnings); result = (table dict, comments)."""
    from swcgeom.core import Population, Tree
    from swcgeom.core import swc_utils as su
    from swcgeom.core.population import LazyLoadingTrees

    kind, api, reset, n_extra, enc = opt
    src = swcio.make_source(kind, data, tmp)
    extra = EXTRA_NAMES[:n_extra] or None
    kw = dict(extra_cols=extra, reset_index=reset, encoding=enc, **more)
    if api == "read_swc[]":  # degenerate argument: an empty list of extra columns
        kw["extra_cols"] = []
    elif extra is None:
        del kw["extra_cols"]
    elif extra_cols_as is not None:
        kw["extra_cols"] = extra_cols_as(list(extra))

    def run():
        # every returned object is retained: its content must not change because of later reads (kernel re-inspects)
        if api.startswith("read_swc"):
            df, comments = su.read_swc(src, **kw)
            R.retain(f"{api}:{kind}", lambda: (observe_df(df, n_extra), list(comments)))
            return observe_df(df, n_extra), list(comments)
        if api == "from_swc":
            t = Tree.from_swc(src, **kw)
            R.retain(f"{api}:{kind}", lambda: (observe_tree(t), list(t.comments)))
            return observe_tree(t), list(t.comments)
        if api == "population":
            # two loaders over the same file, both alive: the tree handed out by the first is edited in place by its user before the
            # second loader is asked - the second read must still return the rows of the FILE
            t1 = Population(LazyLoadingTrees([src], **kw))[0]
            first = (observe_tree(t1), list(t1.comments))
            for c in ("x", "y", "z", "r"):
                t1.get_ndata(c)[...] += 1
            t1.get_ndata("type")[...] = 9
            t1.comments.append("edited by the user of the first population")
            t = Population(LazyLoadingTrees([src], **kw))[0]
            R.retain(f"{api}:{kind}", lambda: (observe_tree(t), list(t.comments)))
            second = (observe_tree(t), list(t.comments))
            R.note("population: second loader agrees with the first" if second == first else "population: second loader DIFFERS from the first")
            del t1
            return second
        raise ValueError(api)

    with swcio.caught_warnings() as w:
        if attempt:
            ok, res = R.attempt(run)
        else:
            ok, res = R.impl(f"{api}:{kind}", run)
    return ok, res, w.messages()


def compare_table(R, what, got, want, as_float32, ctx):
    ok = True
    want = dict(want)
    rebased = want.pop("__rebased__", False)
    n = len(want["id"])
    if not R.check(len(got["id"]) == n, "row-count", lambda: ctx() + f" rows={len(got['id'])} want {n}", f"{what}:row-count"):
        return False
    if rebased and n:
        off = want["id"][0] - got["id"][0]  # the offset the implementation chose (any integer is admissible)
        want["id"] = [v - off for v in want["id"]]
        want["pid"] = [-1 if v == -1 else v - off for v in want["pid"]]
    for c, wv in want.items():
        if c not in got:
            continue
        if as_float32 and c in ("x", "y", "z", "r"):
            wv = [swcio.f32(v) for v in wv]
        if got[c] != wv:
            ok = False
            R.fail("field", ctx() + f" column {c}: got {got[c][:12]} want {wv[:12]}", f"{what}:field:{c}")
    return ok


# ------------------------------------------------------------------ grammar space


def check_grammar(case, R):
    lines, base, eol, oi = case[0], int(case[1]), int(case[2]), int(case[3])
    lines = apply_lz([list(s) for s in lines], base)
    opt = OPTS[oi]
    kind, api, reset, n_extra, enc = opt
    text = build_text(lines, base, eol, n_extra)
    R.state(text, oi)
    want = reference(text, n_extra)
    assert want[0] == "ok", f"harness: generated document is not valid: {want} {text!r}"
    _, rows, comments, trailing = want
    n_data = sum(1 for s in lines if s[0] == "d")
    assert len(rows) == n_data
    ctx = lambda: f"text={text!r} opt={opt}"  # noqa: E731
    tmp = tempfile.mkdtemp(prefix="c02-") if kind.startswith("path") or kind == "fd" else None
    try:
        if n_data == 0:
            R.trivial()
            ok, res, _ = do_read(R, opt, text, tmp, attempt=True)
            R.skip("no-data-rows")
            if ok:
                R.check(len(res[0]["id"]) == 0, "row-count", lambda: ctx() + f" rows from nothing: {res[0]}", "grammar:rows-from-nothing")
                R.check([c.strip() for c in res[1]] == comments, "comments", lambda: ctx() + f" comments {res[1]!r} want {comments!r}",
                        "grammar:comments")
            R.outcome("empty", ok)
            return
        ok, res, warns = do_read(R, opt, text, tmp)
        if not ok:
            return
        got, got_comments = res
        compare_table(R, f"grammar:{api}", got, expected_table(rows, reset, n_extra), not api.startswith("read_swc"), ctx)
        R.check([c.strip() for c in got_comments] == comments, "comments",
                lambda: ctx() + f" comments {got_comments!r} want {comments!r}", f"grammar:{api}:comments")
        if trailing:
            R.check(len(warns) >= 1, "no-warning-for-ignored-fields", ctx, f"grammar:{api}:no-warning")
        R.outcome(got["id"], got["pid"], got["x"], tuple(got_comments), bool(warns))
        if n_extra > 0:
            # the requested extra columns handed over in other containers (tuple, one-shot generator, iterator): the same table
            for form, mk in (("tuple", tuple), ("generator", lambda names: (x for x in names)), ("iterator", iter)):
                ok2, res2, _ = do_read(R, opt, text, tmp, attempt=False, extra_cols_as=mk)
                if ok2:
                    R.check(res2[0] == got, "extra-columns-container", lambda: ctx() + f" extra_cols given as a {form}: {res2[0]} but as a list: {got}",
                            f"grammar:{api}:extra_cols-as-{form}")
    finally:
        if tmp:
            shutil.rmtree(tmp, ignore_errors=True)


def skeletons(max_len):
    for n in range(1, max_len + 1):
        for sk in itertools.product("dcb", repeat=n):
            yield sk


def gen_grammar(tier):
    quick = tier == "quick"
    variants = single_dim_variants()
    n_c, n_b = len(COMMENTS), len(BLANKS)
    for sk in skeletons(4):
        canon = [canonical_line(k, i) for i, k in enumerate(sk)]
        # (1) canonical spelling under every option set, every base and line ending
        for base in range(len(BASES)):
            for eol in range(len(EOLS)):
                for oi in range(len(OPTS)):
                    yield [canon, BASES[base], eol, oi]
        # (2) one deviating line (k = 1).  quick: 4-line skeletons only under the default option set with LF
        small = len(sk) <= 3 or not quick
        for li, k in enumerate(sk):
            if k == "d":
                for v in variants:
                    f = v[4]
                    if f == 7:
                        combos = [(OPT_EXTRA1, 0), (OPT_EXTRA2, 0)]
                    elif f == 8:
                        combos = [(OPT_EXTRA2, 0)]
                    elif small:
                        combos = [(OPT_DEFAULT, 0), (OPT_DEFAULT, 1), (OPT_EXTRA1, 0), (OPT_TREE, 0)]
                    else:
                        combos = [(OPT_DEFAULT, 0)]
                    for oi, eol in combos:
                        doc = list(canon)
                        doc[li] = v
                        yield [doc, 1, eol, oi]
            else:
                for vi in range(n_c if k == "c" else n_b):
                    if [k, vi] == canon[li]:
                        continue
                    doc = list(canon)
                    doc[li] = [k, vi]
                    for eol in (range(len(EOLS)) if small else (0,)):
                        yield [doc, 1, eol, OPT_DEFAULT]
        if quick:
            continue
        # (3) thorough: full product of spelling dimensions on one row (skeletons of <= 3 lines)
        for li, k in enumerate(sk):
            if k != "d" or len(sk) > 3:
                continue
            for a in range(len(LEAD)):
                for b in range(len(SEP)):
                    for c in range(len(TRAIL)):
                        for s in FSPELL:
                            doc = list(canon)
                            doc[li] = ["d", a, b, c, 2, s]
                            yield [doc, 1, 0, OPT_DEFAULT]
        # (4) thorough: two deviating rows (k = 2) on skeletons with exactly two data rows
        ds = [i for i, k in enumerate(sk) if k == "d"]
        if len(ds) == 2:
            for v1 in variants:
                for v2 in variants:
                    if v1[4] in (7, 8) or v2[4] in (7, 8):
                        oi = OPT_EXTRA2
                    else:
                        oi = OPT_DEFAULT
                    doc = list(canon)
                    doc[ds[0]], doc[ds[1]] = v1, v2
                    yield [doc, 1, 0, oi]


# ------------------------------------------------------------------ encodings space

ENC_DOCS = [
    "# café µm\n1 1 0 0 0 1 -1\n2 3 1.5 0 0 1 1\n",
    "1 1 0 0 0 1 -1\n# é\n\n2 3 1 0 0 1 1\n# end ü\n",
    "# ascii only\n1 1 0 0 0 1 -1\n",
]
ENCODINGS = ["utf-8", "latin-1", "utf-16", "cp1252"]


def check_encoding(case, R):
    di, wenc, renc, kind, api = int(case[0]), case[1], case[2], case[3], case[4]
    text = ENC_DOCS[di]
    raw = text.encode(wenc)
    R.state(di, wenc, renc, kind, api)
    try:
        decoded = raw.decode(renc)
        want = reference(decoded.replace("\r\n", "\n"), 0)
        if any((ch.isspace() and ch not in " \t\n") or ch in "\x1c\x1d\x1e\x85\u2028\u2029" for ch in decoded.replace("\r\n", "\n")):
            R.skip("decoded-text-has-non-ascii-whitespace-or-lone-CR")
            return
    except UnicodeDecodeError:
        want = ("undecodable",)
    opt = (kind, api, True, 0, renc)
    ctx = lambda: f"bytes={raw[:80]!r} written as {wenc} read as {renc} via {kind}/{api}"  # noqa: E731
    tmp = tempfile.mkdtemp(prefix="c02-") if kind == "path" else None
    try:
        ok, res, _ = do_read(R, opt, raw, tmp, attempt=True)
        if want[0] != "ok":
            R.check(not ok, "accepted-undecodable-or-malformed", lambda: ctx() + f" reference says {want}; returned {res}",
                    f"encodings:accepted:{want[0]}:{api}")
            R.outcome("raises", want[0])
            return
        if not R.check(ok, "raises-on-valid", lambda: ctx() + f" raised {res!r}", f"encodings:raises:{api}"):
            return
        got, got_comments = res
        compare_table(R, f"encodings:{api}", got, expected_table(want[1], True, 0), not api.startswith("read_swc"), ctx)
        R.check([c.strip() for c in got_comments] == want[2], "comments", lambda: ctx() + f" comments {got_comments!r} want {want[2]!r}",
                f"encodings:{api}:comments")
        R.outcome(tuple(got_comments))
    finally:
        if tmp:
            shutil.rmtree(tmp, ignore_errors=True)


DETECT_OFFSETS = [0, 100, 10_000, 65_000, 100_000, 199_000, 199_990, 200_010, 201_000, 262_144, 300_000, 1_000_000]


def _detect_doc(offset):
    """Valid UTF-8 SWC text (a chain) whose first non-ASCII byte lies `offset` bytes into the file (0: in the first line), followed by
    more rows and a second non-ASCII comment at the very end."""
    lines, size, i = [], 0, 1
    if offset == 0:
        lines.append("# caf\u00e9 first")
    while size < offset:
        ln = f"{i} {1 if i == 1 else 3} {i}.5 0 0 1 {i - 1 if i > 1 else -1}"
        lines.append(ln)
        size += len(ln) + 1
        i += 1
    lines.append("# caf\u00e9 \u00b5m here")
    for _ in range(3):
        lines.append(f"{i} {1 if i == 1 else 3} {i}.5 0 0 1 {i - 1 if i > 1 else -1}")
        i += 1
    lines.append("# end \u00fc")
    return "\n".join(lines) + "\n", i - 1


def check_detect(case, R):
    """encoding='detect' on valid UTF-8 text of every size: the option must not turn a readable file into an error, and must not
    lose or alter a data row, wherever in the file the first non-ASCII byte happens to be (detectors look at a prefix only)."""
    offset, kind, api = int(case[0]), case[1], case[2]
    R.state(case)
    text, n_rows = _detect_doc(offset)
    raw = text.encode("utf-8")
    want = reference(text, 0)
    assert want[0] == "ok" and len(want[1]) == n_rows, "harness: detect document is not valid"
    opt = (kind, api, True, 0, "detect")
    ctx = lambda: f"{len(raw)} bytes of valid utf-8, first non-ASCII byte at offset ~{offset}, read with encoding='detect' via {kind}/{api}"  # noqa: E731
    tmp = tempfile.mkdtemp(prefix="c02-") if kind == "path" else None
    try:
        ok, res, _ = do_read(R, opt, raw, tmp, attempt=True)
        if not R.check(ok, "raises-on-valid", lambda: ctx() + f" raised {res!r}", f"detect:raises:{'late' if offset >= 150_000 else 'early'}-non-ascii:{api}"):
            return
        got, got_comments = res
        compare_table(R, f"detect:{api}", got, expected_table(want[1], True, 0), not api.startswith("read_swc"), ctx)
        # the TEXT of a comment depends on the detector's guess (a heuristic); their number and order do not
        R.check(len(got_comments) == len(want[2]), "comments", lambda: ctx() + f" {len(got_comments)} comments want {len(want[2])}", f"detect:{api}:comment-count")
        R.outcome(offset >= 150_000, len(got_comments))
    finally:
        if tmp:
            shutil.rmtree(tmp, ignore_errors=True)


def gen_encodings():
    for di in range(len(ENC_DOCS)):
        for wenc in ENCODINGS:
            for renc in ENCODINGS:
                for kind, api in (("bytes", "read_swc"), ("bytes:2", "read_swc"), ("path", "read_swc"), ("path", "from_swc"),
                                  ("bytes", "from_swc"), ("path", "population")):
                    yield [di, wenc, renc, kind, api]


# ------------------------------------------------------------------ faults space

FAULT_ROW = ["2", "3", "1.5", "0", "0", "1", "1"]
# "1_0": a digit-group separator is not part of any numeric text format (only of Python source, i.e. of int()/float()); "1 0" would be
# one field more. nan / inf / 0x10 stay outside (numeric status debatable, see DESIGN C02)
TOKENS = ["x", "abc", "1,5", "--1", "1e", "1-2", "1_0"]


def _menu():
    m = [("short:6", b"2 3 1 0 0 1", None), ("short:5", b"2 3 1 0 0", None), ("short:1", b"7", None),
         ("short:6+tab", b"2\t3 1 0 0 1 ", None), ("bare:words", b"hello world", None), ("bare:n/a", b"n/a", None)]
    for pos in range(7):
        for tk in TOKENS:
            f = list(FAULT_ROW)
            f[pos] = tk
            m.append((f"token@{pos}:{tk}", " ".join(f).encode(), None))
    for tk in ("x", "1,5"):
        m.append((f"trailing:{tk}", (" ".join(FAULT_ROW) + " 0 " + tk).encode(), None))
    m.append(("undecodable:line", b"\xff\xfe", None))
    m.append(("undecodable:comment", b"# caf\xe9 \xff", None))
    for pos in (0, 1, 6):  # soft: float spelling in an integer column
        f = list(FAULT_ROW)
        f[pos] = "1.5"
        m.append((f"soft@{pos}:1.5", " ".join(f).encode(), (pos, 1.5)))
    return m


MENU = _menu()
MENU_IDX = {m[0]: i for i, m in enumerate(MENU)}
MENU_K2 = ["short:6", "short:1", "token@0:x", "token@6:x", "token@6:1,5", "token@3:abc", "bare:words", "undecodable:line"]
MENU_LONG = ["short:6", "token@5:x", "token@6:1,5", "bare:words", "undecodable:line", "undecodable:comment"]

SRC_APIS = [("text", "read_swc"), ("text", "from_swc"), ("bytes", "read_swc"), ("bytes", "from_swc"), ("bytes:1", "read_swc"),
            ("bytes:2", "read_swc"), ("bytes:7", "from_swc"), ("path", "read_swc"), ("path", "from_swc"), ("path", "population"),
            ("path-bytes", "from_swc"), ("path-rel", "read_swc")]
SRC_APIS_K2 = [("text", "read_swc"), ("bytes", "from_swc"), ("path", "population")]
SRC_APIS_LONG = [("text", "read_swc"), ("bytes", "read_swc"), ("bytes:1", "read_swc"), ("bytes:7", "from_swc"),
                 ("bytes:8192", "read_swc"), ("path", "read_swc"), ("path", "population")]


def chain_rows(n, base=1):
    return [f"{base + i} {1 if i == 0 else 3} {i}.5 0 0 1 {base + i - 1 if i else -1}".encode() for i in range(n)]


def base_doc(name):
    if name.startswith("rows"):
        return chain_rows(int(name[4:]))
    if name == "mixed":
        r = chain_rows(3)
        return [b"# header comment", r[0], b"", r[1], b"  # mid", r[2]]
    raise ValueError(name)


BASE_DOCS = ["rows1", "rows2", "rows3", "rows5", "rows8", "mixed"]
LONG_ROWS = 400


def slots(n_lines):
    """All fault positions: ('i', p) insert before line p (p = n_lines appends), ('r', p) replace line p."""
    return [("i", p) for p in range(n_lines + 1)] + [("r", p) for p in range(n_lines)]


def apply_faults(lines, placement):
    """placement: [[mode, pos, menu_index], ...] with distinct slots.  Returns (lines, [(line_no_of_fault, menu entry)])."""
    out = [(ln, None) for ln in lines]
    for mode, pos, fi in placement:
        if mode == "r":
            out[int(pos)] = (MENU[int(fi)][1], int(fi))
    ins = sorted(((int(pos), int(fi)) for mode, pos, fi in placement if mode == "i"), reverse=True)
    for pos, fi in ins:
        out.insert(pos, (MENU[fi][1], fi))
    return [b for b, _ in out], [(k, fi) for k, (_, fi) in enumerate(out) if fi is not None]


def check_fault(case, R):
    docname, placement, srcs = case[0], case[1], case[2]
    lines = chain_rows(int(docname[4:])) if docname.startswith("rows") else base_doc(docname)
    new_lines, where = apply_faults(lines, placement)
    raw = b"\n".join(new_lines) + b"\n"
    names = [MENU[fi][0] for _, fi in where]
    R.state(docname, placement)
    undecodable = any(n.startswith("undecodable") for n in names)
    soft = [MENU[fi][2] for _, fi in where if MENU[fi][2] is not None]
    is_soft = len(where) == 1 and len(soft) == 1
    # harness sanity: the reference must agree the document is malformed
    if not undecodable:
        want = reference(raw.decode("utf-8"), 0)
        assert want[0] == "bad", f"harness: faulted document judged valid by the reference: {raw!r}"
    n_lines_data_like = sum(1 for ln in new_lines if ln.strip() and not ln.strip().startswith(b"#"))
    tmp = tempfile.mkdtemp(prefix="c02-")
    try:
        for kind, api in srcs:
            if undecodable and kind == "text":
                continue
            data = raw if kind != "text" else raw.decode("utf-8")
            opt = (kind, api, not is_soft, 0, "utf-8")
            ok, res, _ = do_read(R, opt, data, tmp, attempt=True)
            R.outcome(names, kind, api, ok)
            if not ok:
                continue
            got = res[0]
            n_got = len(got["id"])
            if is_soft:
                # a float spelling in an int column (read with reset_index=False, so values are raw): returning is
                # fine only with every row present and a value numerically equal to the token
                (line_no, fi), (col, val) = where[0], soft[0]
                row_no = sum(1 for ln in new_lines[:line_no] if ln.strip() and not ln.strip().startswith(b"#"))
                colname = ["id", "type", "x", "y", "z", "r", "pid"][col]
                good = n_got == n_lines_data_like and float(got[colname][row_no]) == val
                R.check(good, "field-not-equal-to-token",
                        lambda: f"doc={raw!r} via {kind}/{api}: token {val} in column {colname} returned as {got[colname]} ({n_got} rows)",
                        f"fault-accepted:{names[0]}")
                continue
            trunc = n_got < n_lines_data_like
            klass = f"fault-truncated:{api}" if trunc else "fault-accepted-as-row:" + "+".join(sorted(set(names)))
            R.fail("accepted-malformed", f"doc={raw[:300]!r} ({len(new_lines)} lines) faults={names} at lines {[k for k, _ in where]} via "
                   f"{kind}/{api}: returned a table with {n_got} rows instead of raising", klass)
    finally:
        shutil.rmtree(tmp, ignore_errors=True)


def gen_faults(tier):
    quick = tier == "quick"
    full = list(range(len(MENU)))
    for name in BASE_DOCS:
        n = len(base_doc(name))
        for mode, pos in slots(n):
            for fi in full:
                yield [name, [[mode, pos, fi]], SRC_APIS]
    k2 = [MENU_IDX[x] for x in (MENU_K2[:5] if quick else MENU_K2)]
    for name in (("rows2", "rows3") if quick else ("rows2", "rows3", "rows5", "mixed")):
        n = len(base_doc(name))
        for s1, s2 in itertools.combinations(slots(n), 2):
            for f1 in k2:
                for f2 in k2:
                    yield [name, [[s1[0], s1[1], f1], [s2[0], s2[1], f2]], SRC_APIS_K2]


def long_positions(tier):
    rows = chain_rows(LONG_ROWS)
    if tier != "quick":
        return list(range(LONG_ROWS + 1))
    acc, boundary = 0, 0
    for k, r in enumerate(rows):
        acc += len(r) + 1
        if acc >= 8192:
            boundary = k
            break
    pos = set(range(0, LONG_ROWS + 1, 25)) | {1, 2, LONG_ROWS - 1, LONG_ROWS} | set(range(boundary - 2, boundary + 3))
    return sorted(pos)


def gen_long(tier):
    for pos in long_positions(tier):
        for mode in ("i", "r"):
            if mode == "r" and pos >= LONG_ROWS:
                continue
            for nm in MENU_LONG:
                yield [f"rows{LONG_ROWS}", [[mode, pos, MENU_IDX[nm]]], SRC_APIS_LONG]


# ------------------------------------------------------------------ size sweep (every document size)

SIZE_FAULTS = ["short:6", "undecodable:line"]
SIZE_POS = ["first", "mid", "last", "append"]


def check_size(case, R):
    """case = [n, 'valid'] | [n, fault_name, where].  Documents of EVERY size 1..N: a valid one must come back with
    exactly n rows whatever the size (chunk / buffer thresholds), a faulted one must raise wherever the fault sits."""
    n = int(case[0])
    rows = chain_rows(n)
    R.state(case)
    tmp = tempfile.mkdtemp(prefix="c02-")
    try:
        if case[1] == "valid":
            raw = b"\n".join(rows) + b"\n"
            text = raw.decode()
            want = reference(text, 0)
            assert want[0] == "ok" and len(want[1]) == n
            for kind, api in (("text", "read_swc"), ("bytes", "from_swc"), ("bytes:7", "read_swc"), ("path", "read_swc")):
                ok, res, _ = do_read(R, (kind, api, True, 0, "utf-8"), text if kind == "text" else raw, tmp)
                if ok:
                    compare_table(R, f"sizes:{api}", res[0], expected_table(want[1], True, 0), api != "read_swc",
                                  lambda: f"valid chain document of {n} rows via {kind}/{api}")
            R.outcome("valid", n)
            return
        fname, where = case[1], case[2]
        pos = {"first": 0, "mid": n // 2, "last": n - 1, "append": n}[where]
        lines = list(rows)
        if where == "append":
            lines.append(MENU[MENU_IDX[fname]][1])
        else:
            lines[pos] = MENU[MENU_IDX[fname]][1]
        raw = b"\n".join(lines) + b"\n"
        for kind, api in (("text", "read_swc"), ("bytes", "read_swc"), ("path", "from_swc")):
            if fname.startswith("undecodable") and kind == "text":
                continue
            ok, res, _ = do_read(R, (kind, api, True, 0, "utf-8"), raw if kind != "text" else raw.decode(), tmp, attempt=True)
            if ok:
                n_got = len(res[0]["id"])
                R.fail("accepted-malformed", f"{n}-row chain document with fault {fname} at line {pos} via {kind}/{api}: returned {n_got} rows",
                       f"fault-truncated:{api}" if n_got < len(lines) else f"fault-accepted-as-row:{fname}")
        R.outcome(fname, where)
    finally:
        shutil.rmtree(tmp, ignore_errors=True)


def gen_sizes(tier):
    hi = 450 if tier == "quick" else 900
    for n in range(1, hi + 1):
        yield [n, "valid"]
        for f in SIZE_FAULTS:
            for w in SIZE_POS:
                if n == 1 and w in ("mid", "last"):
                    continue
                yield [n, f, w]


# ------------------------------------------------------------------ call histories (state that survives between reads)

CALL_DOCS = [
    b"# a\n1 1 0 0 0 1 -1\n2 3 1 0 0 1 1\n",
    b"# g\n1 1 9 9 9 9 -1\n2 3 8 8 8 8 1\n",                       # same shape as the first, other values
    b"1 1 0.5 0 0 1 -1 9 9\n# b1\n2 3 1 0 0 1 1 9 9\n3 3 2 0 0 1 2 9 9\n# b2\n",  # trailing fields: must warn
    b"5 1 0 0 0 2 -1 4\n",                                                  # trailing fields again: must warn again
    b"7 1 3 3 3 1 -1\n",
    b"1 1 0 0 0 1 -1\n2 3 1 0 0 x 1\n3 3 2 0 0 1 2\n",                 # malformed in the middle
    b"1 1 0 0 0 1 -1\n\xff\xfe\n",                                       # undecodable (text sources: mojibake line, also malformed)
    b"# only a comment\n",
]
CALL_KINDS = ("text", "bytes", "path-same")
CALL_APIS = ("read_swc", "from_swc")


def check_calls(case, R):
    """A sequence of reads of different documents (valid, malformed, empty) in one process; every valid result is judged
    when returned and re-judged after the later reads; 'path-same' rewrites ONE file name with each document."""
    seq = [(int(d), k, a) for d, k, a in case]
    R.state(seq)
    tmp = tempfile.mkdtemp(prefix="c02-")
    try:
        for di, kind, api in seq:
            raw = CALL_DOCS[di]
            try:
                text = raw.decode("utf-8")
            except UnicodeDecodeError:
                text = raw.decode("latin-1")  # a text stream cannot be undecodable; the line is still malformed
            want = reference(text, 0)
            data = text if kind == "text" else raw
            k2 = "path" if kind == "path-same" else kind
            opt = (k2, api, True, 0, "utf-8")
            ctx = lambda: f"sequence={seq} at doc {di} {raw!r} via {kind}/{api}"  # noqa: E731
            if want[0] == "bad" or not want[1]:
                ok, res, _ = do_read(R, opt, data, tmp, attempt=True)
                if want[0] == "bad":
                    R.check(not ok, "accepted-malformed", lambda: ctx() + f" returned {res}", f"calls:accepted-malformed:{api}")
                elif ok:
                    R.check(len(res[0]["id"]) == 0, "row-count", lambda: ctx() + f" rows from nothing {res}", "calls:rows-from-nothing")
                continue
            ok, res, warns = do_read(R, opt, data, tmp)  # the returned object is retained and re-inspected after the later reads
            if not ok:
                continue
            want_tab = expected_table(want[1], True, 0)
            compare_table(R, f"calls:{api}", res[0], want_tab, api != "read_swc", ctx)
            R.check([c.strip() for c in res[1]] == want[2], "comments", lambda: ctx() + f" comments {res[1]!r} want {want[2]!r}",
                    f"calls:{api}:comments")
            if want[3]:
                R.check(len(warns) >= 1, "no-warning-for-ignored-fields", ctx, f"calls:{api}:no-warning")
            R.outcome(di, kind, api, res[0]["x"], tuple(res[1]), bool(warns))
    finally:
        shutil.rmtree(tmp, ignore_errors=True)


def gen_calls(tier):
    elems = [(d, k, a) for d in range(len(CALL_DOCS)) for k in CALL_KINDS for a in CALL_APIS]
    for pair in itertools.product(elems, repeat=2):
        yield [list(e) for e in pair]
    if tier != "quick":
        few = [(d, k, "read_swc") for d in range(len(CALL_DOCS)) for k in ("text", "path-same")]
        for tri in itertools.product(few, repeat=3):
            yield [list(e) for e in tri]


# ------------------------------------------------------------------ sort space

ID_MAPS = ("ident", "plus1", "10i+3", "reversed", "scattered", "huge53", "huge62")
SCATTER = [7, 2, 9, 4, 11, 5, 13, 1]


def id_map(kind, n):
    if kind == "ident":
        return list(range(n))
    if kind == "plus1":
        return [i + 1 for i in range(n)]
    if kind == "10i+3":
        return [10 * i + 3 for i in range(n)]
    if kind == "reversed":
        return [n - 1 - i for i in range(n)]
    if kind == "huge53":  # odd integers just above 2^53: distinct as integers, not representable as doubles
        return [2**53 + 1 + 2 * (n - 1 - i) for i in range(n)]
    if kind == "huge62":  # 64-bit identifiers, neighbours that collapse when rounded to a double
        return [2**62 + 1 + 3 * i for i in range(n)]
    return SCATTER[:n]


def check_sort(case, R):
    p, order, mk = list(case[0]), list(case[1]), case[2]
    n = len(p)
    m = id_map(mk, n)
    R.state(p, order, mk)
    if n < 2:
        R.trivial()
    for tagged in (True, False):
        rows = []
        for i in range(n):
            if tagged:
                vals = (1 + (2 * i) % 5, 100.0 + i, 0.5 * i, -0.25 * i, 0.25 + i)
            else:
                vals = (3, 1.0, 2.0, 3.0, 0.5)
            rows.append((m[i], vals[0], vals[1], vals[2], vals[3], vals[4], -1 if p[i] == -1 else m[p[i]]))
        frows = [rows[i] for i in order]
        text = "".join(" ".join(repr(v) if isinstance(v, float) else str(v) for v in r) + "\n" for r in frows)
        ctx = lambda: f"p={p} order={order} ids={m} tagged={tagged} text={text!r}"  # noqa: E731

        # ---- without sorting: one row per line, in file order
        if tagged:
            for reset in (True, False):
                opt = ("text", "read_swc", reset, 0, "utf-8")
                ok, res, _ = do_read(R, opt, text, None)
                if ok:
                    want = expected_table([list(r) for r in frows], reset, 0)
                    compare_table(R, f"sort:unsorted-read:reset={reset}", res[0], want, False, ctx)

        # ---- with sorting (tagged: also with one extra column, whose values must travel with their rows)
        for api in ("read_swc", "from_swc") + (("read_swc+extra",) if tagged else ()):
            if api == "read_swc+extra":
                etext = "".join(" ".join(repr(v) if isinstance(v, float) else str(v) for v in r) + f" {7.5 + r[2]}\n" for r in frows)
                ok, res, _ = do_read(R, ("text", "read_swc", True, 1, "utf-8"), etext, None, sort_nodes=True)
                if ok and len(res[0]["a"]) == n:
                    R.check(res[0]["a"] == [7.5 + v for v in res[0]["x"]], "field",
                            lambda: ctx() + f" extra column a={res[0]['a']} x={res[0]['x']}", "sort:read_swc:field:extra")
            else:
                opt = ("text", api, True, 0, "utf-8")
                ok, res, _ = do_read(R, opt, text, None, sort_nodes=True)
            if not ok:
                continue
            got = res[0]
            what = f"sort:{api.split('+')[0]}"
            if not R.check(len(got["id"]) == n, "row-count", lambda: ctx() + f" rows={len(got['id'])}", f"{what}:row-count"):
                continue
            good = got["id"] == list(range(n)) and got["pid"][0] == -1 and all(0 <= got["pid"][j] < j for j in range(1, n))
            if not R.check(good, "not-sorted", lambda: ctx() + f" ids={got['id']} pids={got['pid']}", f"{what}:order"):
                continue
            if tagged:
                tag2orig = {100.0 + i: i for i in range(n)}
                orig = [tag2orig.get(v) for v in got["x"]]
                if not R.check(sorted(o for o in orig if o is not None) == list(range(n)), "not-a-bijection",
                               lambda: ctx() + f" x={got['x']}", f"{what}:bijection"):
                    continue
                okk = True
                for j in range(n):
                    o = orig[j]
                    wantp = p[o]
                    gotp = -1 if got["pid"][j] == -1 else orig[got["pid"][j]]
                    if gotp != wantp:
                        okk = False
                        R.fail("parent", ctx() + f" node tag {100.0 + o}: parent {gotp} want {wantp}", f"{what}:parent")
                        break
                    w = rows[o]
                    g = (got["type"][j], got["x"][j], got["y"][j], got["z"][j], got["r"][j])
                    if g != tuple(w[1:6]):
                        okk = False
                        R.fail("field", ctx() + f" node tag {100.0 + o}: fields {g} want {w[1:6]}", f"{what}:field")
                        break
                if okk:
                    R.outcome(got["pid"])
            else:
                R.check(ref.ahu(got["pid"]) == ref.ahu(p), "not-isomorphic", lambda: ctx() + f" pids={got['pid']}", f"{what}:iso")
                cols_ok = all(got[c] == [v] * n for c, v in (("type", 3), ("x", 1.0), ("y", 2.0), ("z", 3.0), ("r", 0.5)))
                R.check(cols_ok, "field", ctx, f"{what}:field")


def gen_sort(tier):
    quick = tier == "quick"
    for n in range(1, 6):
        for p in S.labelled_trees(n):
            if n <= 4 or not quick:
                orders = itertools.permutations(range(n))
            else:
                orders = [tuple((i + s) % n for i in range(n)) for s in range(n)] + [tuple(reversed(range(n)))]
            maps = ID_MAPS if (n <= 4 or quick) else ("plus1", "10i+3", "scattered", "huge53")
            for order in orders:
                for mk in maps:
                    yield [list(p), list(order), mk]


# ------------------------------------------------------------------ spaces


def spaces(tier, seed):
    quick = tier == "quick"
    return [
        Space.of("grammar", lambda: gen_grammar(tier), check_grammar,
                 bounds={"max_lines": 4, "line_kinds": ["data", "comment", "blank"], "id_bases": BASES, "eols": EOLS, "option_sets": [list(o) for o in OPTS],
                         "lexical_deviations": "k=1 line, single-dimension variants (4-line skeletons: default options, LF only)" if quick else ("k=1 line, single-dimension variants" +
                                                                                        "; k=1 row full product lead x sep x trail x float spelling on skeletons <= 3 lines; k=2 rows single-dimension pairs"),
                         "lead": LEAD, "sep": SEP, "trail": TRAIL, "float_spellings": FSPELL, "comments": COMMENTS, "blanks": BLANKS}),
        Space.of("encodings", gen_encodings, check_encoding, bounds={"docs": len(ENC_DOCS), "encodings": ENCODINGS}),
        Space.of("detect-encoding", lambda: ([o, k, a] for o in (DETECT_OFFSETS if tier != "quick" else DETECT_OFFSETS[:-1])
                                             for k, a in (("path", "read_swc"), ("bytes", "read_swc"), ("path", "from_swc"), ("path", "population"))), check_detect,
                 bounds={"first_non_ascii_byte_at": DETECT_OFFSETS if tier != "quick" else DETECT_OFFSETS[:-1], "sources": ["path", "bytes"], "encoding": "detect",
                         "note": "valid UTF-8 only; comment TEXT under a guessed encoding is not asserted"}, case_timeout=600.0),
        Space.of("faults", lambda: gen_faults(tier), check_fault,
                 bounds={"base_docs": BASE_DOCS, "menu": [m[0] for m in MENU], "k1": "every slot x whole menu x " + str(SRC_APIS),
                         "k2_docs": ["rows2", "rows3"] if quick else ["rows2", "rows3", "rows5", "mixed"],
                         "k2_menu": MENU_K2[:5] if quick else MENU_K2, "k2_sources": SRC_APIS_K2}),
        Space.of("faults-long", lambda: gen_long(tier), check_fault,
                 bounds={"rows": LONG_ROWS, "positions": long_positions(tier) if quick else "all 401", "modes": ["insert", "replace"],
                         "menu": MENU_LONG, "sources": SRC_APIS_LONG}),
        Space.of("sizes", lambda: gen_sizes(tier), check_size,
                 bounds={"rows": [1, 450 if quick else 900], "every_size": True, "valid_sources": ["text", "bytes", "bytes:7", "path"],
                         "faults": SIZE_FAULTS, "fault_positions": SIZE_POS, "fault_sources": ["text", "bytes", "path"]}),
        Space.of("calls", lambda: gen_calls(tier), check_calls,
                 bounds={"docs": len(CALL_DOCS), "kinds": list(CALL_KINDS), "apis": list(CALL_APIS),
                         "sequences": "all ordered pairs" + ("" if quick else "; all ordered triples over read_swc x {text, path-same}")}),
        Space.of("sort", lambda: gen_sort(tier), check_sort,
                 bounds={"LT_max_nodes": 5, "row_orders": "all n! for n<=4; n=5: " + ("5 rotations + reversal" if quick else "all 120"),
                         "id_maps": list(ID_MAPS), "id_maps_n5_all_orders": None if quick else ["plus1", "10i+3", "scattered"], "attributes": ["tagged", "all-equal"]}),
    ]
