"""C03 — every tree operation returns a well-formed tree and leaves its inputs untouched.

Explicit-state search over *programs*: a state is a real swcgeom Tree (canonical key = its complete
observable content), a transition applies one real tree-to-tree operation to it.  The search is
sharded by (initial tree, first operation); from there `kernel.bfs` closes over the reachable states
up to the depth bound.  On every transition the invariants of the statement are evaluated:

  1. the result is well-formed (ids = positions, node 0 the only root, parents exist, all reach the
     root); sorted where the operation documents it (sort_tree, redirect_tree(sort=True));
     redirect_tree(sort=False): single root at the requested position, ids = positions;
  2. every input object (tree, second tree, removal list, transform instance fields) is unchanged;
  3. result and inputs are behaviourally independent (in-place edit of one never shows in the other);
  4. applying the same operation instance a second time to the same state gives an equal result
     (no state leaks through transform instances), and Transforms(a, b)(x) == b(a(x)).
"""

from __future__ import annotations

import io
import json
import math

import numpy as np

from mc import build, kernel, ref, spaces as S
from mc.kernel import Space

PROPERTY = "C03"
RULE = (
    "case = (initial tree, first operation, menu, depth); initial trees: all sorted trees ST(n) n<=4 (thorough: plus picked "
    "5-6 node shapes incl. an unsorted-but-well-formed numbering), tagged generic geometry with the root away from the "
    "origin, types from {1,2,3}, one extra column, one comment; from each, BFS over the real operations (exact canonical "
    "state = all columns + comments) up to the depth bound; non-trivial = the first operation was applicable; distinct = "
    "distinct (tree, first operation, menu)"
)
ASSUMPTIONS = [
    "states whose coordinates became non-finite (Normalizer on a degenerate extent) or that exceed 12 nodes are checked but not expanded (counted)",
    "operations whose rule keeps no node (e.g. CutByType for an absent type) are inadmissible and not events",
    "a redirect_tree(sort=False) result (root away from position 0, as the statement allows) is expanded only by sort_tree",
    "sortedness is asserted only where the operation documents it: sort_tree, redirect_tree(sort=True)",
]

MAX_EXPAND_NODES = 12
OFFSET = (5.0, -3.0, 2.0)

# ----------------------------------------------------------------------------- initial trees

PICKED = [
    (-1, 0, 0, 0, 0),  # star
    (-1, 0, 1, 2, 3),  # chain
    (-1, 0, 1, 1, 0, 4),  # caterpillar
    (-1, 0, 0, 1, 1, 2),  # binary
    (-1, 0, 1, 1, 2, 2),  # root with one child
    (-1, 2, 0, 2, 1),  # unsorted but well-formed
]


def _types(n):
    return [1] + [2 if i % 2 else 3 for i in range(1, n)]


def initial_tree(p, bank_k):
    n = len(p)
    return build.make_tree(
        list(p), types=_types(n), extra={"w": [0.5 + i for i in range(n)]}, comments=["c0"], bank_k=bank_k, offset=OFFSET
    )


def second_tree(bank_k):
    """Fixed 3-node tree far away from every initial tree (no coincident junction), no extra column."""
    xyz = [(40.0, 41.0, 42.0), (43.5, 40.25, 44.0), (38.0, 45.0, 41.5)]
    return build.make_tree([-1, 0, 0], xyz=xyz, r=[0.75, 0.5, 0.25], types=[1, 3, 2])


# ----------------------------------------------------------------------------- events


def _finite(t):
    return all(np.isfinite(t.get_ndata(k)).all() for k in ("x", "y", "z", "r"))


def _root_pos(t):
    r = [i for i, q in enumerate(t.pid().tolist()) if q == -1]
    return r[0] if len(r) == 1 else None


GEO_FULL = [
    ["Translate", 1.0, -2.0, 0.5],
    ["TranslateOrigin"],
    ["Scale", 2.0, 2.0, 2.0, "root"],
    ["Scale", 0.5, 2.0, 3.0, "origin"],
    ["RotateX", 0.7, "root"],
    ["RotateY", math.pi / 2, "origin"],
    ["RotateZ", -1.1, "root"],
    ["Rotate", [1.0, 2.0, 3.0], 0.9, "root"],
    ["Rotate", [0.0, 0.0, 1.0], math.pi / 2, "origin"],
    ["Normalizer"],
    ["RadiusReseter", 0.5],
    # neutral arguments ("all admissible arguments"): the result is still a NEW well-formed tree sharing nothing with the input
    ["Translate", 0.0, 0.0, 0.0],
    ["Scale", 1.0, 1.0, 1.0, "root"],
    ["Scale", 1.0, 1.0, 1.0, "origin"],
    ["RotateX", 0.0, "root"],
    ["Rotate", [0.0, 0.0, 1.0], 0.0, "origin"],
]
GEO_CORE = [["Translate", 1.0, -2.0, 0.5], ["RotateZ", -1.1, "root"], ["Scale", 2.0, 2.0, 2.0, "root"]]
PAIR_MENU = [
    ["sort_tree"],
    ["CutByFurcationOrder", 1],
    ["CutShortTipBranch", 1.5],
    ["Translate", 1.0, -2.0, 0.5],
    ["RotateZ", -1.1, "root"],
    ["TreeSmoother", 3],
    ["Translate", 0.0, 0.0, 0.0],
    ["Scale", 1.0, 1.0, 1.0, "root"],
    ["RotateY", 0.0, "origin"],
]


def mini_events(t):
    """The 13-operation sub-menu used for the deepest searches (one instance of every operation family)."""
    n = len(t)
    last = n - 1
    ev = [["sort_tree"], ["get_subtree", last], ["redirect", last, True], ["redirect", last, False],
          ["cat", "B", last, 1, True], ["cat", "self", last, 0, True], ["cat", "self", 0, last, False],
          ["CutByFurcationOrder", 1], ["Translate", 1.0, -2.0, 0.5], ["IsometricResampler", 0.75], ["TreeSmoother", 3],
          ["swc_roundtrip", "text"]]
    if n > 1:
        ev.insert(2, ["to_subtree", [last]])
    return ev


def events(t, menu, depth=0):
    """Finite menu of operation instances enabled in state t (simplest first).

    full: every operation with every node argument (Transforms pairs only from the initial state, and the
    core menu for states above 6 nodes, where the per-node argument lists grow quadratically); core: every
    operation family with boundary node arguments; mini: see mini_events.
    """
    n = len(t)
    root = _root_pos(t)
    if root != 0:
        return [["sort_tree"]]
    if menu == "mini":
        return mini_events(t)
    full = menu == "full" and n <= 6
    ev = [["copy"], ["sort_tree"], ["cut_none"]]
    for k in range(n):
        ev.append(["get_subtree", k])
    for k in range(1, n):
        ev.append(["node_subtree", k])
    ev.append(["to_subtree", []])
    for k in range(1, n):
        ev.append(["to_subtree", [k]])
    if full:
        for j in range(1, n):
            for k in range(j + 1, n):
                ev.append(["to_subtree", [k, j]])
    sets = [[n - 1]] if n > 1 else []
    if full and n > 2:
        sets += [[1], [1, n - 1]]
    for s in sets:
        ev.append(["cut_enter", s])
        ev.append(["cut_leave", s])
    for k in range(n):
        ev.append(["redirect", k, True])
        if full or k == n - 1:
            ev.append(["redirect", k, False])
    for k in range(n) if full else sorted({0, n - 1}):
        for j in range(3):
            for tr in (True, False):
                ev.append(["cat", "B", k, j, tr])
    for k in range(n) if full else [n - 1]:
        for j in range(n) if full else sorted({0, n - 1}):
            for tr in (True, False):
                ev.append(["cat", "self", k, j, tr])
    types = set(int(v) for v in t.type().tolist())
    for ty in (2, 3):
        if ty in types:
            ev.append(["CutByType", ty])
    if 2 in types:
        ev.append(["CutAxonTree"])
    if 3 in types:
        ev.append(["CutDendriteTree"])
    for m in (1, 2) if full else (1,):
        ev.append(["CutByFurcationOrder", m])
    for th in (0.5, 1.5, 8.5) if full else (8.5,):
        ev.append(["CutShortTipBranch", th])
    ev += GEO_FULL if full else GEO_CORE
    ev.append(["TreeSmoother", 3])
    if full:
        ev.append(["TreeSmoother", 5])
    ev.append(["IsometricResampler", 0.75])
    if full:
        ev.append(["IsometricResampler", 1.7])
        ev.append(["IsometricResampler", 50.0])
    ev.append(["swc_roundtrip", "text"])
    if full:
        ev.append(["swc_roundtrip", "bytes"])
    if full and depth == 0:
        for a in PAIR_MENU:
            for b in PAIR_MENU:
                ev.append(["Transforms", a, b])
        for a in PAIR_MENU:
            ev.append(["Transforms", a])  # a one-step pipeline
            ev.append(["Transforms", ["Transforms", a], ["Transforms", a, a]])  # pipelines of pipelines
    return ev


def _make_transform(ev):
    from swcgeom import transforms as T

    nm = ev[0]
    if nm == "CutByType":
        return T.CutByType(ev[1])
    if nm == "CutAxonTree":
        return T.CutAxonTree()
    if nm == "CutDendriteTree":
        return T.CutDendriteTree()
    if nm == "CutByFurcationOrder":
        return T.CutByFurcationOrder(ev[1])
    if nm == "CutShortTipBranch":
        return T.CutShortTipBranch(ev[1])
    if nm == "Translate":
        return T.Translate(ev[1], ev[2], ev[3])
    if nm == "TranslateOrigin":
        return T.TranslateOrigin()
    if nm == "Scale":
        return T.Scale(ev[1], ev[2], ev[3], center=ev[4])
    if nm == "RotateX":
        return T.RotateX(ev[1], center=ev[2])
    if nm == "RotateY":
        return T.RotateY(ev[1], center=ev[2])
    if nm == "RotateZ":
        return T.RotateZ(ev[1], center=ev[2])
    if nm == "Rotate":
        return T.Rotate(np.array(ev[1], dtype=np.float32), ev[2], center=ev[3])
    if nm == "Normalizer":
        return T.Normalizer()
    if nm == "RadiusReseter":
        return T.RadiusReseter(ev[1])
    if nm == "TreeSmoother":
        return T.TreeSmoother(ev[1])
    if nm == "IsometricResampler":
        return T.IsometricResampler(ev[1])
    if nm == "sort_tree":
        from swcgeom.core import sort_tree

        class _Fn(T.Transform):
            def __call__(self, x):
                return sort_tree(x)

        return _Fn()
    raise KeyError(nm)


OP_TIMEOUT = 20.0  # wall-clock horizon of one operation inside a history (operations on <= 12 nodes take well under a millisecond)


def _fields(op):
    """Public configuration of a transform instance (identity of list members, bytes of arrays)."""
    if op is None:
        return None
    out = {}
    for k, v in sorted(vars(op).items()):
        if k.startswith("_"):
            continue  # private attributes may hold caches; only the public configuration is the caller's
        if isinstance(v, np.ndarray):
            out[k] = (str(v.dtype), v.shape, v.tobytes())
        elif isinstance(v, list):
            out[k] = [id(x) if callable(x) else repr(x) for x in v]
        elif hasattr(v, "__dict__") and not callable(v):
            out[k] = _fields(v)
        else:
            out[k] = repr(v)
    return out


def bind(ev, t, B, pool=None):
    """-> (callable producing the result, list of input trees, list of mutable argument snapshots, op instance)."""
    from swcgeom import core as C

    nm = ev[0]
    if nm == "copy":
        return (lambda: t.copy()), [t], None
    if nm == "sort_tree":
        return (lambda: C.sort_tree(t)), [t], None
    if nm == "cut_none":
        return (lambda: C.cut_tree(t)), [t], None
    if nm == "get_subtree":
        return (lambda: C.get_subtree(t, ev[1])), [t], None
    if nm == "node_subtree":
        return (lambda: t.node(ev[1]).subtree()), [t], None
    if nm == "to_subtree":
        return (lambda: C.to_subtree(t, ev[1])), [t], None
    if nm == "cut_enter":
        s = set(ev[1])
        return (lambda: C.cut_tree(t, enter=lambda n, par: (None, int(n.id) in s))), [t], None
    if nm == "cut_leave":
        s = set(ev[1])
        return (lambda: C.cut_tree(t, leave=lambda n, ch: (None, int(n.id) in s))), [t], None
    if nm == "redirect":
        return (lambda: C.redirect_tree(t, ev[1], sort=ev[2])), [t], None
    if nm == "cat":
        other = B if ev[1] == "B" else t
        return (lambda: C.cat_tree(t, other, ev[2], ev[3], translate=ev[4])), [t, other], None
    if nm == "swc_roundtrip":
        from swcgeom.core import Tree

        if ev[1] == "text":
            return (lambda: Tree.from_swc(io.StringIO(t.to_swc()))), [t], None
        return (lambda: Tree.from_swc(io.BytesIO(t.to_swc().encode("utf-8")))), [t], None
    if nm == "Transforms":
        op = _make_pipeline(ev, pool)
        return (lambda: op(t)), [t], op
    op = _pooled(ev, pool)
    return (lambda: op(t)), [t], op


def _make_pipeline(ev, pool):
    """Transforms(step, ...) where a step may itself be a pipeline description."""
    from swcgeom.transforms import Transforms

    return Transforms(*[_make_pipeline(e, pool) if e[0] == "Transforms" else _pooled(e, pool) for e in ev[1:]])


def _flat_steps(ev):
    out = []
    for e in ev[1:]:
        out += _flat_steps(e) if e[0] == "Transforms" else [e]
    return out


def _pooled(ev, pool):
    """One transform OBJECT per event description and case: the same instance is applied again at every depth of the search
    (to other trees and to its own earlier results), which is how transform objects are used in pipelines."""
    if pool is None:
        return _make_transform(ev)
    k = json.dumps(ev, sort_keys=True, default=str)
    if k not in pool:
        pool[k] = _make_transform(ev)
    return pool[k]


def _empty_result_expected(ev, t):
    """Operations that legitimately keep nothing are not events; cheap reference test for the rest."""
    return False


# ----------------------------------------------------------------------------- the search


class St:
    __slots__ = ("t", "depth", "hist")

    def __init__(self, t, depth, hist):
        self.t, self.depth, self.hist = t, depth, hist


def _where(e):
    import os
    import traceback

    for fr in reversed(traceback.extract_tb(e.__traceback__)):
        if "/swcgeom/" in fr.filename:
            return f"{os.path.basename(fr.filename)}:{fr.name}"
    return "?"


def check_case(case, R):
    p, ev0_idx, menu, depth, bank_k = case[0], case[1], case[2], case[3], case[4]
    p = tuple(p)
    t0 = initial_tree(p, bank_k)
    B = second_tree(bank_k)
    evs0 = events(t0, menu)
    if ev0_idx >= len(evs0):
        R.trivial()
        return
    first = evs0[ev0_idx]
    applied = {"n": 0}
    pool = {}

    def enabled(s):
        if s.depth == 0:
            return [first]
        return events(s.t, menu, s.depth)

    def expandable(s):
        if len(s.t) > MAX_EXPAND_NODES:
            R.note("not-expanded:size")
            return False
        if not _finite(s.t):
            R.note("not-expanded:non-finite")
            return False
        return True

    def step(s, ev):
        t = s.t
        hist = s.hist + [ev]
        name = ev[0]
        args_before = kernel.dg(ev)
        try:
            fn, inputs, op = bind(ev, t, B, pool)
            snaps = [build.snapshot(x) for x in inputs]
            f_before = _fields(op)
            out = kernel.call_with_timeout(fn, OP_TIMEOUT)
        except kernel.CallTimeout:
            R.fail(f"hang:{name}", f"history={hist}: the operation did not return within {OP_TIMEOUT}s", f"hang:{name}", history=hist)
            return None
        except (kernel.CaseTimeout, KeyboardInterrupt):
            raise
        except BaseException as e:  # noqa: BLE001
            R.fail(f"raises:{name}", f"history={hist}: {type(e).__name__}: {e}",
                   f"raises:{name}:{type(e).__name__}@{_where(e)}", history=hist)
            # inputs must be intact even when the operation fails? not claimed by the statement.
            return None
        applied["n"] += 1
        sig = name if name != "Transforms" else "Transforms"
        # (2) inputs untouched
        for x, sn in zip(inputs, snaps):
            R.check(build.snapshot(x) == sn, "input-modified", lambda: f"history={hist}", f"input-modified:{sig}", history=hist)
        R.check(kernel.dg(ev) == args_before, "argument-modified", lambda: f"history={hist}", f"argument-modified:{sig}", history=hist)
        R.check(_fields(op) == f_before, "transform-state-changed", lambda: f"history={hist}: {f_before} -> {_fields(op)}",
                f"transform-state-changed:{sig}", history=hist)
        # (1) well-formed
        from swcgeom.core import Tree

        if not R.check(isinstance(out, Tree), "result-not-a-tree", lambda: f"history={hist}: {type(out)}", f"result-not-a-tree:{sig}", history=hist):
            return None
        n_out = len(out)
        if n_out == 0:
            R.note("empty-result")
            return None
        ids = [int(v) for v in out.id().tolist()]
        pids = [int(v) for v in out.pid().tolist()]
        if name == "redirect" and ev[2] is False:
            want_root = ev[1]
            ok = ids == list(range(n_out)) and [i for i, q in enumerate(pids) if q == -1] == [want_root]
            ok = ok and all(q == -1 or 0 <= q < n_out for q in pids) and not ref.has_cycle(pids)
            R.check(ok, "not-wellformed", lambda: f"history={hist}: ids={ids} pids={pids} (root expected at position {want_root})",
                    f"not-wellformed:{sig}", history=hist)
            wf = ok
        else:
            wf, why = ref.is_wellformed(ids, pids)
            R.check(wf, "not-wellformed", lambda: f"history={hist}: {why}; ids={ids} pids={pids}", f"not-wellformed:{sig}", history=hist)
        if wf and (name == "sort_tree" or (name == "redirect" and ev[2] is True)):
            R.check(ref.is_sorted(pids), "not-sorted", lambda: f"history={hist}: pids={pids}", f"not-sorted:{sig}", history=hist)
        # columns all have the node count
        for k in out.keys():
            R.check(out.get_ndata(k).shape == (n_out,), "column-shape", lambda: f"history={hist}: column {k} shape {out.get_ndata(k).shape}",
                    f"column-shape:{sig}", history=hist)
        # (3) independence
        for x in inputs:
            why = build.independent(out, x)
            R.check(why == "", "shares-storage", lambda: f"history={hist}: {why}", f"shares-storage:{sig}", history=hist)
        # (4) same instance, same state, same answer
        try:
            out2 = kernel.call_with_timeout(fn, OP_TIMEOUT)
            same = build.canon_tree(out2) == build.canon_tree(out)
            R.check(same, "not-repeatable", lambda: f"history={hist}: second application differs", f"not-repeatable:{sig}", history=hist)
            R.check(out2 is not out, "same-object-returned", lambda: f"history={hist}", f"same-object-returned:{sig}", history=hist)
            R.trans()
        except (kernel.CaseTimeout, KeyboardInterrupt):
            raise
        except BaseException as e:  # noqa: BLE001
            R.fail("not-repeatable", f"history={hist}: second application raised {type(e).__name__}: {e}", f"not-repeatable:{sig}", history=hist)
        if name == "Transforms":
            steps = [_make_transform(e) for e in _flat_steps(ev)]
            try:
                seq = t
                for st in steps:
                    seq = st(seq)
                R.trans(len(steps))
                R.check(build.canon_tree(seq) == build.canon_tree(out), "composition", lambda: f"history={hist}: Transforms(a,b,...)(x) != ...b(a(x))",
                        "composition:Transforms", history=hist)
            except (kernel.CaseTimeout, KeyboardInterrupt):
                raise
            except BaseException:  # noqa: BLE001 - already reported through the Transforms call itself
                pass
        R.outcome(name, n_out, tuple(sorted(out.keys())), len(out.comments))
        # history oracle: this result is re-inspected after the rest of the search from this state (kernel.Recorder.retain)
        R.retain(sig, lambda o=out: build.canon_tree(o))
        if not wf:
            return None
        return St(out, s.depth + 1, hist)

    stats = kernel.bfs(
        R,
        [St(t0, 0, [])],
        enabled,
        step,
        canon=lambda s: build.canon_tree(s.t),
        max_depth=depth,
        expandable=expandable,
    )
    if applied["n"] == 0:
        R.trivial()
    R.note("bfs-states", stats["states"])


# ----------------------------------------------------------------------------- spaces


def _initials(tier):
    out = []
    for n in range(1, 5):
        out.extend(S.sorted_trees(n))
    return out


def spaces(tier, seed):
    bank_k = seed % 4
    init = _initials(tier)
    plan = []  # (name, trees, menu, depth)
    if tier == "quick":
        plan.append(("full-depth2", init, "full", 2))
        plan.append(("mini-depth3", init, "mini", 3))
    else:
        plan.append(("full-depth2", init + PICKED, "full", 2))
        plan.append(("core-depth3", init, "core", 3))
        plan.append(("mini-depth4", init, "mini", 4))
        plan.append(("mini-depth3-picked", PICKED, "mini", 3))
    # every numbering that is well-formed but NOT parents-first (what a file read without sorting, or a re-rooting without sorting, gives)
    unsorted4 = [p for p in S.labelled_trees(4) if not ref.is_sorted(p)]
    unsorted5 = [p for p in S.labelled_trees(5) if not ref.is_sorted(p)]
    if tier == "quick":
        plan.append(("unsorted-depth1", unsorted4 + unsorted5, "full", 1))
    else:
        plan.append(("unsorted-depth1", unsorted5 + [p for p in S.labelled_trees(6) if not ref.is_sorted(p)], "full", 1))
        plan.append(("unsorted-depth2", unsorted4, "full", 2))
    out = []
    for name, trees, menu, depth in plan:

        def gen(trees=trees, menu=menu, depth=depth):
            for p in trees:
                t = initial_tree(p, bank_k)
                for i in range(len(events(t, menu))):
                    yield (tuple(p), i, menu, depth, bank_k)

        out.append(Space.of(name, gen, check_case, bounds={
            "initial_trees": len(trees), "menu": menu, "depth": depth, "geometry_bank": bank_k,
            "max_nodes_expanded": MAX_EXPAND_NODES}, case_timeout=1800.0))
    return out
