"""C07 — re-rooting and concatenation preserve structure and geometry."""

from __future__ import annotations

import numpy as np

from mc import build, ref, spaces as S
from mc.kernel import Space

PROPERTY = "C07"
RULE = (
    "redirect: every labelled tree LT(n) x {tagged, all-equal attributes} x every new root x sort in {T,F}, plus every two-step "
    "re-rooting (first unsorted, then every root x sort) for small n; cat: every pair (A, B) of labelled trees up to the tier bound "
    "(and every tree with itself, same object) x every (node1, node2) x translate in {T,F} (+ legacy no_move) x geometry variants "
    "(generic disjoint, exactly coincident junction without translation, integer lattice with many non-junction coincidences and "
    "zero-length edges, large-offset banks at 123.456 / 1000.123 / 20000.7 / 5e5) x extra-column placements; path: every root-to-tip "
    "path and branch of every LT(n) through PathToTree / PathReverser. Oracle: reference tree built in pure Python (edge algebra, "
    "exact attributes, translated coordinates within the derived float32 bound) compared node by node via unique radius tags and, "
    "independently, by attributed rooted-tree isomorphism; every result is also tested for aliasing with its inputs, re-inspected "
    "after the next cases (retained results), and in call-histories re-judged after later calls on other fresh inputs. "
    "Non-trivial = the operation changes the parent table (new root != old root, or a second tree is attached)."
)
ASSUMPTIONS = [
    "nodes are identified by radius tags (A: 0.25+i/8, B: 5.25+j/8, exactly representable, untouched by both operations); "
    "self-concatenation, where tags repeat, is decided by attributed rooted-tree isomorphism alone",
    "translated coordinate x_i - (x_j - c) evaluated in float32 differs from the real value by at most 2^-24(|x_j-c| + |result|); "
    "the oracle allows twice that (2^-23(|x_j-c|+|expected|)); untranslated coordinates must be bit-exact",
    "without translation the junction is either exactly coincident (merge expected) or >= 0.5 apart (no merge); separations in "
    "(0, 0.1) never occur in the spaces (EPS is an implementation constant and is not probed)",
    "types of the second tree's old root and of node2 may be exchanged (re-rooting) or kept (plain copy): both readings accepted",
    "extra columns: asserted only where the statement determines them (A's nodes keep A's columns; B's nodes keep columns present in both)",
]

U23 = 2.0 ** -23

BIG = {"big123": 123.456, "big1000": 1000.123, "big20000": 20000.7, "big5e5": 500000.3}
# (coordinate magnitude, separation of the junction points): many float32 steps apart, far below any relative tolerance a
# careless comparison would use (numpy's allclose default is 1e-5 x magnitude)
NEAR = {"near1": (1.0, 0.0625), "near8192": (8192.0, 0.0625), "near262144": (262144.0, 0.5)}


# ------------------------------------------------------------------ attributes and geometry


def a_types(n):
    return [1 + i for i in range(n)]


def b_types(n):
    return [11 + j for j in range(n)]


def a_r(n):
    return [0.25 + 0.125 * i for i in range(n)]


def b_r(n):
    return [5.25 + 0.125 * j for j in range(n)]


def _small(n, k):
    xyz, _ = build.generic_geometry(n, k)
    return [tuple(q) for q in xyz]


def geometry(variant, nA, nB, seed):
    """Coordinates of A and B (float32-representable Python floats) for junction-independent variants."""
    k = seed % 4
    ga, gb = _small(nA, k), _small(nB, k + 4)
    if variant in ("gen", "coin"):
        off = (45.0, -38.0, 52.0)
        return ga, [tuple(build.f32(q[c] + off[c]) for c in range(3)) for q in gb]
    if variant == "lat":
        # unit-cube corners; every axis occurs as the only difference between some A node and some B node
        bperm = [0, 4, 2, 1, 3, 6, 5, 7]
        bits = lambda i: (float(i & 1), float((i >> 1) & 1), float((i >> 2) & 1))  # noqa: E731
        return [bits(i) for i in range(nA)], [bits(bperm[j]) for j in range(nB)]
    if variant == "dup":
        return [(float(i // 2), 0.0, 0.0) for i in range(nA)], [(float(j // 2), 0.0, 0.0) for j in range(nB)]
    if variant.startswith("near"):
        # distinct junction points a small but representable step apart (set in check_cat): NOT coincident at any coordinate magnitude
        M = NEAR[variant][0]
        oa = (M, 0.5 * M, -0.25 * M)
        q32 = lambda v: build.f32(round(v * 16) / 16)  # noqa: E731 - sixteenths: exact in float32 up to 2^19
        return [tuple(q32(oa[c] + q[c]) for c in range(3)) for q in ga], [tuple(q32(oa[c] + q[c] + 40.0) for c in range(3)) for q in gb]
    M = BIG[variant]
    oa = (M, 0.7 * M, -1.3 * M)
    ob = (-0.9 * M + 3.3, 2.1 * M, 7.77 + 0.3 * M)
    return ([tuple(build.f32(oa[c] + q[c]) for c in range(3)) for q in ga],
            [tuple(build.f32(ob[c] + q[c]) for c in range(3)) for q in gb])


def coincide(xa, xb, node1, node2):
    """B moved (in the harness, not by the library) so that B[node2] == A[node1] exactly."""
    d = [xa[node1][c] - xb[node2][c] for c in range(3)]
    out = [tuple(build.f32(q[c] + d[c]) for c in range(3)) for q in xb]
    out[node2] = tuple(xa[node1])
    return out


def mk(p, types, xyz, r, extras):
    n = len(p)
    extra = {}
    if "e" in extras:
        extra["e"] = np.array([extras["e"] + i for i in range(n)], dtype=np.float64)
    if "lv" in extras:
        extra["lv"] = np.array([extras["lv"] + i for i in range(n)], dtype=np.int64)
    return build.make_tree(p, xyz=xyz, r=r, types=types, extra=extra)


def cols_of(t):
    return {k: t.get_ndata(k).tolist() for k in t.keys()}


# ------------------------------------------------------------------ attributed rooted-tree isomorphism


def iso(ch_a, root_a, ch_b, root_b, compatible):
    """Is there a root-preserving isomorphism a->b with compatible(u, v) for every matched pair?"""
    memo = {}

    def go(u, v):
        key = (u, v)
        if key in memo:
            return memo[key]
        memo[key] = False
        res = False
        if compatible(u, v) and len(ch_a[u]) == len(ch_b[v]):
            cu, cv = ch_a[u], ch_b[v]

            def bt(i, used):
                if i == len(cu):
                    return True
                for j in range(len(cv)):
                    if not used[j] and go(cu[i], cv[j]):
                        used[j] = True
                        if bt(i + 1, used):
                            return True
                        used[j] = False
                return False

            res = bt(0, [False] * len(cv))
        memo[key] = res
        return res

    return go(root_a, root_b)


# ------------------------------------------------------------------ redirect


def judge_redirect(R, what, out, n, keys, tagged, base_p, base_cols, old_root, k, srt):
    """out must be base (parent list base_p, columns base_cols) re-rooted at k."""
    ctx = lambda: f"{what} p={base_p} new_root={k} sort={srt}: ids={out.id().tolist()} pids={out.pid().tolist()} types={out.type().tolist()}"  # noqa: E731
    ids = [int(i) for i in out.id().tolist()]
    pids = [int(i) for i in out.pid().tolist()]
    if not R.check(len(ids) == n and ids == list(range(n)), "redirect:nodes", ctx, "redirect:node-count-or-ids"):
        return None
    if not R.check(set(out.keys()) == set(base_cols), "redirect:columns", ctx, "redirect:columns-lost"):
        return None
    want_p = ref.reroot(base_p, k)
    exp = {c: list(base_cols[c]) for c in keys}
    exp["type"][old_root], exp["type"][k] = exp["type"][k], exp["type"][old_root]
    oc = cols_of(out)
    roots = [i for i in range(n) if pids[i] == -1]
    if not R.check(len(roots) == 1, "redirect:unique-root", ctx, "redirect:unique-root"):
        return None
    if not R.check(all(q == -1 or 0 <= q < n for q in pids) and not ref.has_cycle(pids), "redirect:malformed", ctx, "redirect:malformed"):
        return None
    if not srt:
        # every node keeps its position
        for c in keys:
            if oc[c] != exp[c]:
                R.fail("redirect:attributes", ctx() + f" column {c}: {oc[c]} != {exp[c]}",
                       "redirect:type-exchange" if c == "type" else "redirect:attribute-changed")
                return None
        R.check(roots == [k], "redirect:requested-root", ctx, "redirect:requested-root")
        R.check(pids == want_p, "redirect:edges", lambda: ctx() + f" want pids {want_p}", "redirect:edge-set")
        return pids, oc
    # sorted form
    R.check(roots == [0] and all(pids[i] < i for i in range(1, n)), "redirect:not-sorted", ctx, "redirect:sort")
    if tagged:
        tag2orig = {base_cols["r"][i]: i for i in range(n)}
        orig = [tag2orig.get(v) for v in oc["r"]]
        if not R.check(None not in orig and sorted(orig) == list(range(n)), "redirect:node-multiset", ctx, "redirect:node-multiset"):
            return None
        for c in keys:
            got = [oc[c][j] for j in range(n)]
            want = [exp[c][orig[j]] for j in range(n)]
            if got != want:
                R.fail("redirect:attributes", ctx() + f" column {c}: {got} != {want}",
                       "redirect:type-exchange" if c == "type" else "redirect:attribute-changed")
                return None
        R.check(orig[roots[0]] == k, "redirect:requested-root", ctx, "redirect:requested-root")
        got_e = sorted(tuple(sorted((orig[i], orig[pids[i]]))) for i in range(n) if pids[i] != -1)
        want_e = sorted(tuple(sorted(e)) for e in ref.edges(base_p))
        R.check(got_e == want_e, "redirect:edges", lambda: ctx() + f" edges {got_e} != {want_e}", "redirect:edge-set")
    else:
        for c in keys:
            if oc[c] != exp[c]:  # all equal, exchange invisible
                R.fail("redirect:attributes", ctx() + f" column {c}", "redirect:attribute-changed")
                return None
        R.check(ref.ahu(pids) == ref.ahu(want_p, root=k), "redirect:edges", ctx, "redirect:edge-set")
    return pids, oc


def check_redirect(case, R):
    from swcgeom.core import redirect_tree

    p, tagged = list(case[0]), bool(case[1])
    two_step = bool(case[2])
    n = len(p)
    R.state("redirect", p, tagged, two_step)
    if n < 2:
        R.trivial()
    if tagged:
        types, r = a_types(n), a_r(n)
        t = mk(p, types, _small(n, R.seed % 4), r, {"e": 100.5, "lv": 1000})
    else:
        types, r = [3] * n, [1.0] * n
        t = mk(p, types, [(1.0, 2.0, 3.0)] * n, r, {"e": 0.0})
        t.ndata["e"][...] = 4.0  # every attribute equal on every node: nodes are indistinguishable
    src = cols_of(t)
    snap = build.snapshot(t)
    keys = [k for k in src if k not in ("id", "pid")]

    def judge(what, out, base_p, base_cols, old_root, k, srt):
        return judge_redirect(R, what, out, n, keys, tagged, base_p, base_cols, old_root, k, srt)

    for k in range(n):
        for srt in (True, False):
            ok, out = R.impl("redirect_tree", redirect_tree, t, k, srt)
            if not ok:
                continue
            R.check(build.snapshot(t) == snap, "redirect:input-modified", f"p={p} k={k} sort={srt}", "redirect:input-modified")
            got = judge("redirect_tree", out, p, src, 0, k, srt)
            why = build.independent(out, t)
            R.check(why == "", "redirect:result-aliases-input", lambda: f"p={p} k={k} sort={srt}: {why}", "redirect:result-aliases-input")
            if got is not None:
                R.outcome("r", tuple(got[0]))
            if got is None or srt or not two_step:
                continue
            # second re-rooting of the library's own (unsorted, root at position k) result
            p1, c1 = got
            snap1 = build.snapshot(out)
            for j in range(n):
                for srt2 in (True, False):
                    ok, out2 = R.impl("redirect_tree(2nd)", redirect_tree, out, j, srt2)
                    if ok:
                        R.check(build.snapshot(out) == snap1, "redirect:input-modified", f"p={p1} k={j}", "redirect:input-modified")
                        g2 = judge("redirect_tree(2nd)", out2, p1, c1, k, j, srt2)
                        if g2 is not None:
                            R.outcome("r2", tuple(g2[0]))


    # the same tree after it has been looked at (children, branches, paths, length ...): re-rooting an inspected tree gives the same
    # results, and the result describes ITSELF (its handles / branches / paths follow its own parent column)
    build.query_report(t)
    R.attempt(t.get_neurites)
    for k in range(n):
        for srt in (True, False):
            ok, out = R.impl("redirect_tree", redirect_tree, t, k, srt, klass="raises:redirect_tree:inspected-input")
            if not ok:
                continue
            judge("redirect_tree(inspected tree)", out, p, src, 0, k, srt)
            if srt:
                probs = build.query_report(out)
                R.check(not probs, "redirect:result-contradicts-its-own-table", lambda: f"p={p} k={k}: re-rooted copy of an inspected tree: {probs}",
                        "redirect:result-contradicts-its-own-table")
            else:
                ok2, ch_ = R.impl("children of the new root", lambda: sorted(int(c.id) for c in out.node(k).children()))
                if ok2:
                    want = sorted(i for i, q in enumerate(int(v) for v in out.pid().tolist()) if q == k)
                    R.check(ch_ == want, "redirect:result-contradicts-its-own-table", lambda: f"p={p} k={k} sort=False: node({k}).children() {ch_}, parent column says {want}",
                            "redirect:result-contradicts-its-own-table")
    R.check(build.snapshot(t) == snap, "redirect:input-modified", f"p={p} (inspected)", "redirect:input-modified")


# ------------------------------------------------------------------ cat


def expected_cat(A, B, node1, node2, translate):
    """Reference result.  Nodes: ('A', i) and ('B', j).  Returns (nodes, parent, attrs, merged)."""
    pA, pB = A["p"], B["p"]
    coincident = tuple(A["xyz"][node1]) == tuple(B["xyz"][node2])
    if not translate and not coincident:
        d = ref.dist(A["xyz"][node1], B["xyz"][node2])
        assert d >= 0.05, f"harness: junction separation {d} inside the unspecified zone"
    merged = translate or coincident
    q = ref.reroot(pB, node2)
    nodes = [("A", i) for i in range(len(pA))] + [("B", j) for j in range(len(pB)) if not (merged and j == node2)]
    parent = {}
    for i, pp in enumerate(pA):
        parent[("A", i)] = ("A", pp) if pp != -1 else None
    for j in range(len(pB)):
        if merged and j == node2:
            continue
        if j == node2:
            parent[("B", j)] = ("A", node1)
        elif merged and q[j] == node2:
            parent[("B", j)] = ("A", node1)
        else:
            parent[("B", j)] = ("B", q[j])
    # coordinates
    xyz = {}
    tol = {}
    for i in range(len(pA)):
        xyz[("A", i)] = tuple(A["xyz"][i])
        tol[("A", i)] = (0.0, 0.0, 0.0)
    for j in range(len(pB)):
        if translate:
            d = [B["xyz"][node2][c] - A["xyz"][node1][c] for c in range(3)]
            e = tuple(B["xyz"][j][c] - d[c] for c in range(3))
            xyz[("B", j)] = e
            tol[("B", j)] = tuple(U23 * (abs(d[c]) + abs(e[c])) for c in range(3))
        else:
            xyz[("B", j)] = tuple(B["xyz"][j])
            tol[("B", j)] = (0.0, 0.0, 0.0)
    return nodes, parent, xyz, tol, merged


def check_cat(case, R):
    from swcgeom.core import cat_tree

    pA, pB, variant, extras_mode = list(case[0]), case[1], case[2], case[3]
    self_pair = pB == "self"
    if not self_pair:
        pB = list(pB)
    nA = len(pA)
    nB = nA if self_pair else len(pB)
    R.state("cat", pA, pB, variant, extras_mode)
    xa0, xb0 = geometry(variant, nA, nB, R.seed)
    exA = {"e": 100.5, "lv": 1000} if extras_mode in ("A", "both") else {}
    exB = {"e": 200.5, "lv": 2000} if extras_mode in ("B", "both") else {}
    A = {"p": pA, "type": a_types(nA), "r": a_r(nA), "xyz": xa0}
    tA = mk(pA, A["type"], xa0, A["r"], exA)
    snapA = build.snapshot(tA)
    colsA = cols_of(tA)
    if self_pair:
        B, tB, colsB, snapB = A, tA, colsA, snapA
        pB = pA
    modes = [("T", dict(translate=True)), ("F", dict(translate=False))]
    if variant == "gen" and extras_mode == "none":
        modes += [("no_move=T", dict(no_move=True)), ("no_move=F", dict(no_move=False))]
    for node1 in range(nA):
        for node2 in range(nB):
            if not self_pair:
                xb = coincide(xa0, xb0, node1, node2) if variant == "coin" else xb0
                if variant.startswith("near"):
                    xb = coincide(xa0, xb0, node1, node2)
                    sep = NEAR[variant][1]
                    xb = [tuple(build.f32(q[c] + (sep if c == 0 else 0.0)) for c in range(3)) for q in xb]
                    assert xb[node2][0] - xa0[node1][0] == sep and xb[node2][1:] == tuple(xa0[node1][1:]), "harness: near-coincident placement is not exact"
                B = {"p": pB, "type": b_types(nB), "r": b_r(nB), "xyz": xb}
                tB = mk(pB, B["type"], xb, B["r"], exB)
                snapB = build.snapshot(tB)
                colsB = cols_of(tB)
            inspected = [("", False)] + ([(" on trees that were inspected before", True)] if variant in ("gen", "coin") and extras_mode == "none" else [])
            for mname, kw in [(m_ + tag, dict(k_, _warm=w_)) for m_, k_ in modes for tag, w_ in inspected]:
                warm_first = kw.pop("_warm")
                translate = kw.get("translate", not kw.get("no_move", False))
                if variant == "coin" and translate:
                    continue  # identical to 'gen' with translation up to rounding; covered there
                if warm_first:
                    # the trees have been looked at (children, branches, paths, neurites, length ...) before they are joined
                    for tt in ((tA,) if self_pair else (tA, tB)):
                        build.query_report(tt)
                        R.attempt(tt.get_neurites)
                ok, out = R.impl("cat_tree", lambda: cat_tree(tA, tB, node1, node2, **kw), klass="raises:cat_tree:inspected-inputs" if warm_first else None)
                if not ok:
                    continue
                what = f"cat_tree(A={pA}, B={'A itself' if self_pair else pB}, node1={node1}, node2={node2}, {mname}, geometry={variant}, extras={extras_mode})"
                R.check(build.snapshot(tA) == snapA and build.snapshot(tB) == snapB, "cat:input-modified", what, "cat:input-modified")
                judge_cat(R, what, A, B, colsA, colsB, node1, node2, translate, out, self_pair, variant)
                for inp in ((tA,) if self_pair else (tA, tB)):
                    why = build.independent(out, inp)
                    R.check(why == "", "cat:result-aliases-input", lambda: f"{what}: {why}", "cat:result-aliases-input")


def judge_cat(R, what, A, B, colsA, colsB, node1, node2, translate, out, self_pair, variant):
    nA, nB = len(A["p"]), len(B["p"])
    nodes, parent, exyz, etol, merged = expected_cat(A, B, node1, node2, translate)
    oc = cols_of(out)
    ids = [int(i) for i in oc["id"]]
    pids = [int(i) for i in oc["pid"]]
    m = len(ids)
    ctx = lambda: f"{what}: result n={m} pids={pids} types={oc['type']} r={oc['r']} x={oc['x']}"  # noqa: E731
    R.outcome(tuple(pids), merged)
    if merged and m == nA + nB:
        R.fail("cat:junction-not-merged", ctx() + f" — expected {nA + nB - 1} nodes (junction nodes coincide)",
               f"cat:junction-not-merged:translate={translate}:{'large-coordinates' if variant.startswith('big') else variant}")
        return
    if not R.check(m == len(nodes), "cat:node-count", lambda: ctx() + f" expected {len(nodes)} nodes", f"cat:node-count:merged={merged}"):
        return
    wf, why = ref.is_wellformed(ids, pids)
    if not R.check(wf, "cat:malformed", lambda: ctx() + " " + why, "cat:malformed"):
        return
    q_root = B["p"].index(-1)
    keysA = [k for k in colsA if k not in ("id", "pid")]
    shared = [k for k in colsA if k in colsB and k not in ("id", "pid", "x", "y", "z", "type")]

    def attr_ok(i, node, swap):
        """Does result row i carry the attributes expected for reference node `node`?"""
        side, j = node
        got_xyz = (oc["x"][i], oc["y"][i], oc["z"][i])
        e, tl = exyz[node], etol[node]
        if any(abs(got_xyz[c] - e[c]) > tl[c] for c in range(3)):
            return "coordinates"
        if side == "A":
            for k in keysA:
                if k in ("x", "y", "z"):
                    continue
                if k not in oc or oc[k][i] != colsA[k][j]:
                    return "first-tree-attribute"
            return ""
        for k in shared:
            if oc[k][i] != colsB[k][j]:
                return "second-tree-attribute"
        ty = colsB["type"][j]
        if swap and j == q_root:
            ty = colsB["type"][node2]
        elif swap and j == node2:
            ty = colsB["type"][q_root]
        if oc["type"][i] != ty:
            return "second-tree-type"
        return ""

    ch_ref = {nd: [] for nd in nodes}
    root_ref = None
    for nd in nodes:
        if parent[nd] is None:
            root_ref = nd
        else:
            ch_ref[parent[nd]].append(nd)
    ch_out = ref.children(pids)

    # (1) decision by attributed isomorphism (works with repeated tags too)
    iso_ok = any(iso(ch_out, 0, ch_ref, root_ref, lambda u, v, s=swap: attr_ok(u, v, s) == "") for swap in (True, False))

    # (2) node-by-node diagnosis through the radius tags
    if not self_pair:
        tag = {}
        for nd in nodes:
            tag[(colsA if nd[0] == "A" else colsB)["r"][nd[1]]] = nd
        who = [tag.get(v) for v in oc["r"]]
        if not R.check(None not in who and len(set(who)) == m, "cat:node-multiset", lambda: ctx() + f" expected nodes {nodes}",
                       "cat:node-multiset" + (":junction-node-kept-from-second-tree" if merged and ("B", node2) in [tag.get(v) for v in oc["r"]] else "")):
            return
        for i in range(m):
            problems = [attr_ok(i, who[i], s) for s in (True, False)]
            if "" in problems:
                continue
            pr = problems[0]
            kind = {"coordinates": "cat:translation" if who[i][0] == "B" else "cat:first-tree-changed",
                    "first-tree-attribute": "cat:first-tree-changed",
                    "second-tree-attribute": "cat:second-tree-changed",
                    "second-tree-type": "cat:second-tree-changed"}[pr]
            R.fail(kind, ctx() + f" node {who[i]}: {pr}; expected xyz {exyz[who[i]]} +- {etol[who[i]]}",
                   f"{kind}:{pr}:translate={translate}")
            return
        got_parent = {who[i]: (who[pids[i]] if pids[i] != -1 else None) for i in range(m)}
        if got_parent != parent:
            und = lambda pm: sorted(tuple(sorted((a, b))) for a, b in pm.items() if b is not None)  # noqa: E731
            ge, we = und(got_parent), und(parent)
            if ge != we:
                lost = [e for e in we if e not in ge]
                added = [e for e in ge if e not in we]
                junction = any(("A", node1) in e for e in lost)
                R.fail("cat:edges", ctx() + f" lost {lost} added {added}", "cat:edge-set" + (":junction" if junction else ""))
            else:
                R.fail("cat:root", ctx() + " same undirected edges, different root", "cat:root")
            return
        R.check(iso_ok, "cat:not-isomorphic-to-reference", ctx, "cat:iso-disagrees-with-tag-diagnosis")
    else:
        R.check(iso_ok, "cat:not-isomorphic-to-reference", lambda: ctx() + f" reference parents {parent}", f"cat:self:not-isomorphic:translate={translate}")


# ------------------------------------------------------------------ transforms/path.py


def check_big(case, R):
    """Size clause: re-rooting, concatenation and the sort behind them on trees beyond 46 341 nodes (where a product of two node
    numbers leaves the int32 range) and around 65 536: same nodes, same undirected edges, one root, parents first."""
    from swcgeom.core import Tree, cat_tree, redirect_tree

    kind, n = case[0], int(case[1])
    R.state(kind, n)
    i = np.arange(n)
    # a "broom": a spine of n // 2 nodes, every second spine node carries one side twig node (children stored after parents)
    half = n // 2
    pid = np.empty(n, dtype=np.int32)
    pid[0] = -1
    pid[1:half] = np.arange(0, half - 1)
    pid[half:] = (2 * (np.arange(half, n) - half)) % half
    tag = (i + 1).astype(np.float32)  # exact in float32 up to 2^24: identifies nodes

    def make(offset=0.0):
        return Tree(n, id=i.astype(np.int32), pid=pid.copy(), type=np.full(n, 3, dtype=np.int32), x=tag + np.float32(offset), y=np.zeros(n, dtype=np.float32),
                    z=np.zeros(n, dtype=np.float32), r=np.ones(n, dtype=np.float32))

    def edges_of(t):
        p_ = t.pid().astype(np.int64)
        x_ = t.x().astype(np.float64)
        c_ = np.nonzero(p_ != -1)[0]
        a, b = x_[c_], x_[p_[c_]]
        e = np.stack([np.minimum(a, b), np.maximum(a, b)], axis=1)
        return e[np.lexsort((e[:, 1], e[:, 0]))]

    def wellformed_sorted(t, m):
        ids_, p_ = t.id().astype(np.int64), t.pid().astype(np.int64)
        return (len(ids_) == m and bool(np.array_equal(ids_, np.arange(m))) and p_[0] == -1 and int((p_ == -1).sum()) == 1
                and bool(np.all(p_[1:] >= 0)) and bool(np.all(p_[1:] < np.arange(1, m))))

    t = make()
    want_edges = edges_of(t)
    if kind == "redirect":
        for k in (n - 1, half - 1):
            ok, out = R.impl("redirect_tree", redirect_tree, t, k, klass="raises:redirect_tree:big")
            if not ok:
                continue
            good = wellformed_sorted(out, n) and float(out.x()[0]) == float(tag[k]) and bool(np.array_equal(np.sort(out.x()), tag))
            R.check(good and bool(np.array_equal(edges_of(out), want_edges)), "redirect:big",
                    lambda: f"redirect_tree on a {n}-node tree at node {k}: result has {len(out)} nodes, root x={float(out.x()[0])}, "
                            f"{int((out.pid() == -1).sum())} roots, min pid {int(out.pid().min())}", "redirect:big-tree")
    else:
        t2 = make(offset=float(2 * n))
        ok, out = R.impl("cat_tree", lambda: cat_tree(t, t2, n - 1, half - 1, translate=False), klass="raises:cat_tree:big")
        if ok:
            allx = np.sort(np.concatenate([tag, tag + np.float32(2 * n)]))
            e2 = edges_of(t2)
            link = np.array([[float(tag[n - 1]), float(tag[half - 1] + np.float32(2 * n))]])
            we = np.concatenate([want_edges, e2, link])
            we = we[np.lexsort((we[:, 1], we[:, 0]))]
            good = wellformed_sorted(out, 2 * n) and bool(np.array_equal(np.sort(out.x()), allx))
            R.check(good and bool(np.array_equal(edges_of(out), we)), "cat:big", lambda: f"cat_tree of two {n}-node trees: result has {len(out)} nodes, "
                    f"{int((out.pid() == -1).sum())} roots, min pid {int(out.pid().min())}", "cat:big-tree")
    R.outcome(kind, n)


def check_path(case, R):
    from swcgeom.transforms import PathReverser, PathToTree

    p = list(case)
    n = len(p)
    R.state("path", p)
    types, r = a_types(n), a_r(n)
    t = mk(p, types, _small(n, R.seed % 4), r, {})
    src = cols_of(t)
    ok, paths = R.impl("get_paths", t.get_paths)
    ok2, brs = R.impl("get_branches", t.get_branches)
    objs = (list(paths) if ok else []) + (list(brs) if ok2 else [])
    want_idx = [list(q) for q in ref.root_to_tip_paths(p)] + [list(b) for b in ref.branches(p)]
    got_idx = [[int(i) for i in o.origin_id().tolist()] for o in objs]
    if sorted(got_idx) != sorted(want_idx):
        R.skip("decomposition differs from reference (C08's business)")
    for o, L in zip(objs, got_idx):
        mlen = len(L)
        snap = build.snapshot(t)
        # PathToTree: a chain carrying the path's attributes in order
        ok, pt = R.impl("PathToTree", lambda: PathToTree()(o))
        if ok:
            pc = cols_of(pt)
            ctx = lambda: f"PathToTree p={p} path={L}: {pc}"  # noqa: E731
            good = [int(i) for i in pc["id"]] == list(range(mlen)) and [int(i) for i in pc["pid"]] == list(range(-1, mlen - 1))
            R.check(good, "path-to-tree:not-a-chain", ctx, "path-to-tree:chain")
            for k in ("type", "x", "y", "z", "r"):
                R.check(pc[k] == [src[k][i] for i in L], "path-to-tree:attributes", ctx, "path-to-tree:attributes")
            R.check(build.snapshot(t) == snap, "path-to-tree:input-modified", ctx, "path-to-tree:input-modified")
        # PathReverser: the path re-rooted at its far end
        ok, rv = R.impl("PathReverser", lambda: PathReverser()(o))
        if not ok:
            continue
        rc = {k: rv.get_ndata(k).tolist() for k in ("type", "x", "y", "z", "r")}
        ctx = lambda: f"PathReverser p={p} path={L}: {rc}"  # noqa: E731
        rl = L[::-1]
        if not R.check(len(rv) == mlen, "path-reverse:length", ctx, "path-reverse:length"):
            continue
        for k in ("x", "y", "z", "r"):
            R.check(rc[k] == [src[k][i] for i in rl], "path-reverse:attributes", ctx, "path-reverse:attributes")
        want_t = [src["type"][i] for i in rl]
        exch = list(want_t)
        exch[0], exch[-1] = exch[-1], exch[0]
        R.check(rc["type"] in (want_t, exch), "path-reverse:types", ctx, "path-reverse:types")
        R.note("path-reverse:end-types-exchanged" if rc["type"] == exch and exch != want_t else "path-reverse:end-types-kept")
        owner = rv.attach
        oi = [int(i) for i in owner.id().tolist()]
        op = [int(i) for i in owner.pid().tolist()]
        wf, why = ref.is_wellformed(oi, op)
        R.check(wf and len(oi) == mlen, "path-reverse:owner-malformed", lambda: ctx() + f" owner ids {oi} pids {op} {why}", "path-reverse:owner")
        if wf and len(oi) == mlen:
            oid = [int(i) for i in rv.origin_id().tolist()]
            R.check(op[oid[0]] == -1 and all(op[b] == a for a, b in zip(oid, oid[1:])), "path-reverse:not-root-to-tip", ctx, "path-reverse:direction")
        R.outcome("rev", mlen, rc["type"] == exch)


# ------------------------------------------------------------------ call histories


class _Later:
    """Recorder proxy for re-inspection: same oracle, klass marked as 'after later calls'."""

    SFX = ":re-inspected-after-later-calls"

    def __init__(self, R):
        self.R = R

    def check(self, cond, kind, detail="", klass=None, **kw):
        return self.R.check(cond, kind, detail, (klass or kind) + self.SFX, **kw)

    def fail(self, kind, detail="", klass=None, **kw):
        return self.R.fail(kind, detail, (klass or kind) + self.SFX, **kw)

    def outcome(self, *a):
        pass

    def __getattr__(self, name):
        return getattr(self.R, name)


def run_call(desc, R):
    """Execute one redirect/cat call on FRESH inputs, judge it, return a re-judging closure (or None)."""
    from swcgeom.core import cat_tree, redirect_tree

    if desc[0] == "r":
        _, p, k, srt = desc
        p = list(p)
        n = len(p)
        t = mk(p, a_types(n), _small(n, R.seed % 4), a_r(n), {"e": 100.5})
        src = cols_of(t)
        keys = [c for c in src if c not in ("id", "pid")]
        ok, out = R.impl("redirect_tree", redirect_tree, t, int(k), bool(srt))
        if not ok:
            return None
        rejudge = lambda RR: judge_redirect(RR, "history:redirect_tree", out, n, keys, True, p, src, 0, int(k), bool(srt))  # noqa: E731
    else:
        _, pA, pB, node1, node2, translate, variant = desc
        pA, pB = list(pA), list(pB)
        xa, xb = geometry(variant, len(pA), len(pB), R.seed)
        A = {"p": pA, "type": a_types(len(pA)), "r": a_r(len(pA)), "xyz": xa}
        B = {"p": pB, "type": b_types(len(pB)), "r": b_r(len(pB)), "xyz": xb}
        tA = mk(pA, A["type"], xa, A["r"], {"e": 100.5})
        tB = mk(pB, B["type"], xb, B["r"], {"e": 200.5})
        colsA, colsB = cols_of(tA), cols_of(tB)
        ok, out = R.impl("cat_tree", lambda: cat_tree(tA, tB, int(node1), int(node2), translate=bool(translate)))
        if not ok:
            return None
        what = f"history:cat_tree(A={pA}, B={pB}, node1={node1}, node2={node2}, translate={bool(translate)}, geometry={variant})"
        rejudge = lambda RR: judge_cat(RR, what, A, B, colsA, colsB, int(node1), int(node2), bool(translate), out, False, variant)  # noqa: E731
    rejudge(R)
    return rejudge


def check_calls(case, R):
    """A sequence of calls on different fresh inputs: each result judged when returned AND after all later calls."""
    seq = [tuple(d) for d in case]
    R.state("calls", seq)
    live = []
    for d in seq:
        rj = run_call(d, R)
        if rj is not None:
            live.append(rj)
    later = _Later(R)
    for rj in live[:-1]:
        rj(later)
    R.outcome(tuple(d[0] for d in seq), len(live))


def call_alphabet(trees, variants):
    calls = []
    for p in trees:
        for k in range(len(p)):
            for srt in (True, False):
                calls.append(("r", p, k, srt))
    for pa in trees:
        for pb in trees:
            for n1 in range(len(pa)):
                for n2 in range(len(pb)):
                    for tr in (True, False):
                        for v in variants:
                            calls.append(("c", pa, pb, n1, n2, tr, v))
    return calls


# ------------------------------------------------------------------ spaces


def lt_upto(lo, hi):
    for n in range(lo, hi + 1):
        yield from S.labelled_trees(n)


def spaces(tier, seed):
    quick = tier == "quick"
    red_hi = 6 if quick else 7
    two_hi = 4 if quick else 5
    a_hi, b_hi = (4, 4) if quick else (5, 4)
    b2_hi = 5  # thorough: sorted A (<=4) with labelled B up to 5
    big = ["big123", "big1000", "big20000"] if quick else list(BIG)
    variants = [("gen", "none"), ("gen", "A"), ("gen", "both"), ("gen", "B"), ("coin", "none"), ("lat", "none"), ("dup", "none")]
    variants += [(b, "none") for b in big]
    variants += [(v, "none") for v in NEAR]
    if not quick:
        variants += [("coin", "both"), ("lat", "both"), ("big1000", "both")]

    def gen_redirect():
        for n in range(1, red_hi + 1):
            for p in S.labelled_trees(n):
                yield (p, True, n <= two_hi)
                yield (p, False, False)

    def gen_cat():
        for pa in lt_upto(1, a_hi):
            for pb in lt_upto(1, b_hi):
                for v, ex in variants:
                    yield (pa, pb, v, ex)
        if not quick:
            for n in range(1, 5):
                for pa in S.sorted_trees(n):
                    for pb in S.labelled_trees(b2_hi):
                        for v, ex in (("gen", "none"), ("coin", "none"), ("lat", "none"), ("big1000", "none")):
                            yield (pa, pb, v, ex)
            for pa in S.labelled_trees(5):
                for pb in S.labelled_trees(5):
                    for v, ex in (("gen", "none"), ("lat", "none")):
                        yield (pa, pb, v, ex)

    def gen_self():
        for pa in lt_upto(1, 4 if quick else 5):
            for v, ex in (("gen", "none"), ("gen", "A"), ("lat", "none"), ("dup", "none"), ("big1000", "none")):
                yield (pa, "self", v, ex)

    def gen_path():
        yield from lt_upto(1, 5 if quick else 6)

    if quick:
        pair_trees = list(lt_upto(1, 2)) + [(-1, 0, 0), (-1, 2, 0)]
        pair_variants = ("gen",)
    else:
        pair_trees = list(lt_upto(1, 3))
        pair_variants = ("gen", "big1000")
    triple_trees = list(lt_upto(1, 2))
    pair_alpha = call_alphabet(pair_trees, pair_variants)
    triple_alpha = call_alphabet(triple_trees, ("gen",))

    def gen_calls():
        for a in pair_alpha:
            for b in pair_alpha:
                yield (a, b)
        if not quick:
            for a in triple_alpha:
                for b in triple_alpha:
                    for c in triple_alpha:
                        yield (a, b, c)

    cat_bounds = {"A": f"LT(<={a_hi})", "B": f"LT(<={b_hi})", "junctions": "all (node1, node2)", "translate": [True, False, "no_move legacy (gen only)"],
                  "variants": [list(v) for v in variants], "bank": f"generic bank {seed % 4} (A) / {seed % 4 + 4} (B)"}
    if not quick:
        cat_bounds["extra"] = f"A in ST(<=4) x B in LT({b2_hi}) x 4 variants; A in LT(5) x B in LT(5) x (gen, lat)"
    big_sizes = (46400,) if quick else (46400, 65600, 100000)
    out = [
        Space.of("big-trees", lambda: ([k_, n_] for n_ in big_sizes for k_ in (("redirect",) if quick else ("redirect", "cat"))), check_big, case_timeout=1500.0,
                 bounds={"nodes": list(big_sizes), "operations": ["redirect_tree at the last node and at the end of the spine"] + ([] if quick else ["cat_tree of two such trees"])}),
        Space.of("redirect", gen_redirect, check_redirect, bounds={"LT_max_nodes": red_hi, "two_step_max_nodes": two_hi, "sort": [True, False]}),
        Space.of("cat", gen_cat, check_cat, bounds=cat_bounds),
        Space.of("cat-self", gen_self, check_cat, bounds={"trees": f"LT(<={4 if quick else 5})", "pair": "the same object twice"}),
        Space.of("path-transforms", gen_path, check_path, bounds={"LT_max_nodes": 5 if quick else 6, "objects": "every root-to-tip path and every branch"}),
        Space.of("call-histories", gen_calls, check_calls,
                 bounds={"pairs": f"every ordered pair of {len(pair_alpha)} calls (redirect: all roots x sort; cat: all junctions x translate x {list(pair_variants)}) on trees {[list(t) for t in pair_trees]}",
                         "triples": "none" if quick else f"every ordered triple of {len(triple_alpha)} calls on trees {[list(t) for t in triple_trees]}",
                         "inputs": "fresh objects for every call; every result re-judged after all later calls"}),
    ]
    for sp in out:
        sp.auto_retain = True  # results returned through R.impl are never edited without exact restoration (build.independent restores)
    return out
