"""Finite enumerators.  Sizes are exact and asserted by tests in mc/selftest.py."""

from __future__ import annotations

import itertools
from typing import Iterator


def parent_tables(n: int) -> Iterator[tuple[int, ...]]:
    """PT(n): every function {0..n-1} -> {-1} u {0..n-1}.  (n+1)^n tables."""
    return itertools.product(range(-1, n), repeat=n)


def _reaches_root(p) -> bool:
    n = len(p)
    for i in range(n):
        j, steps = i, 0
        while p[j] != -1:
            j = p[j]
            steps += 1
            if steps > n:
                return False
    return True


def labelled_trees(n: int) -> Iterator[tuple[int, ...]]:
    """LT(n): well-formed trees, ids = positions, node 0 the only root.  n^(n-2) for n>=2."""
    if n == 1:
        yield (-1,)
        return
    for rest in itertools.product(range(n), repeat=n - 1):
        p = (-1,) + rest
        if any(p[i] == i for i in range(1, n)):
            continue
        if _reaches_root(p):
            yield p


def sorted_trees(n: int) -> Iterator[tuple[int, ...]]:
    """ST(n): pid[i] < i.  (n-1)! trees."""
    if n == 1:
        yield (-1,)
        return
    for rest in itertools.product(*[range(i) for i in range(1, n)]):
        yield (-1,) + rest


def binary_sorted_trees(n: int) -> Iterator[tuple[int, ...]]:
    for p in sorted_trees(n):
        cnt = [0] * n
        ok = True
        for q in p[1:]:
            cnt[q] += 1
            if cnt[q] > 2:
                ok = False
                break
        if ok:
            yield p


def forests(n: int) -> Iterator[tuple[int, ...]]:
    """Acyclic parent tables with >= 2 roots."""
    for p in parent_tables(n):
        if sum(1 for q in p if q == -1) < 2:
            continue
        if any(p[i] == i for i in range(n)):
            continue
        if _reaches_root(p):
            yield p


def subsets(items) -> Iterator[tuple]:
    items = list(items)
    for k in range(len(items) + 1):
        yield from itertools.combinations(items, k)


def compositions(total: int, parts: int) -> Iterator[tuple[int, ...]]:
    """All tuples of `parts` non-negative ints summing to total."""
    if parts == 1:
        yield (total,)
        return
    for first in range(total + 1):
        for rest in compositions(total - first, parts - 1):
            yield (first,) + rest


def slices(n: int, steps=(None, 1, 2, -1)) -> Iterator[tuple]:
    rng = [None] + list(range(-n - 1, n + 2))
    for a in rng:
        for b in rng:
            for s in steps:
                yield (a, b, s)


def up_to(fn, lo: int, hi: int) -> Iterator:
    for n in range(lo, hi + 1):
        yield from fn(n)


def count(it) -> int:
    return sum(1 for _ in it)
