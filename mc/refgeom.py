"""Reference geometry in plain Python (no numpy, no swcgeom): rigid/affine maps and volumes of
coaxial bodies of revolution by quadrature.

Everything here is float64 `math` arithmetic on lists / tuples.  It is the *oracle* side of C12
(Rodrigues rotation, per-axis scaling about a centre) and C13 (true volumes of spheres, caps, frusta
and their coaxial intersections / unions), deliberately written without the closed forms the
library uses for the composite solids:

    V = integral of pi * rho(z)^2 dz,   rho(z) = min (intersection) / max (union) of the solids' radii at z

The integrand is piecewise smooth; the quadrature splits at the analytic breakpoints (extent of each
solid, crossings of the radius functions) and is *adaptive* (Gauss-Legendre 8 points, recursive
bisection until two levels agree), so a missed breakpoint costs time, not correctness.
"""

from __future__ import annotations

import math
from fractions import Fraction
from functools import lru_cache

# ------------------------------------------------------------------ vectors


def dot(a, b):
    return a[0] * b[0] + a[1] * b[1] + a[2] * b[2]


def cross(a, b):
    return (a[1] * b[2] - a[2] * b[1], a[2] * b[0] - a[0] * b[2], a[0] * b[1] - a[1] * b[0])


def norm(a):
    return math.sqrt(dot(a, a))


def unit(a):
    n = norm(a)
    return (a[0] / n, a[1] / n, a[2] / n)


def add(a, b):
    return (a[0] + b[0], a[1] + b[1], a[2] + b[2])


def sub(a, b):
    return (a[0] - b[0], a[1] - b[1], a[2] - b[2])


def mul(a, s):
    return (a[0] * s, a[1] * s, a[2] * s)


def dist(a, b):
    return norm(sub(a, b))


# ------------------------------------------------------------------ rigid / affine maps (C12)


def rotate_about_axis(p, n, theta, centre=(0.0, 0.0, 0.0)):
    """Rodrigues: turn p by theta about the axis through `centre` with *unit* direction n,
    right-handed (counter-clockwise seen from the tip of n)."""
    v = sub(p, centre)
    c, s = math.cos(theta), math.sin(theta)
    nxv = cross(n, v)
    nv = dot(n, v)
    w = (
        v[0] * c + nxv[0] * s + n[0] * nv * (1 - c),
        v[1] * c + nxv[1] * s + n[1] * nv * (1 - c),
        v[2] * c + nxv[2] * s + n[2] * nv * (1 - c),
    )
    return add(w, centre)


def rotation_matrix(n, theta):
    """3x3 matrix (rows) of the right-handed rotation by theta about unit axis n, column by column
    from rotate_about_axis (so it cannot disagree with it)."""
    cols = [rotate_about_axis(e, n, theta) for e in ((1.0, 0.0, 0.0), (0.0, 1.0, 0.0), (0.0, 0.0, 1.0))]
    return [[cols[j][i] for j in range(3)] for i in range(3)]


def scale_about(p, s, centre=(0.0, 0.0, 0.0)):
    return tuple(centre[k] + s[k] * (p[k] - centre[k]) for k in range(3))


def translate(p, t):
    return add(p, t)


def mat_apply(m3, p):
    return tuple(m3[i][0] * p[0] + m3[i][1] * p[1] + m3[i][2] * p[2] for i in range(3))


def det3(m):
    return (
        m[0][0] * (m[1][1] * m[2][2] - m[1][2] * m[2][1])
        - m[0][1] * (m[1][0] * m[2][2] - m[1][2] * m[2][0])
        + m[0][2] * (m[1][0] * m[2][1] - m[1][1] * m[2][0])
    )


def _selfcheck_handedness():
    # literal: R_z(+pi/2) x^ = y^ ; R_x(+pi/2) y^ = z^ ; R_y(+pi/2) z^ = x^
    h = math.pi / 2
    for n, a, b in (((0, 0, 1), (1, 0, 0), (0, 1, 0)), ((1, 0, 0), (0, 1, 0), (0, 0, 1)), ((0, 1, 0), (0, 0, 1), (1, 0, 0))):
        got = rotate_about_axis(tuple(map(float, a)), tuple(map(float, n)), h)
        if max(abs(got[k] - b[k]) for k in range(3)) > 1e-15:
            raise RuntimeError("refgeom: reference rotation is not right-handed")


_selfcheck_handedness()

# ------------------------------------------------------------------ quadrature


def _gauss_legendre(n):
    """Nodes and weights on [-1, 1] by Newton iteration on P_n (plain Python)."""
    xs, ws = [], []
    for i in range(1, n + 1):
        x = math.cos(math.pi * (i - 0.25) / (n + 0.5))
        for _ in range(100):
            p0, p1 = 1.0, x
            for k in range(2, n + 1):
                p0, p1 = p1, ((2 * k - 1) * x * p1 - (k - 1) * p0) / k
            dp = n * (x * p1 - p0) / (x * x - 1)
            dx = p1 / dp
            x -= dx
            if abs(dx) < 1e-16:
                break
        p0, p1 = 1.0, x
        for k in range(2, n + 1):
            p0, p1 = p1, ((2 * k - 1) * x * p1 - (k - 1) * p0) / k
        dp = n * (x * p1 - p0) / (x * x - 1)
        xs.append(x)
        ws.append(2 / ((1 - x * x) * dp * dp))
    return xs, ws


_GL_X, _GL_W = _gauss_legendre(8)


def _gl(f, a, b):
    h, m = (b - a) / 2, (a + b) / 2
    return h * math.fsum(w * f(m + h * x) for x, w in zip(_GL_X, _GL_W))


def integrate(f, a, b, tol=1e-12, breakpoints=(), max_depth=40):
    """Adaptive Gauss-Legendre on [a, b] split at `breakpoints`.  Absolute tolerance `tol` is
    distributed over the sub-intervals; recursion stops when a panel and its two halves agree."""
    if b <= a:
        return 0.0
    pts = sorted({a, b, *[q for q in breakpoints if a < q < b]})
    parts = []

    def rec(lo, hi, whole, eps, depth):
        mid = (lo + hi) / 2
        left, right = _gl(f, lo, mid), _gl(f, mid, hi)
        if abs(left + right - whole) <= eps or depth >= max_depth:
            parts.append(left + right)
            return
        rec(lo, mid, left, eps / 2, depth + 1)
        rec(mid, hi, right, eps / 2, depth + 1)

    for lo, hi in zip(pts, pts[1:]):
        rec(lo, hi, _gl(f, lo, hi), tol * (hi - lo) / (b - a), 0)
    return math.fsum(parts)


# ------------------------------------------------------------------ bodies of revolution on a common axis
#
# A solid is (z_lo, z_hi, rho2) with rho2(z) = squared radius of its circular cross-section at
# axial coordinate z for z_lo <= z <= z_hi, and empty cross-section outside.


def sphere_solid(zc, r):
    return (zc - r, zc + r, lambda z, zc=zc, r=r: max(0.0, r * r - (z - zc) * (z - zc)), ("sphere", zc, r))


def frustum_solid(z0, r0, z1, r1):
    """Frustum with radius r0 at z0 and r1 at z1 (z0 < z1)."""

    def rho2(z):
        rho = r0 + (r1 - r0) * (z - z0) / (z1 - z0)
        return rho * rho

    return (z0, z1, rho2, ("frustum", z0, r0, z1, r1))


def _rho2_at(solid, z):
    return solid[2](z) if solid[0] <= z <= solid[1] else 0.0


def _crossings(s1, s2):
    """Axial coordinates where the radius functions of two solids are equal (analytic:
    both squared radii are quadratics in z)."""

    def quad(s):
        tag = s[3]
        if tag[0] == "sphere":
            _, zc, r = tag
            return (-1.0, 2 * zc, r * r - zc * zc)
        _, z0, r0, z1, r1 = tag
        k = (r1 - r0) / (z1 - z0)
        a0 = r0 - k * z0
        return (k * k, 2 * a0 * k, a0 * a0)

    A1, B1, C1 = quad(s1)
    A2, B2, C2 = quad(s2)
    A, B, C = A1 - A2, B1 - B2, C1 - C2
    if A == 0:
        return [] if B == 0 else [-C / B]
    disc = B * B - 4 * A * C
    if disc < 0:
        return []
    sq = math.sqrt(disc)
    return [(-B - sq) / (2 * A), (-B + sq) / (2 * A)]


def volume_of(solids, mode):
    """Volume of the intersection (mode='min') or union (mode='max') of coaxial solids."""
    lo = min(s[0] for s in solids)
    hi = max(s[1] for s in solids)
    bps = []
    for s in solids:
        bps += [s[0], s[1]]
    for i in range(len(solids)):
        for j in range(i + 1, len(solids)):
            bps += _crossings(solids[i], solids[j])
    pick = min if mode == "min" else max

    def area(z):
        return math.pi * pick(_rho2_at(s, z) for s in solids)

    scale = math.pi * max((s[1] - s[0]) for s in solids) * max(max(s[2](s[0]), s[2]((s[0] + s[1]) / 2), s[2](s[1])) for s in solids)
    return integrate(area, lo, hi, tol=1e-13 * max(scale, 1e-300), breakpoints=bps)


# ---- the solids C13 talks about (cached: orientation / position do not enter)


@lru_cache(maxsize=None)
def vol_sphere(r):
    return volume_of([sphere_solid(0.0, r)], "max")


@lru_cache(maxsize=None)
def vol_cap(r, h):
    """Cap of height h (0 <= h <= 2r) cut from a sphere of radius r."""
    f = sphere_solid(0.0, r)[2]
    return integrate(lambda z: math.pi * f(z), r - h, r, tol=1e-13 * max(r**3, 1e-300))


@lru_cache(maxsize=None)
def vol_frustum(r1, r2, h):
    return volume_of([frustum_solid(0.0, r1, h, r2)], "max")


@lru_cache(maxsize=None)
def vol_two_spheres(r1, r2, d, mode):
    return volume_of([sphere_solid(0.0, r1), sphere_solid(d, r2)], mode)


@lru_cache(maxsize=None)
def vol_sphere_frustum(r_near, r_far, h, mode):
    """Sphere of radius r_near centred on the frustum end of radius r_near (at z = 0); the other
    end (radius r_far) at z = h."""
    return volume_of([sphere_solid(0.0, r_near), frustum_solid(0.0, r_near, h, r_far)], mode)


def sphere_frustum_case(r_near, r_far, h):
    """Which geometric situation the concentric sphere/frustum pair is in (reference-side
    classification, from the geometry only).  Used for path-coverage accounting."""
    if r_far >= r_near:
        return "widening:h>=r" if h >= r_near else "widening:h<r"
    d = r_near - r_far
    t = 2 * r_near * d / (d * d + h * h)  # where the generatrix leaves the sphere (t=1: far rim)
    if t > 1:
        return "narrowing:inside-sphere"
    if t == 1:
        return "narrowing:far-rim-on-sphere"
    return "narrowing:h>=r" if h >= r_near else "narrowing:h<r"


# ---- exact values (rational multiples of pi) for the three primitives


def exact_sphere(r):
    r = Fraction(r)
    return float(Fraction(4, 3) * r**3) * math.pi


def exact_cap(r, h):
    r, h = Fraction(r), Fraction(h)
    return float(h * h * (3 * r - h) / 3) * math.pi


def exact_frustum(r1, r2, h):
    r1, r2, h = Fraction(r1), Fraction(r2), Fraction(h)
    return float(h * (r1 * r1 + r1 * r2 + r2 * r2) / 3) * math.pi


def exact_lens(r1, r2, d):
    """Two-sphere intersection as the sum of two caps cut by the radical plane (textbook)."""
    if d >= r1 + r2:
        return 0.0
    if d <= abs(r1 - r2):
        return exact_sphere(min(r1, r2))
    r1, r2, d = Fraction(r1), Fraction(r2), Fraction(d)
    x = (d * d + r1 * r1 - r2 * r2) / (2 * d)  # radical plane, measured from centre 1
    h1, h2 = r1 - x, r2 - (d - x)
    return float(h1 * h1 * (3 * r1 - h1) / 3 + h2 * h2 * (3 * r2 - h2) / 3) * math.pi
