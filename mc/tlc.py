"""Run TLC on a spec under /verif/tla and load the complete labelled state graph it explored.

Used for model + conformance checking: TLC verifies the invariants of the model on every reachable model state; the caller then
replays every transition of that graph against the real implementation.
"""

from __future__ import annotations

import os
import re
import shutil
import subprocess
import tempfile

TLA_DIR = os.path.join(os.path.dirname(os.path.dirname(os.path.abspath(__file__))), "tla")


from mc.kernel import HarnessError


class TlcUnavailable(HarnessError):
    pass


def run(spec: str, constants: dict, invariants: list[str], timeout: float = 1500.0):
    """-> dict(states={id: {var: text}}, init=[ids], edges=[(src, action, args, dst)], stdout=str, distinct=int, generated=int)."""
    exe = shutil.which("tlc")
    if exe is None:
        raise TlcUnavailable("tlc is not on PATH")
    d = tempfile.mkdtemp(prefix="tlc-")
    try:
        shutil.copy(os.path.join(TLA_DIR, spec + ".tla"), d)
        with open(os.path.join(d, spec + ".cfg"), "w") as f:
            f.write("SPECIFICATION Spec\n")
            for k, v in constants.items():
                f.write(f"CONSTANT {k} = {v}\n")
            for inv in invariants:
                f.write(f"INVARIANT {inv}\n")
        cmd = [exe, "-workers", "1", "-noGenerateSpecTE", "-metadir", os.path.join(d, "meta"), "-deadlock", "-dump", "dot,actionlabels",
               os.path.join(d, "graph"), spec + ".tla", "-config", spec + ".cfg"]
        env = dict(os.environ)
        env.pop("JAVA_TOOL_OPTIONS", None)
        p = subprocess.run(cmd, cwd=d, capture_output=True, text=True, timeout=timeout, env=env,
                           preexec_fn=_no_limits)
        out = p.stdout + p.stderr
        if "Model checking completed. No error has been found." not in out:
            return {"ok": False, "stdout": out}
        m = re.search(r"(\d+) states generated, (\d+) distinct states found", out)
        g = _parse_dot(os.path.join(d, "graph.dot"))
        g.update(ok=True, stdout=out, generated=int(m.group(1)), distinct=int(m.group(2)))
        return g
    finally:
        shutil.rmtree(d, ignore_errors=True)


def _no_limits():
    """The JVM reserves far more address space than the explorer's workers are allowed: lift the limit for the child only."""
    import resource

    try:
        resource.setrlimit(resource.RLIMIT_AS, (resource.RLIM_INFINITY, resource.RLIM_INFINITY))
    except Exception:  # noqa: BLE001
        pass


_NODE = re.compile(r'^(-?\d+) \[label="(.*?)"(?:,|\])')
_EDGE = re.compile(r'^(-?\d+) -> (-?\d+) \[label="([A-Za-z_0-9]+)(?:\(([^)]*)\))?"')


def _parse_dot(path):
    states, edges, init = {}, [], []
    with open(path) as f:
        for line in f:
            m = _EDGE.match(line)
            if m:
                args = tuple(int(x) for x in m.group(4).split(",")) if m.group(4) else ()
                edges.append((m.group(1), m.group(3), args, m.group(2)))
                continue
            m = _NODE.match(line)
            if m:
                vars_ = {}
                for part in m.group(2).split("\\n"):
                    part = part.replace("\\\\", "\\")
                    mm = re.match(r"^/\\ (\w+) = (.*)$", part)
                    if mm:
                        vars_[mm.group(1)] = mm.group(2)
                states[m.group(1)] = vars_
                if "style = filled" in line:
                    init.append(m.group(1))
    return {"states": states, "edges": edges, "init": init}


def seq_of_ints(text: str) -> list[int]:
    """'<<1, 2, 3>>' -> [1, 2, 3]"""
    return [int(x) for x in re.findall(r"-?\d+", text)]


def set_of_sets(text: str) -> list[frozenset]:
    """'{{1}, {2, 3}}' -> [frozenset({1}), frozenset({2, 3})]"""
    return [frozenset(int(x) for x in re.findall(r"\d+", grp)) for grp in re.findall(r"\{([\d, ]*)\}", text.strip()[1:-1])]
