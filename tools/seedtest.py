#!/venv/bin/python
"""Confirm a seeded change and run checks against it, in a scratch worktree.

usage: seedtest.py <worktree> <seed-dir> <ID>[,<ID>...] [--tier quick] [--notests]

Steps: worktree must be clean -> demo without the change (expect exit 0) -> git apply patch.diff ->
repo tests (expect 81 passed) -> demo (expect non-zero) -> each check with VERIF_REPO=<worktree>
(expect exit 1 + VIOLATION) -> git checkout -- . (always).
Prints one summary line per step and a final JSON line.
"""
import json, os, subprocess, sys

wt, seed, ids = sys.argv[1:4]
tier = sys.argv[sys.argv.index("--tier") + 1] if "--tier" in sys.argv else "quick"
seed = os.path.abspath(seed)
demo = next((os.path.join(seed, f) for f in sorted(os.listdir(seed)) if f.startswith("demo")), None)
res = {"seed": os.path.basename(seed), "tier": tier}


def sh(cmd, **kw):
    return subprocess.run(cmd, cwd=wt, capture_output=True, text=True, **kw)


st = sh(["git", "status", "--porcelain"]).stdout.strip()
if st:
    print("worktree not clean:\n" + st)
    sys.exit(2)
env = dict(os.environ, PYTHONDONTWRITEBYTECODE="1")
try:
    r = sh(["/venv/bin/python", demo], env=env)
    res["demo_without"] = r.returncode
    r = sh(["git", "apply", os.path.join(seed, "patch.diff")])
    if r.returncode != 0:
        print("patch does not apply:", r.stderr[-500:])
        sys.exit(2)
    if "--notests" not in sys.argv:
        r = sh(["/venv/bin/python", "-m", "pytest", "-q", "-p", "no:cacheprovider"], env=env)
        res["tests"] = (r.stdout.strip().splitlines() or ["?"])[-1]
    r = sh(["/venv/bin/python", demo], env=env)
    res["demo_with"] = r.returncode
    res["demo_msg"] = (r.stdout + r.stderr).strip()[-300:]
    res["checks"] = {}
    for pid in ids.split(","):
        e = dict(os.environ, VERIF_REPO=wt)
        r = subprocess.run(["/verif/check", pid, tier], capture_output=True, text=True, env=e)
        kl = [l.strip()[:160] for l in r.stdout.splitlines() if l.strip().startswith("klass=")]
        res["checks"][pid] = {"exit": r.returncode, "klasses": kl[:4]}
        if r.returncode not in (0, 1):
            res["checks"][pid]["err"] = (r.stdout + r.stderr)[-800:]
finally:
    sh(["git", "checkout", "--", "."])
    sh(["git", "clean", "-fdq", "--", "swcgeom", "tests"])
print(json.dumps(res, indent=1))
