#!/venv/bin/python
"""Confirm a seeded change and run checks against it, in a scratch worktree.

usage: seedtest.py <worktree> <seed-dir> <ID>[,<ID>...] [--tier quick] [--notests]

Steps: worktree must be clean -> demo without the change (expect exit 0) -> git apply patch.diff ->
repo tests (expect 81 passed) -> demo (expect non-zero) -> each check with VERIF_REPO=<worktree>
(expect exit 1 + VIOLATION) -> git checkout -- . (always).
Prints one summary line per step and a final JSON line.
"""
import json, os, subprocess, sys

wt, seed, ids = sys.argv[1:4]
tier = sys.argv[sys.argv.index("--tier") + 1] if "--tier" in sys.argv else "quick"
seed = os.path.abspath(seed)
demo = next((os.path.join(seed, f) for f in sorted(os.listdir(seed)) if f.startswith("demo")), None)
res = {"seed": os.path.basename(seed), "tier": tier}


def sh(cmd, **kw):
    return subprocess.run(cmd, cwd=wt, capture_output=True, text=True, **kw)


st = sh(["git", "status", "--porcelain"]).stdout.strip()
if st:
    print("worktree not clean:\n" + st)
    sys.exit(2)
env = dict(os.environ, PYTHONDONTWRITEBYTECODE="1")
try:
    r = sh(["/venv/bin/python", demo], env=env)
    res["demo_without"] = r.returncode
    r = sh(["git", "apply", os.path.join(seed, "patch.diff")])
    if r.returncode != 0:
        print("patch does not apply:", r.stderr[-500:])
        sys.exit(2)
    if "--notests" not in sys.argv:
        r = sh(["/venv/bin/python", "-m", "pytest", "-q", "-p", "no:cacheprovider"], env=env)
        res["tests"] = (r.stdout.strip().splitlines() or ["?"])[-1]
    r = sh(["/venv/bin/python", demo], env=env)
    res["demo_with"] = r.returncode
    res["demo_msg"] = (r.stdout + r.stderr).strip()[-300:]
    res["checks"] = {}
    for pid in ids.split(","):
        e = dict(os.environ, VERIF_REPO=wt)
        r = subprocess.run(["/verif/check", pid, tier], capture_output=True, text=True, env=e)
        kl = [l.strip()[:160] for l in r.stdout.splitlines() if l.strip().startswith("klass=")]
        res["checks"][pid] = {"exit": r.returncode, "klasses": kl[:4]}
        if r.returncode not in (0, 1):
            res["checks"][pid]["err"] = (r.stdout + r.stderr)[-800:]
finally:
    sh(["git", "checkout", "--", "."])
    sh(["git", "clean", "-fdq", "--", "swcgeom", "tests"])
if "--keep" in sys.argv:
    import shutil
    confirmed = res.get("demo_without") == 0 and res.get("demo_with", 0) != 0 and str(res.get("tests", "")).startswith("81 passed")
    if not confirmed:
        print("NOT CONFIRMED, not kept")
    else:
        dst = os.path.join("/verif/seeded", os.path.basename(seed))
        os.makedirs(dst, exist_ok=True)
        if os.path.realpath(dst) != os.path.realpath(seed):
            shutil.copy(os.path.join(seed, "patch.diff"), dst)
            shutil.copy(demo, dst)
        try:
            meta = json.load(open(os.path.join(seed, "meta.json")))
        except Exception:
            meta = {}
        prev = meta.get("confirmed_by_verifier")
        if prev and not prev.get("detected") and not meta.get("first_version_missed"):
            # keep the history: the first version of the check did not report this change
            meta["first_version_missed"] = "the check as it stood when this change arrived stayed silent (exit " + str({k: v.get("exit") for k, v in prev.get("checks", {}).items()}) + "); strengthened since"
        meta["confirmed_by_verifier"] = {
            "ran": "tools/seedtest.py: clean scratch worktree of /repo HEAD -> demo (exit 0) -> git apply patch.diff -> repo test suite -> demo (non-zero) -> ./check <ID> " + tier + " with VERIF_REPO=<worktree> -> git checkout",
            "tests_with_change": res.get("tests"), "demo_without": res.get("demo_without"), "demo_with": res.get("demo_with"),
            "demo_message": res.get("demo_msg"),
            "checks": res.get("checks"),
            "detected": any(v.get("exit") == 1 for v in res.get("checks", {}).values()),
        }
        json.dump(meta, open(os.path.join(dst, "meta.json"), "w"), indent=1)
print(json.dumps(res, indent=1))
