#!/venv/bin/python
"""Run checks against a NEGATIVE CONTROL (a change that keeps the property true): every check must stay silent.

usage: negtest.py <worktree> <dir with patch.diff/demo.py/meta.json> [--ids C01,C05] [--tier quick] [--keep]

Steps: clean worktree -> demo (exit 0) -> git apply -> repo tests (81 passed) -> demo (exit 0) -> every selected check with
VERIF_REPO=<worktree> (expect exit 0, no VIOLATION) -> git checkout.  Without --ids the checks are those of every property whose
anchor files (properties.jsonl) include a file the patch touches, plus the control's own property.
"""
import json, os, re, subprocess, sys

wt, seed = sys.argv[1:3]
seed = os.path.abspath(seed)
tier = sys.argv[sys.argv.index("--tier") + 1] if "--tier" in sys.argv else "quick"
meta = json.load(open(os.path.join(seed, "meta.json")))
patch = open(os.path.join(seed, "patch.diff")).read()
touched = sorted(set(re.findall(r"^\+\+\+ b/(\S+)", patch, re.M)))
if "--ids" in sys.argv:
    ids = sys.argv[sys.argv.index("--ids") + 1].split(",")
else:
    ids = {meta.get("property")}
    for line in open("/verif/properties.jsonl"):
        p = json.loads(line)
        if set(p["anchors"]["files"]) & set(touched):
            ids.add(p["id"])
    ids = sorted(i for i in ids if i)
demo = next((os.path.join(seed, f) for f in sorted(os.listdir(seed)) if f.startswith("demo")), None)


def sh(cmd, **kw):
    return subprocess.run(cmd, cwd=wt, capture_output=True, text=True, **kw)


if sh(["git", "status", "--porcelain"]).stdout.strip():
    print("worktree not clean")
    sys.exit(2)
env = dict(os.environ, PYTHONDONTWRITEBYTECODE="1")
res = {"control": os.path.basename(seed), "tier": tier, "touched": touched, "checks": {}}
try:
    res["demo_without"] = sh(["/venv/bin/python", demo], env=env).returncode
    r = sh(["git", "apply", os.path.join(seed, "patch.diff")])
    if r.returncode != 0:
        print("patch does not apply:", r.stderr[-500:])
        sys.exit(2)
    r = sh(["/venv/bin/python", "-m", "pytest", "-q", "-p", "no:cacheprovider"], env=env)
    res["tests"] = (r.stdout.strip().splitlines() or ["?"])[-1]
    res["demo_with"] = sh(["/venv/bin/python", demo], env=env).returncode
    for pid in ids:
        r = subprocess.run(["/verif/check", pid, tier], capture_output=True, text=True, env=dict(os.environ, VERIF_REPO=wt))
        kl = [l.strip()[:200] for l in r.stdout.splitlines() if l.strip().startswith("klass=")]
        res["checks"][pid] = {"exit": r.returncode, "klasses": kl[:6]}
        if r.returncode not in (0, 1):
            res["checks"][pid]["err"] = (r.stdout + r.stderr)[-800:]
finally:
    sh(["git", "checkout", "--", "."])
    sh(["git", "clean", "-fdq", "--", "swcgeom", "tests"])
res["silent"] = all(v["exit"] == 0 for v in res["checks"].values())
if "--keep" in sys.argv and res.get("demo_without") == 0 and res.get("demo_with") == 0 and str(res.get("tests", "")).startswith("81 passed"):
    import shutil

    dst = os.path.join("/verif/seeded", os.path.basename(seed))
    os.makedirs(dst, exist_ok=True)
    if os.path.realpath(dst) != os.path.realpath(seed):
        shutil.copy(os.path.join(seed, "patch.diff"), dst)
        shutil.copy(demo, dst)
    meta["negative_control"] = True
    prev = meta.get("checked_by_verifier")
    if prev and not prev.get("silent") and not meta.get("first_version_alarmed"):
        meta["first_version_alarmed"] = {k: v for k, v in prev.get("checks", {}).items() if v.get("exit") != 0}
    meta["checked_by_verifier"] = {
        "ran": "tools/negtest.py: clean scratch worktree of /repo HEAD -> demo (exit 0) -> git apply -> repo tests -> demo (exit 0) -> checks " + tier + " -> git checkout",
        "tests_with_change": res.get("tests"), "demo_without": res.get("demo_without"), "demo_with": res.get("demo_with"),
        "checks": res["checks"], "silent": res["silent"],
    }
    json.dump(meta, open(os.path.join(dst, "meta.json"), "w"), indent=1)
print(json.dumps(res, indent=1))
