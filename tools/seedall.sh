#!/bin/bash
# Re-run every kept seeded change against the current checks (4 scratch worktrees of /repo HEAD in parallel), updating meta.json.
# usage: tools/seedall.sh [pattern]      e.g. tools/seedall.sh 'C1*'
cd "$(dirname "$0")/.."
pat=${1:-*}
base=${SEED_WT:-/tmp/seedall}
mkdir -p $base
for k in 0 1 2 3; do
  [ -d $base/wt$k ] || git -C /repo worktree add -q --detach $base/wt$k HEAD
done
ls -d seeded/$pat | sort > $base/list.txt
for k in 0 1 2 3; do
  ( awk -v k=$k 'NR%4==k' $base/list.txt | while read d; do
      id=$(basename $d); prop=${id%-*}
      git -C $base/wt$k checkout -q -- . ; git -C $base/wt$k clean -fdq
      VERIF_WORKERS=4 /venv/bin/python tools/seedtest.py $base/wt$k $d $prop --keep > $base/$id.json 2>&1
      /venv/bin/python - "$base/$id.json" "$id" <<'PY'
import json, sys
s = open(sys.argv[1]).read()
try:
    j = json.loads(s[s.index("{"):])
    print(sys.argv[2], "tests=", j.get("tests"), "demo", j.get("demo_without"), j.get("demo_with"), {k: v["exit"] for k, v in j.get("checks", {}).items()}, flush=True)
except Exception:
    print(sys.argv[2], "PARSE-FAIL", s[-300:], flush=True)
PY
    done ) &
done
wait
for k in 0 1 2 3; do git -C /repo worktree remove --force $base/wt$k; done
