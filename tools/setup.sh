#!/bin/bash
# Offline setup: nothing to build (pure Python run with /venv/bin/python); sanity-check the toolchain.
set -e
cd "$(dirname "$0")/.."
mkdir -p evidence replays
/venv/bin/python - <<'PY'
import sys
sys.path.insert(0, "/repo")
import numpy, pandas, scipy, swcgeom
assert swcgeom.__file__.startswith("/repo/"), swcgeom.__file__
from mc import selftest
selftest.main()
import shutil
assert shutil.which("tlc"), "tlc (TLA+ model checker) is not on PATH: needed by the C18 model-conformance space"
print("setup ok")
PY
