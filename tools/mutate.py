#!/venv/bin/python
"""Apply one textual mutation in a scratch worktree, run the repo tests and some checks, revert.

usage: mutate.py <worktree> <relfile> <old> <new> <ID>[,<ID>...] [--tier quick] [--notests]
"""
import subprocess, sys, os
wt, rel, old, new, ids = sys.argv[1:6]
tier = "quick"
if "--tier" in sys.argv:
    tier = sys.argv[sys.argv.index("--tier") + 1]
path = os.path.join(wt, rel)
src = open(path).read()
if src.count(old) != 1:
    print(f"MUTATION NOT APPLICABLE: {src.count(old)} occurrences of old text"); sys.exit(2)
open(path, "w").write(src.replace(old, new))
try:
    if "--notests" not in sys.argv:
        r = subprocess.run(["/venv/bin/python", "-m", "pytest", "-q", "-x", "-p", "no:cacheprovider"], cwd=wt, capture_output=True, text=True)
        print("tests:", r.stdout.strip().splitlines()[-1] if r.stdout.strip() else r.stderr[-300:])
    for pid in ids.split(","):
        env = dict(os.environ, VERIF_REPO=wt)
        r = subprocess.run(["/verif/check", pid, tier], capture_output=True, text=True, env=env)
        v = [l for l in r.stdout.splitlines() if l.startswith("VIOLATION")]
        kl = [l.strip() for l in r.stdout.splitlines() if l.strip().startswith("klass=")]
        print(f"{pid}: exit={r.returncode} violations={len(v)} {kl[:3]}")
        if r.returncode not in (0, 1):
            print(r.stdout[-1500:], r.stderr[-1500:])
finally:
    open(path, "w").write(src)
