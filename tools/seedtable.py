#!/usr/bin/env python3
"""Regenerate the detection table of DESIGN.md section 10.4 from seeded/*/meta.json.

usage: tools/seedtable.py            -> prints a markdown table
"""
import glob, json, os

rows = []
negs = []
for d in sorted(glob.glob(os.path.join(os.path.dirname(__file__), "..", "seeded", "*"))):
    try:
        m = json.load(open(os.path.join(d, "meta.json")))
    except Exception:
        continue
    if m.get("negative_control") or m.get("reclassified") or m.get("obsolete_on_current_head") or m.get("obsolete"):
        n = m.get("checked_by_verifier") or m.get("confirmed_by_verifier") or {}
        ch = n.get("checks", {})
        silent = all(v.get("exit") == 0 for v in ch.values()) if ch else None
        why = "behaviour-preserving rewrite" if m.get("negative_control") else (m.get("reclassified") or m.get("obsolete_on_current_head") or "no longer breaks the property")[:120]
        negs.append((os.path.basename(d), m.get("property", "?"), (m.get("summary") or "").replace("\n", " ").replace("|", "/")[:150],
                     ",".join(sorted(ch)) or "-", "silent" if silent else ("ALARM" if silent is False else "?"), why))
        continue
    c = m.get("confirmed_by_verifier", {})
    checks = c.get("checks", {})
    caught = [k for k, v in checks.items() if v.get("exit") == 1]
    kl = []
    for k in caught:
        for line in checks[k].get("klasses", [])[:1]:
            kl.append(line.split(" cases=")[0].replace("klass=", ""))
    first = m.get("first_version_missed")
    needs = (m.get("needs") or "").replace("\n", " ").replace("|", "/")
    if len(needs) > 150:
        needs = needs[:147] + "..."
    rows.append((os.path.basename(d), m.get("property", "?"), needs,
                 ",".join(caught) or "MISSED", (kl[0] if kl else "")[:70],
                 "missed at first: " + first if first else ""))

print("| change | property | needs, to manifest | caught by | first klass reported | note |")
print("|---|---|---|---|---|---|")
for r in rows:
    print("| " + " | ".join(r) + " |")
print(f"\n{len(rows)} confirmed property-breaking changes, {sum(1 for r in rows if r[3] != 'MISSED')} caught by the quick tier.")
print("\n## Negative controls (the checks must stay silent)\n")
print("| control | property | change | checks run | result | kind |")
print("|---|---|---|---|---|---|")
for r in negs:
    print("| " + " | ".join(r) + " |")
print(f"\n{len(negs)} negative controls, {sum(1 for r in negs if r[4] == 'silent')} silent.")
