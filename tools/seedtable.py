#!/usr/bin/env python3
"""Regenerate the detection table of DESIGN.md section 10.4 from seeded/*/meta.json.

usage: tools/seedtable.py            -> prints a markdown table
"""
import glob, json, os

rows = []
for d in sorted(glob.glob(os.path.join(os.path.dirname(__file__), "..", "seeded", "*"))):
    try:
        m = json.load(open(os.path.join(d, "meta.json")))
    except Exception:
        continue
    c = m.get("confirmed_by_verifier", {})
    checks = c.get("checks", {})
    caught = [k for k, v in checks.items() if v.get("exit") == 1]
    kl = []
    for k in caught:
        for line in checks[k].get("klasses", [])[:1]:
            kl.append(line.split(" cases=")[0].replace("klass=", ""))
    first = m.get("first_version_missed")
    needs = (m.get("needs") or "").replace("\n", " ").replace("|", "/")
    if len(needs) > 150:
        needs = needs[:147] + "..."
    rows.append((os.path.basename(d), m.get("property", "?"), needs,
                 ",".join(caught) or "MISSED", (kl[0] if kl else "")[:70],
                 "missed at first: " + first if first else ""))

print("| change | property | needs, to manifest | caught by | first klass reported | note |")
print("|---|---|---|---|---|---|")
for r in rows:
    print("| " + " | ".join(r) + " |")
print(f"\n{len(rows)} confirmed changes, {sum(1 for r in rows if r[3] != 'MISSED')} caught by the quick tier.")
