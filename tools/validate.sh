#!/bin/bash
# validate MANIFEST.json and all evidence files against the schemas (python3-vt has jsonschema)
cd "$(dirname "$0")/.."
python3-vt - <<'PY'
import json, jsonschema, glob
jsonschema.validate(json.load(open('MANIFEST.json')), json.load(open('/root/.vp/MANIFEST.schema.json')))
sch = json.load(open('/root/.vp/EVIDENCE.schema.json'))
for f in sorted(glob.glob('evidence/*.json')):
    jsonschema.validate(json.load(open(f)), sch)
print("manifest + evidence valid")
PY
