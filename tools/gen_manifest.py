#!/usr/bin/env python3
"""Regenerate MANIFEST.json from tools/checks.json (one entry per claimed property)."""
import json, os, subprocess
ROOT = os.path.dirname(os.path.dirname(os.path.abspath(__file__)))
checks = json.load(open(os.path.join(ROOT, "tools", "checks.json")))
props = [json.loads(l) for l in open(os.path.join(ROOT, "properties.jsonl"))]
hooks = json.load(open(os.path.join(ROOT, "tools", "hooks.json")))
out = {
    "version": 1,
    "setup_cmd": "cd /verif && ./tools/setup.sh",
    "hooks": hooks,
    "engines": [{
        "name": "mc",
        "path": "/verif/mc",
        "serves_properties": [p["id"] for p in props if p["id"] in checks],
        "kind_free_text": "hand-written explicit-state / bounded-exhaustive explorer (Python) that executes /repo's working tree on every enumerated case, operation sequence, fault placement and environment answer, and compares each step with a pure-Python reference model",
    }, {
        "name": "tlc-dsu",
        "path": "/verif/tla",
        "serves_properties": ["C18"],
        "kind_free_text": "TLA+ model of the disjoint-set structure (tla/DSU.tla) checked by TLC 1.8.0 (all reachable states, invariants TypeOK / Inv / RankBound); mc/tlc.py loads the dumped labelled state graph and mc/props/c18.py replays every model transition against the real DisjointSetUnion (space dsu-tlc-model-conformance)",
    }],
    "checks": [],
    "notes": "All checks: ./check <ID> <quick|thorough>; replay: ./check <ID> --replay <file>. See DESIGN.md.",
    "not_applicable": [],
}
for p in props:
    pid = p["id"]
    c = checks.get(pid)
    if c is None:
        out["not_applicable"].append({"property_id": pid, "reason": "check not built yet in this revision (planned in DESIGN.md section 4)"})
        continue
    out["checks"].append({
        "property_id": pid,
        "quick_cmd": f"./check {pid} quick",
        "thorough_cmd": f"./check {pid} thorough",
        "evidence_file": f"/verif/evidence/{pid}.json",
        "replay_cmd_template": f"./check {pid} --replay {{path}}",
        "engine": "mc",
        "level_claimed": {"category": "model_checking", "text": c["text"], "design_ref": c.get("design_ref", f"DESIGN.md section 4, {pid}")},
        "level_note": c["note"],
        "technique": c["technique"],
    })
json.dump(out, open(os.path.join(ROOT, "MANIFEST.json"), "w"), indent=1)
print("claimed:", [c["property_id"] for c in out["checks"]])
