SPECIFICATION Spec
CONSTANT N = 4
INVARIANT TypeOK
INVARIANT Inv
INVARIANT RankBound
